"""Check driver:  ./check Cxx quick|thorough   |   ./check replay <file>   |   ./check list"""
import importlib, json, os, re, subprocess, sys, time, traceback

ROOT = os.path.dirname(os.path.dirname(os.path.abspath(__file__)))
sys.path.insert(0, ROOT)
DEPS = os.path.join(ROOT, '.deps')
if not os.path.exists(os.path.join(DEPS, '.ok')):
    subprocess.run([os.path.join(ROOT, 'setup.sh')], check=True, stdout=subprocess.DEVNULL)
sys.path.insert(1, DEPS)
os.environ.setdefault('OMP_NUM_THREADS', '1')
os.environ.setdefault('OPENBLAS_NUM_THREADS', '1')
os.environ.setdefault('MKL_NUM_THREADS', '1')

from vf import core  # noqa: E402


def _t1_worker(job):
    unit, tier = job
    try:
        from ttvc import units
        obs = units.run(unit, tier)
        return [o.to_json() for o in obs]
    except BaseException as e:
        from ttvc.symex import Unsupported
        st = 'unsupported' if isinstance(e, Unsupported) else 'error'
        return [core.Ob(id=f'{unit}.<unit>', kind='unit', func=unit, status=st, backend='-',
                        detail=(''.join(traceback.format_exception_only(type(e), e)).strip() + ' @ '
                                + ' <- '.join(f'{f.name}:{f.lineno}' for f in
                                              traceback.extract_tb(e.__traceback__)[-5:]))[:1500]).to_json()]


def _t1_child(job, conn):
    try:
        conn.send(_t1_worker(job))
    finally:
        conn.close()


def run_units(jobs, limit_s, nproc=16):
    """Run every T1 unit in its own process (at most nproc at a time) under a hard wall-clock limit: a solver call that
    ignores its own timeout is killed and reported as `timeout` (undecided), it can never hang the check."""
    import multiprocessing as mp
    ctx = mp.get_context('fork')
    pending, running, out = list(enumerate(jobs)), {}, {}
    while pending or running:
        while pending and len(running) < nproc:
            k, job = pending.pop(0)
            a, b = ctx.Pipe(duplex=False)
            pr = ctx.Process(target=_t1_child, args=(job, b), daemon=True)
            pr.start()
            b.close()
            running[k] = (pr, a, time.time(), job)
        time.sleep(0.02)
        for k in list(running):
            pr, a, t0, job = running[k]
            if a.poll():
                try:
                    out[k] = a.recv()
                except EOFError:
                    out[k] = [core.Ob(id=f'{job[0]}.<unit>', kind='unit', func=job[0], status='error', backend='-',
                                      detail='unit process ended without a result').to_json()]
                pr.join(1)
                del running[k]
            elif not pr.is_alive():
                out[k] = [core.Ob(id=f'{job[0]}.<unit>', kind='unit', func=job[0], status='error', backend='-',
                                  detail=f'unit process died (exit code {pr.exitcode})').to_json()]
                del running[k]
            elif time.time() - t0 > limit_s:
                pr.kill()
                pr.join(1)
                out[k] = [core.Ob(id=f'{job[0]}.<unit>', kind='unit', func=job[0], status='timeout', backend='-',
                                  seconds=limit_s, detail=f'unit exceeded the wall-clock limit of {limit_s}s and was stopped').to_json()]
                del running[k]
    return [out[k] for k in range(len(jobs))]


def run_t1(prop, P, tier):
    units = list(getattr(P, 'T1', []))
    if not units:
        return [], {}
    t0 = time.time()
    limit = int(os.environ.get('TTVC_UNIT_LIMIT_S', '240' if tier == 'quick' else '900'))
    res = run_units([(u, tier) for u in units], limit)
    obs = [core.Ob.from_json(o) for r in res for o in r]
    seen, out = set(), []
    meta = {'functions': [], 'units': units, 'trusted': []}
    models_used, assumed, lemmas, dropped = set(), set(), set(), set()
    lossy_base = getattr(P, 'T1_LOSSY', {})
    info_lost = {}
    for o in obs:
        if o.kind == 'meta':
            m = json.loads(o.detail)
            # "lenient" evaluation steps that replaced a value by an opaque one: if the current source makes the engine lose
            # information at a place where it did not on the tree the contracts were written for, unproved obligations of that unit
            # are a limitation of the engine on the restructured code, not evidence against the property
            new_lossy = sorted({x for x in m['models_used'] if 'opaque' in x} - set(lossy_base.get(o.func, [])))
            if new_lossy:
                info_lost[o.func] = new_lossy
            for f in m['functions']:
                if f not in meta['functions']:
                    meta['functions'].append(f)
            models_used.update(m['models_used'])
            assumed.update(m['assumed_contracts'])
            lemmas.update(m['lemmas'])
            dropped.update(m['dropped'])
            continue
        if o.id in seen:
            continue
        seen.add(o.id)
        out.append(o)
    for o in out:
        unit_of = next((u for u in info_lost if o.id.startswith(u + '.')), None)
        if unit_of and o.status == 'failed':
            o.status = 'unsupported'
            o.detail = ('not decided: the engine replaced a value by an opaque one on the current source (' + '; '.join(info_lost[unit_of])[:300]
                        + ') - ' + o.detail)[:1500]
    meta['trusted'] = ['model-table entry (A-NP): ' + x for x in sorted(models_used)] + \
                      ['callee contract assumed at call sites (discharged by its own unit): ' + x for x in sorted(assumed)] + \
                      ['lemma: ' + x for x in sorted(lemmas)] + \
                      ['dropped by extraction: ' + x for x in sorted(dropped)]
    meta['t1_wall_s'] = round(time.time() - t0, 2)
    return out, meta


def check_property(prop, tier):
    t_start = time.time()
    seed = int(os.environ.get('VERIF_SEED', '0') or 0)
    P = importlib.import_module(f'props.{prop}')
    known = core.load_known()
    lines, violations, undecided, known_hits = [], [], [], []

    # ---------------- T1: deductive obligations on the real source
    obs, meta = run_t1(prop, P, tier)
    n_ob = len([o for o in obs if o.kind not in ('canary', 'cover')])
    proved = [o for o in obs if o.status == 'proved' and o.kind not in ('canary', 'cover')]
    guards = [o for o in obs if o.kind in ('canary', 'cover')]
    bad_guards = [o for o in guards if o.status != 'ok']
    by_backend = {}
    for o in obs:
        by_backend.setdefault(o.backend, [0, 0.0])
        by_backend[o.backend][0] += 1
        by_backend[o.backend][1] += o.seconds
    t1_fail = [o for o in obs if o.status in ('refuted', 'failed') and o.kind not in ('canary', 'cover')]
    t1_und = [o for o in obs if o.status in ('timeout', 'unsupported')]
    t1_err = [o for o in obs if o.status == 'error']
    min_ob = getattr(P, 'T1_MIN', 0)
    # units that could not be matched to the current source (or hit the wall-clock limit) contribute their recorded obligation count:
    # the vacuity guard is about units that silently generate nothing, not about units that say "undecided"
    counts = getattr(P, 'T1_COUNTS', {})
    missing_units = sorted({o.func for o in t1_und if o.kind == 'unit'})
    accounted = sum(counts.get(u, 0) for u in missing_units)
    if n_ob + accounted < min_ob:
        undecided.append(f'vacuity guard: {n_ob} obligations generated (+{accounted} of undecided units), {min_ob} declared in props/{prop}.py')
    for o in bad_guards:
        undecided.append(f'vacuity guard {o.id}: {o.detail[:200]}')

    # ---------------- T3: bounded run-time contracts on the real functions
    results, info3 = [], {}
    suite = None
    if getattr(P, 'T3', False):
        from rtc import api
        suite = api.load_suite(prop)
        budget = getattr(suite, 'BUDGET', (120, 900))[0 if tier == 'quick' else 1]
        results, info3 = api.run_suite(prop, tier, seed, budget, case_timeout=getattr(suite, 'CASE_TIMEOUT', 60))
    npass = sum(1 for r in results if r[2] == 'pass')
    ntriv = sum(1 for r in results if r[2] == 'trivial')
    nskip = sum(1 for r in results if r[2] == 'skip')
    t3_fail = [r for r in results if r[2] == 'fail']
    t3_und = [r for r in results if r[2] in ('timeout', 'error')]
    per_clause = {}
    for r in results:
        per_clause.setdefault(r[0], {}).setdefault(r[2], 0)
        per_clause[r[0]][r[2]] += 1
    if getattr(P, 'T3', False):
        from rtc import api
        declared = {c for c in api.CLAUSES if c.startswith(prop + '.') and c not in api.REPLAY_ONLY}
        missing = declared - set(per_clause)
        if missing and not info3.get('dropped_by_wall_clock_guard'):
            undecided.append('vacuity guard: declared clauses without a case: ' + ', '.join(sorted(missing)))

    # ---------------- decide
    from rtc import api as _api
    soft_pre = []
    for o in t1_fail:
        k = core.match_known(known, prop, o.id)
        if k:
            known_hits.append(f"KNOWN-FINDING: property={prop} {o.id}: {k.get('what', '')}")
            continue
        # `frames` is an abstract interpretation: "result may alias an argument" / "may write into an argument" on a CHANGED source
        # is an over-approximation (weak updates of list elements, copies made at another place).  It is reported as a violation
        # only when a bounded call of the same function (C09 table: every flag variant x layouts x argument forms, read-only
        # arguments) confirms it; otherwise it is listed as undecided.  The other frames kinds (rng, default-dict, clock, io,
        # module-state) are decided syntactically / flow-sensitively on reads and stay violations.
        if o.id.startswith('frames.') and o.kind in ('result-aliases', 'modifies') and results:
            short = re.sub(r'\[.*$', '', o.id.rsplit('.', 1)[0]).split('.')[-1]
            confirmed = any(str(r[1].get('fn', '')).split('.')[-1] == short for r in t3_fail if isinstance(r[1], dict))
            n_calls = 0
            if not confirmed:
                n_calls = sum(1 for r in results if r[2] == 'pass' and isinstance(r[1], dict) and str(r[1].get('fn', '')).split('.')[-1] == short)
            if not confirmed and n_calls:
                soft_pre.append(f'{o.id}: not confirmed by any of the {n_calls} bounded calls of {short} (abstract interpretation reports '
                                f'a MAY-{"alias" if o.kind == "result-aliases" else "write"}: {o.detail[:200]})')
                continue
        # falsifier: a failing bounded case of the same function gives the concrete input
        twin = None
        for r in t3_fail:
            fs = _api.CLAUSES[r[0]].funcs if r[0] in _api.CLAUSES else ()
            if o.func in fs and not core.match_known(known, prop, r[0], r[1]):
                twin = r
                break
        payload = {'kind': 't1', 'property': prop, 'obligation': o.to_json(), 'tier': tier,
                   'note': 'obligation generated from the current /repo source failed; it is discharged on the '
                           'unchanged tree'}
        if twin:
            payload['failing_input'] = {'kind': 't3', 'property': prop, 'clause': twin[0], 'params': twin[1],
                                        'detail': twin[3]}
        path = core.write_replay(prop, o.id, payload)
        tail = '' if (twin or o.status == 'refuted' and o.model and o.detail.startswith('replayed')) \
            else ' no-failing-input-found'
        violations.append(f'VIOLATION property={prop} replay={path}{tail}')
        lines.append(f'  T1 {o.status}: {o.id} [{o.kind}] {o.where} {o.detail[:300]}')
    for r in t3_fail:
        k = core.match_known(known, prop, r[0], r[1])
        if k:
            msg = f"KNOWN-FINDING: property={prop} {r[0]}: {k.get('what', '')}"
            if msg not in known_hits:
                known_hits.append(msg)
            continue
        path = core.write_replay(prop, r[0], {'kind': 't3', 'property': prop, 'clause': r[0], 'params': r[1],
                                              'detail': r[3], 'tier': tier})
        violations.append(f'VIOLATION property={prop} replay={path}')
        lines.append(f'  T3 fail: {r[0]} {json.dumps(r[1], default=str)[:300]} :: {r[3][:300]}')
    # "soft" undecided: part of the exploration could not be carried out (the contract of a unit no longer fits the restructured
    # source, a construct outside the subset, a solver / case time-out).  Reported, listed in the evidence, but the exit code
    # follows the interface: 0 if the property held on everything that WAS explored.  "Hard" undecided (list `undecided`):
    # a vacuity / soundness guard of the machinery itself failed - nothing the check says can be trusted (exit 2).
    soft = list(soft_pre)
    for o in t1_und:
        soft.append(f'{o.id}: {o.status} {o.detail[:300]}')
    for r in t3_und:
        soft.append(f'{r[0]} {json.dumps(r[1], default=str)[:200]}: {r[2]} {r[3][:200]}')
    if missing_units and len(missing_units) == len(getattr(P, 'T1', [])) and not results:
        undecided.append('nothing could be explored: every T1 unit is undecided and there is no bounded suite')
    errors = [f'{o.id}: {o.detail[:600]}' for o in t1_err]

    # ---------------- evidence
    distinct_nontrivial = len({r[0] + json.dumps(r[1], sort_keys=True, default=str) for r in results
                               if r[2] == 'pass'})
    samples = []
    for o in proved[:3]:
        samples.append({'t1_obligation': o.id, 'kind': o.kind, 'status': o.status, 'backend': o.backend,
                        'ms': round(1000 * o.seconds, 1), 'where': o.where})
    seen_cl = set()
    for r in results:
        if r[0] not in seen_cl and r[2] == 'pass' and len(seen_cl) < 4:
            seen_cl.add(r[0])
            samples.append({'t3_case': r[0], 'params': r[1], 'status': r[2]})
    level = P.LEVEL
    trusted = [f'{k}: {v}' for k, v in core.GLOBAL_ASSUMPTIONS.items() if k in getattr(P, 'ASSUMES', core.GLOBAL_ASSUMPTIONS)]
    trusted += [f'cited lemma {x}' for x in getattr(P, 'LEMMAS', [])]
    trusted += meta.get('trusted', [])
    for f, us in sorted(getattr(P, 'T1_CALLEES_ELSEWHERE', {}).items()):
        trusted.append(f'callee contract of teneva {f} assumed at call sites and NOT discharged in this check (' +
                       ('no unit verifies it' if not us else 'value contract, irrelevant to this frame property; discharged by ' + ', '.join(us)) + ')')
    cov = {
        'obligations': n_ob, 'discharged': len(proved),
        'checker_cmd': f'./check {prop} {tier}',
        'trusted_base': trusted,
        'explanation': P.EXPLANATION,
        't1': {
            'obligations_by_status': {s: sum(1 for o in obs if o.status == s and o.kind not in ('canary', 'cover'))
                                      for s in sorted({o.status for o in obs})},
            'by_backend': {b: {'obligations': v[0], 'solver_s': round(v[1], 3)} for b, v in by_backend.items()},
            'vacuity_guards': {'canaries_and_covers': len(guards), 'ok': len(guards) - len(bad_guards)},
            'functions_under_contract': meta.get('functions', []),
            'units': meta.get('units', []),
            'not_attempted': getattr(P, 'NOT_ATTEMPTED', []),
            'obligation_list': [{'id': o.id, 'kind': o.kind, 'status': o.status, 'backend': o.backend,
                                 'ms': round(1000 * o.seconds, 1)} for o in obs],
            'wall_s': meta.get('t1_wall_s', 0),
        },
        'bounded': {
            'label': 'bounded run-time contract evaluation (T3) - never counted as proved',
            'evaluations': len(results), 'passed_nontrivial': npass, 'trivial': ntriv, 'skipped': nskip,
            'failed': len(t3_fail), 'per_clause': per_clause, 'bounds': getattr(suite, 'BOUNDS', ''),
            **info3,
        },
        'evaluations': len(results) + n_ob,
        'distinct_nontrivial': distinct_nontrivial + len(proved),
        'rule': 'T1: one evaluation per generated obligation (distinct by id, non-trivial = not a vacuity guard); '
                'T3: one evaluation per generated case, distinct by (clause, params), non-trivial = clause '
                'reported PASS rather than TRIVIAL/SKIP',
        'samples': samples or [{'note': 'no case executed'}],
        'exhaustive': False,
        'clauses': getattr(P, 'CLAUSE_TABLE', {}),
        'known_findings_hit': known_hits,
        'undecided': (undecided + soft)[:80],
        'undecided_units': missing_units,
    }
    ev = {'property_id': prop, 'tier': tier, 'seed': seed, 'level': level, 'coverage': cov,
          'assumptions': trusted, 'wall_s': round(time.time() - t_start, 2), 'violations': len(violations)}
    err = core.validate_evidence(ev)
    if err:
        errors.append('evidence does not validate: ' + err)
    core.write_evidence(prop, ev)

    # ---------------- report
    print(f'[{prop} {tier}] T1: {len(proved)}/{n_ob} obligations discharged '
          f'({", ".join(f"{b}:{v[0]}" for b, v in by_backend.items())}; guards {len(guards) - len(bad_guards)}/{len(guards)} ok) | '
          f'T3 (bounded): {npass} pass, {ntriv} trivial, {nskip} skip, {len(t3_fail)} fail of {len(results)} '
          f'(generated {info3.get("generated", 0)}) | {ev["wall_s"]}s')
    for ln in known_hits:
        print(ln)
    for ln in lines:
        print(ln)
    for v in violations:
        print(v)
    if errors:
        for e in errors:
            print('INTERNAL-ERROR ' + e)
        return 3 if not violations else 1
    for u in soft[:20]:
        print(f'UNDECIDED property={prop} {u}')
    if violations:
        return 1
    if undecided:
        for u in undecided[:20]:
            print(f'UNDECIDED property={prop} {u}')
        return 2
    if soft:
        print(f'NOTE property={prop}: held on everything explored; {len(soft)} obligation(s) / unit(s) / case(s) above could not be '
              f'decided on this tree and are listed in the evidence (not counted as discharged)')
    return 0


def replay(path):
    payload = json.load(open(path))
    prop = payload['property']
    if payload['kind'] == 't1' and 'failing_input' not in payload:
        from ttvc import units
        o = payload['obligation']
        unit = o.get('func')
        P = importlib.import_module(f'props.{prop}')
        hit = None
        for u in P.T1:
            try:
                for x in units.run(u, 'quick'):
                    if x.id == o['id']:
                        hit = x
            except Exception as e:
                print('unit', u, 'raised', repr(e)[:200])
        if hit is None:
            print(f'obligation {o["id"]} is no longer generated')
            return 2
        print(f'obligation {hit.id}: {hit.status} ({hit.backend}) {hit.detail[:500]}')
        if hit.status in ('refuted', 'failed'):
            print(f'VIOLATION property={prop} replay={path} no-failing-input-found')
            return 1
        return 0 if hit.status == 'proved' else 2
    case = payload['failing_input'] if payload['kind'] == 't1' else payload
    from rtc import api
    status, detail, secs = api.run_case(prop, case['clause'], case['params'], timeout=300)
    print(f'replay {case["clause"]} {json.dumps(case["params"], default=str)} -> {status} {detail}')
    if status == 'fail':
        print(f'VIOLATION property={prop} replay={path}')
        return 1
    return 0 if status in ('pass', 'trivial', 'skip') else 2


def main(argv):
    try:
        if len(argv) >= 2 and argv[0] == 'replay':
            return replay(argv[1])
        if argv and argv[0] == 'list':
            m = json.load(open(os.path.join(ROOT, 'MANIFEST.json')))
            for c in m['checks']:
                print(c['property_id'], c['level_claimed']['category'])
            return 0
        prop = argv[0]
        tier = argv[1] if len(argv) > 1 else os.environ.get('VERIF_TIER', 'quick')
        if tier not in ('quick', 'thorough'):
            tier = 'quick'
        return check_property(prop, tier)
    except SystemExit:
        raise
    except BaseException:
        print('INTERNAL-ERROR (machinery crash, not a verdict about the repository):')
        traceback.print_exc()
        return 3


if __name__ == '__main__':
    sys.exit(main(sys.argv[1:]))
