"""Common plumbing of the checks: result records, evidence, replay files, known findings,
exit-code discipline.  See DESIGN.md sections 1.7 and 1.8.

Exit codes of `./check Cxx tier`:
  0  every T1 obligation proved and every T3 case passed (known findings excepted)
  1  VIOLATION line printed (refuted / failed obligation, or failing bounded case)
  2  UNDECIDED (timeout, unsupported construct, contract no longer matches the code)
  3  internal error of the machinery
"""
import json, os, sys, time, hashlib, traceback

ROOT = os.path.dirname(os.path.dirname(os.path.abspath(__file__)))
REPO = os.environ.get('VERIF_REPO', '/repo')
EVID = os.path.join(ROOT, 'evidence')
REPL = os.path.join(ROOT, 'replays')

GLOBAL_ASSUMPTIONS = {
    'A-REAL': 'floating-point numbers are treated as real numbers in every T1 obligation (no rounding, overflow, NaN)',
    'A-INT': 'int64 / Python int treated as mathematical integers',
    'A-PY': 'Python semantics assumed by the extraction: left-to-right evaluation, no monkey-patching of '
            'teneva/numpy attributes, CPython truthiness for None/numbers/bools; docstrings, print/log branches and '
            'the clock are dropped (effect-free)',
    'A-NP': 'NumPy/SciPy callables behave as stated in the model table ttvc/models.py (shape, value, alias rules); '
            'spot-checked against the installed NumPy on every run',
    'A-LAPACK': 'matrix factorisations (qr, rq, svd, eigh, lstsq, solve, lu) are exact over the reals',
    'A-CB': 'user callbacks (f, cb, basis functions) are pure: they neither write nor retain their arguments and '
            'f is a row-wise function of the index matrix',
    'A-BLAS': 'repeated identical NumPy/BLAS calls give identical bits',
    'A-SMT': 'z3 5.1.0 / cvc5 1.0.3 / the Lean 4 kernel are sound',
}


def sha(text):
    return hashlib.sha256(text.encode()).hexdigest()[:16]


class Ob:
    """One T1 obligation result."""
    __slots__ = ('id', 'kind', 'func', 'status', 'backend', 'seconds', 'detail', 'model', 'where')

    def __init__(self, id, kind, func, status, backend='z3', seconds=0.0, detail='', model=None, where=''):
        self.id, self.kind, self.func, self.status = id, kind, func, status
        self.backend, self.seconds, self.detail, self.model, self.where = backend, seconds, detail, model, where

    def to_json(self):
        return {k: getattr(self, k) for k in self.__slots__}

    @staticmethod
    def from_json(d):
        return Ob(**d)


class CaseResult:
    """One T3 (bounded run-time contract) case result."""
    __slots__ = ('clause', 'params', 'status', 'detail', 'seconds', 'funcs')

    def __init__(self, clause, params, status, detail='', seconds=0.0, funcs=()):
        self.clause, self.params, self.status, self.detail = clause, params, status, detail
        self.seconds, self.funcs = seconds, list(funcs)

    def to_json(self):
        return {k: getattr(self, k) for k in self.__slots__}


def load_known():
    p = os.path.join(ROOT, 'known_findings.json')
    if not os.path.exists(p):
        return {'findings': [], 'fixed': []}
    return json.load(open(p))


def match_known(known, prop, ident, params=None):
    """A finding is keyed by property + clause/obligation id + an optional predicate over the case parameters."""
    for f in known.get('findings', []):
        if f.get('property') != prop or f.get('id') != ident:
            continue
        when = f.get('when')
        if when is None:
            return f
        try:
            if eval(when, {'__builtins__': {'len': len, 'min': min, 'max': max, 'abs': abs, 'all': all, 'any': any,
                                            'sum': sum, 'int': int, 'float': float}},
                    dict(params or {})):
                return f
        except Exception:
            continue
    return None


def write_replay(prop, name, payload):
    os.makedirs(REPL, exist_ok=True)
    safe = ''.join(c if c.isalnum() or c in '._-' else '_' for c in name)[:100]
    path = os.path.join(REPL, f'{prop}.{safe}.{sha(json.dumps(payload, sort_keys=True, default=str))}.json')
    with open(path, 'w') as fh:
        json.dump(payload, fh, indent=1, default=str)
    return path


def write_evidence(prop, ev):
    os.makedirs(EVID, exist_ok=True)
    path = os.path.join(EVID, f'{prop}.json')
    tmp = path + '.tmp'
    with open(tmp, 'w') as fh:
        json.dump(ev, fh, indent=1, default=str)
    os.replace(tmp, path)
    return path


def validate_evidence(ev):
    try:
        import jsonschema
        schema = json.load(open('/root/.vp/EVIDENCE.schema.json'))
        jsonschema.validate(ev, schema)
        return None
    except FileNotFoundError:
        return None
    except Exception as e:  # pragma: no cover
        return str(e)[:500]
