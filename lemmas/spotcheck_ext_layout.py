"""Standard-model interpretations of the spec symbols of ttvc/mx_layout.py (loaded by lemmas/spotcheck.load_extensions).

colblk(A, j, w) = A[:, j*w:(j+1)*w];  foldRC(A, n, r2) = A.reshape(rows, n, r2) in C order;  unfLC(G) = G.reshape(r1*n, r2) in C order;
pval(a, m) = sum_{b<m} a[b] 2^b.  Out-of-range blocks / size mismatches are outside the domain (Undefined -> the instance is skipped)."""
import sys
import numpy as np


def _undefined(what):
    for n, m in list(sys.modules.items()):
        if n in ('__main__', 'lemmas.spotcheck') and hasattr(m, 'Undefined'):
            raise m.Undefined(what)
    raise ValueError(what)


def _colblk(a, j, w):
    j, w = int(j), int(w)
    if not (w >= 1 and j >= 0 and (j + 1) * w <= a.shape[1]):
        _undefined('column block out of range')
    return a[:, j * w:(j + 1) * w]


def _foldRC(a, n, r2):
    n, r2 = int(n), int(r2)
    if not (n >= 1 and r2 >= 1 and a.shape[1] == n * r2):
        _undefined('C-order fold of a matrix whose column count is not n*r2')
    return np.reshape(a, (a.shape[0], n, r2), order='C')


def _pval(a, m):
    m = int(m)
    if not 0 <= m <= 8:
        _undefined('pval length')
    return sum(int(a[b]) * 2 ** b for b in range(m))


INTERP_EXT = {'colblk': _colblk, 'foldRC': _foldRC, 'pval': _pval,
              'unfLC': lambda g: np.reshape(g, (g.shape[0] * g.shape[1], g.shape[2]), order='C')}
