"""Standard-model spot check of the axioms of ttvc/theory.py (part of A-NP, DESIGN 1.4 / 1.5).

Every quantified axiom of every group is *evaluated* in the standard model: Mat = 2-D float array, Core = 3-D float array,
the function symbols = the NumPy operations named in theory.py, on random small instances (integer-valued entries so that
equalities are exact).  An axiom that is false in the standard model would make the T1 proofs unsound; this check finds
such an axiom with high probability.  Bounded, reported separately, never counted as a proof.

usage: python -m lemmas.spotcheck      (exit 1 if an axiom is falsified or never exercised)
"""
import itertools, random, sys
import numpy as np
import z3
from ttvc import theory as T


def _mat(rng, r, c):
    return rng.integers(-3, 4, size=(r, c)).astype(float)


def _core(rng, a, b, c):
    return rng.integers(-3, 4, size=(a, b, c)).astype(float)


def kc(G, H):
    X = G[:, None, :, :, None] * H[None, :, :, None, :]
    return X.reshape([G.shape[0] * H.shape[0], -1, G.shape[-1] * H.shape[-1]])


def cset(G, j, x):
    H = G.copy()
    H[0, int(j), 0] = x
    return H


def _dom(ok, what):
    if not ok:
        raise Undefined(what)


def madd(a, b):
    _dom(a.shape == b.shape, 'madd of different shapes')
    return a + b


def row(a, i):
    _dom(0 <= int(i) < a.shape[0], 'row out of range')
    return a[int(i):int(i) + 1, :]


def rowblk(a, j, r):
    _dom(int(r) >= 1 and int(j) >= 0 and (int(j) + 1) * int(r) <= a.shape[0], 'row block out of range')
    return a[int(j) * int(r):(int(j) + 1) * int(r), :]


def colsel(a, j, n):
    _dom(int(n) >= 1 and 0 <= int(j) < int(n) and a.shape[1] % int(n) == 0, 'column selection out of range')
    return a[:, int(j)::int(n)]


def kc_dom(G, H):
    _dom(G.shape[1] == H.shape[1], 'kc of different mode sizes')
    return kc(G, H)


def _cput(g, a, b, w):
    _dom(0 <= int(a) < g.shape[0] and 0 <= int(b) < g.shape[2], 'fibre out of range')
    h = g.copy()
    h[int(a), :, int(b)] = [w[m] for m in range(g.shape[1])]
    return h


def chain(Y, ix, k):
    k = int(k)
    _dom(0 <= k < 8, 'chain index')
    M = Y[0][:, int(ix[0]), :]
    for t in range(1, k + 1):
        _dom(M.shape[1] == Y[t].shape[0], 'chain of a malformed tensor')
        M = M @ Y[t][:, int(ix[t]), :]
    return M


def schain(Y1, Y2, k):
    k = int(k)
    _dom(0 <= k < 8, 'schain index')
    M = kc_dom(Y1[0], Y2[0]).sum(axis=1)
    for t in range(1, k + 1):
        N = kc_dom(Y1[t], Y2[t]).sum(axis=1)
        _dom(M.shape[1] == N.shape[0], 'schain of malformed tensors')
        M = M @ N
    return M


# NB: the axioms are claimed on the domain where the NumPy operation is defined; every use site in the engine proves the
# domain condition as a call-pre / safety obligation.  Outside the domain the symbols are unconstrained total functions.
INTERP = {
    'rows': lambda a: a.shape[0], 'cols': lambda a: a.shape[1],
    'd0': lambda g: g.shape[0], 'd1': lambda g: g.shape[1], 'd2': lambda g: g.shape[2],
    'sl': lambda g, j: g[:, int(j), :], 'mm': lambda a, b: a @ b,
    'hcat': lambda a, b: np.concatenate([a, b], axis=1), 'vcat': lambda a, b: np.concatenate([a, b], axis=0),
    'madd': madd, 'smul': lambda c, a: float(c) * a, 'kron': np.kron, 'tr': lambda a: a.T,
    'zeros': lambda m, n: np.zeros((int(m), int(n))), 'eye': lambda n: np.eye(int(n)),
    'ent': lambda a, i, j: a[int(i), int(j)], 'row': row,
    'cat0': lambda g, h: np.concatenate([g, h], axis=0), 'cat2': lambda g, h: np.concatenate([g, h], axis=2),
    'zc': lambda a, b, c: np.zeros((int(a), int(b), int(c))), 'cscale': lambda c, g: float(c) * g, 'kc': kc_dom, 'chain': chain, 'schain': schain,
    'unfL': lambda g: np.reshape(g, (g.shape[0] * g.shape[1], g.shape[2]), order='F'),
    'unfR': lambda g: np.reshape(g, (g.shape[0], g.shape[1] * g.shape[2]), order='F'),
    'foldL': lambda a, r, n: np.reshape(a, (int(r), int(n), a.shape[1]), order='F'),
    'foldR': lambda a, n, r: np.reshape(a, (a.shape[0], int(n), int(r)), order='F'),
    'foldLC': lambda a, r, n: a.reshape(int(r), int(n), a.shape[1]),
    'rowblk': rowblk, 'colsel': colsel,
    'centry': lambda g, a, m, b: (_dom(0 <= int(a) < g.shape[0] and 0 <= int(m) < g.shape[1] and 0 <= int(b) < g.shape[2], 'entry out of range'),
                                  g[int(a), int(m), int(b)])[1],
    'cput': lambda g, a, b, w: _cput(g, a, b, w),
    'lcols': lambda a, r: (_dom(0 <= int(r) <= a.shape[1], 'leading columns out of range'), a[:, :int(r)])[1],
    'trows': lambda a, r: (_dom(0 <= int(r) <= a.shape[0], 'leading rows out of range'), a[:int(r), :])[1],
    'cmulR': lambda g, u: np.einsum('ijq,ql', g, u), 'fro': lambda g: float(np.linalg.norm(g)),
    'msum': lambda g: g.sum(axis=1), 'mulI': lambda a, b: int(a) * int(b),
    'pow2': lambda q: 2 ** int(q) if q >= 0 else 0, 'pow2r': lambda x: 2.0 ** float(x), 'log2': lambda x: float(np.log2(x)) if x > 0 else 0.0,
    'sc': lambda x: np.array([[float(x)]]), 'rmul': lambda x, y: float(x) * float(y),
    'onesc': lambda a, b, c: np.ones((int(a), int(b), int(c))), 'cset': cset,
    'sqf': lambda x: float(x) ** 2, 'divf': lambda x, y: float(x) / float(y) if y != 0 else 0.0,
    'sqrt': lambda x: float(np.sqrt(x)) if x >= 0 else 0.0, 'absr': abs, 'floor': lambda x: int(np.floor(x)),
}


class Undefined(Exception):
    """The instance is outside the domain where the NumPy operation is defined (shape mismatch, index out of range)."""


def same(a, b):
    if isinstance(a, np.ndarray) or isinstance(b, np.ndarray):
        a, b = np.asarray(a), np.asarray(b)
        return a.shape == b.shape and bool(np.all(a == b))
    return abs(float(a) - float(b)) <= 1e-9 * max(1.0, abs(float(a)), abs(float(b)))


def ev(t, env):
    if z3.is_var(t):
        return env[('var', z3.get_var_index(t))]
    if z3.is_int_value(t):
        return t.as_long()
    if z3.is_rational_value(t):
        return float(t.as_fraction())
    if z3.is_true(t):
        return True
    if z3.is_false(t):
        return False
    k = t.decl().kind()
    name = t.decl().name()
    ch = t.children()
    if k == z3.Z3_OP_AND:
        return all(ev(c, env) for c in ch)
    if k == z3.Z3_OP_OR:
        return any(ev(c, env) for c in ch)
    if k == z3.Z3_OP_NOT:
        return not ev(ch[0], env)
    if k == z3.Z3_OP_IMPLIES:
        return (not ev(ch[0], env)) or ev(ch[1], env)
    if k == z3.Z3_OP_ITE:
        return ev(ch[1], env) if ev(ch[0], env) else ev(ch[2], env)
    if k in (z3.Z3_OP_EQ, z3.Z3_OP_IFF):
        return same(ev(ch[0], env), ev(ch[1], env))
    if k == z3.Z3_OP_DISTINCT:
        return not same(ev(ch[0], env), ev(ch[1], env))
    vals = [ev(c, env) for c in ch]
    if k == z3.Z3_OP_ADD:
        return sum(vals)
    if k == z3.Z3_OP_SUB:
        return vals[0] - sum(vals[1:])
    if k == z3.Z3_OP_MUL:
        out = 1
        for v in vals:
            out = out * v
        return out
    if k == z3.Z3_OP_UMINUS:
        return -vals[0]
    if k == z3.Z3_OP_DIV:
        return vals[0] / vals[1]
    if k == z3.Z3_OP_IDIV:
        return vals[0] // vals[1]
    if k == z3.Z3_OP_LE:
        return vals[0] <= vals[1] + 1e-12
    if k == z3.Z3_OP_LT:
        return vals[0] < vals[1]
    if k == z3.Z3_OP_GE:
        return vals[0] >= vals[1] - 1e-12
    if k == z3.Z3_OP_GT:
        return vals[0] > vals[1]
    if k == z3.Z3_OP_TO_REAL:
        return float(vals[0])
    if k == z3.Z3_OP_SELECT:
        return vals[0][int(vals[1])]
    if k == z3.Z3_OP_UNINTERPRETED and name in INTERP:
        try:
            return INTERP[name](*vals)
        except (ValueError, IndexError, ZeroDivisionError) as e:
            raise Undefined(f'{name}: {e}')
    raise NotImplementedError(f'{name} / kind {k}')


def sample(sort, rng):
    if sort == T.Mat:
        return _mat(rng, int(rng.integers(1, 4)), int(rng.integers(1, 4)))
    if sort == T.Core:
        return _core(rng, int(rng.integers(1, 4)), int(rng.integers(1, 4)), int(rng.integers(1, 4)))
    if sort == z3.IntSort():
        return int(rng.integers(0, 4))
    if sort == z3.RealSort():
        return float(rng.integers(-3, 4))
    if sort == T.TT:
        d = int(rng.integers(2, 4))
        r = [1] + [int(rng.integers(1, 3)) for _ in range(d - 1)] + [1]
        cores = [_core(rng, r[k], int(rng.integers(1, 3)), r[k + 1]) for k in range(d)]
        return {k: cores[k] for k in range(d)} | {k: cores[-1] for k in range(d, 8)}
    if sort == T.IDX:
        return {k: 0 for k in range(8)}
    if sort == z3.ArraySort(z3.IntSort(), z3.RealSort()):
        return {k: float(rng.integers(-3, 4)) for k in range(8)}
    raise NotImplementedError(str(sort))


def check_axiom(ax, rng, tries=400):
    """Returns (exercised, falsified_example).  `exercised` counts instances where the premise held and every term was defined."""
    if not z3.is_quantifier(ax):
        try:
            return 1, (None if ev(ax, {}) else 'ground axiom is false')
        except Undefined:
            return 0, None
    n = ax.num_vars()
    body = ax.body()
    prem = body.children()[0] if z3.is_app(body) and body.decl().kind() == z3.Z3_OP_IMPLIES else None
    exercised = 0
    for _ in range(tries):
        env = {('var', n - 1 - i): sample(ax.var_sort(i), rng) for i in range(n)}
        try:
            if prem is not None and not ev(prem, env):
                continue
            ok = ev(body, env)
        except Undefined:
            continue
        exercised += 1
        if not ok:
            return exercised, {ax.var_name(i): str(env[('var', n - 1 - i)])[:120] for i in range(n)}
    return exercised, None


# axioms whose terms are only defined under side conditions that random sampling rarely meets get dedicated samplers
def _one(job):
    group, i, seed = job
    ax = T.GROUPS[group][i]
    rng = np.random.default_rng([seed, i, sum(map(ord, group))])
    try:
        ex, bad = check_axiom(ax, rng)
    except NotImplementedError as e:
        return (f'{group}[{i}]', 'skipped', f'not interpretable: {e}')
    if bad is not None:
        return (f'{group}[{i}]', 'FALSIFIED', f'{ax.sexpr()[:200]} with {bad}')
    if ex == 0:
        return (f'{group}[{i}]', 'unexercised', ax.sexpr()[:160])
    return (f'{group}[{i}]', 'ok', f'{ex} instances')


def run(seed=0, verbose=False, nproc=None):
    """Every axiom of every theory group, each with its own seeded generator; the axioms are independent, so they are spread
    over a process pool (fork: the loaded theory and interpretations are inherited)."""
    jobs = [(group, i, seed) for group, axs in T.GROUPS.items() for i in range(len(axs))]
    import multiprocessing as mp, os
    nproc = nproc or int(os.environ.get('SPOTCHECK_PROCS', '16'))
    if nproc <= 1 or mp.current_process().daemon:
        # (a daemonic unit process may not have children: threads instead - the work is NumPy-bound only in part, still a gain)
        from concurrent.futures import ThreadPoolExecutor
        if nproc <= 1:
            return [_one(j) for j in jobs]
        with ThreadPoolExecutor(max_workers=4) as ex:
            return list(ex.map(_one, jobs))
    with mp.get_context('fork').Pool(nproc) as pool:
        return pool.map(_one, jobs, chunksize=4)


def load_extensions():
    """Theory groups added by ttvc/mx_*.py and their interpretations lemmas/spotcheck_ext_*.py (each defines INTERP_EXT)."""
    import glob, importlib, importlib.util, os
    from ttvc import units
    units.load_all()
    for f in sorted(glob.glob(os.path.join(os.path.dirname(os.path.abspath(__file__)), 'spotcheck_ext_*.py'))):
        spec = importlib.util.spec_from_file_location(os.path.basename(f)[:-3], f)
        mod = importlib.util.module_from_spec(spec)
        spec.loader.exec_module(mod)
        INTERP.update(mod.INTERP_EXT)


if __name__ == '__main__':
    from ttvc import vec  # noqa: F401  (adds the 'sub' group)
    load_extensions()
    res = run()
    if '--json' in sys.argv:
        import json
        print(json.dumps(res))
        sys.exit(0)
    bad = [r for r in res if r[1] == 'FALSIFIED']
    for r in res:
        if r[1] != 'ok' or '-v' in sys.argv:
            print(*r)
    print(f'{sum(1 for r in res if r[1] == "ok")} axioms exercised and true in the standard model, '
          f'{sum(1 for r in res if r[1] == "unexercised")} unexercised, {sum(1 for r in res if r[1] == "skipped")} skipped, {len(bad)} falsified')
    sys.exit(1 if bad else 0)
