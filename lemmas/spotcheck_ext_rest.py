"""Standard-model interpretations of the theory symbols added by ttvc/mx_rest.py (four sections, see there); INTERP_EXT at the end collects them."""
# ==================================================================================================
# SECTION func_full (dense Chebyshev routines)
# ==================================================================================================
"""Standard-model interpretations of the theory symbols added by ttvc/mx_rest.py (groups 'rest_dense', 'rest_colsel', 'rest_corder',
'rest_cblk', ...).  rest_fftre is interpreted by np.fft.fft itself and dct1 (lemmas/spotcheck_ext_func.py) by scipy.fftpack.dct, so the
"FFT of the even extension = DCT-I" axiom compares the two libraries on every run.  Instances outside the domain of an operation raise
IndexError (= undefined)."""
import numpy as np


class _FFUndef(IndexError):
    pass


def _ff_need(ok, what):
    if not ok:
        raise _FFUndef(what)


def _ff_revrows(A, lo, hi):
    lo, hi = int(lo), int(hi)
    _ff_need(0 <= hi <= lo < A.shape[0], 'reversed row range outside the matrix')
    return A[lo:hi:-1, :]


def _ff_rowset(A, i, v):
    i = int(i)
    _ff_need(0 <= i < A.shape[0] and v.shape == (1, A.shape[1]), 'row store outside the domain')
    B = A.copy()
    B[i, :] = v[0]
    return B


def _ff_sl0(G, a):
    a = int(a)
    _ff_need(0 <= a < G.shape[0], 'leading index out of range')
    return G[a, :, :]


def _ff_colm(w, m):
    m = int(m)
    _ff_need(0 <= m <= 8, 'vector length')
    return np.array([float(w[k]) for k in range(m)]).reshape((m, 1))


def _ff_col0(A):
    _ff_need(A.shape[1] >= 1, 'no column')
    return np.array([float(A[k, 0]) if k < A.shape[0] else 0.0 for k in range(8)])


INTERP_EXT_ff = {
    'rest_sw01': lambda G: np.swapaxes(G, 0, 1), 'rest_sw02': lambda G: np.swapaxes(G, 0, 2), 'rest_sl0': _ff_sl0,
    'rest_revrows': _ff_revrows, 'rest_fftre': lambda A: np.fft.fft(A, axis=0).real, 'rest_rowset': _ff_rowset,
    'rest_lift': lambda A: A[None, :, :], 'rest_colm': _ff_colm, 'rest_col0': _ff_col0,
}


def _ff_rowdiv(A, q):
    _ff_need(all(float(q[i]) != 0 for i in range(A.shape[0])), 'division by zero')
    return A / np.array([float(q[i]) for i in range(A.shape[0])])[:, None]


def _ff_psum(A, c, k):
    c, k = int(c), int(k)
    _ff_need(0 <= k <= A.shape[0] and 0 <= c < A.shape[1], 'partial column sum out of range')
    return float(sum(A[i, c] for i in range(k)))


def _ff_ccsum(A, c, k):
    c, k = int(c), int(k)
    _ff_need(0 <= k and 2 * (k - 1) < A.shape[0] and 0 <= c < A.shape[1], 'Clenshaw-Curtis partial sum out of range')
    return float(sum(2 * A[2 * l, c] / (1 - (2 * l) ** 2) for l in range(k)))


def _ff_cblk(A, j, r):
    j, r = int(j), int(r)
    _ff_need(r >= 0 and j >= 0 and (j + 1) * r <= A.shape[1], 'column block out of range')
    return A[:, j * r:(j + 1) * r]


def _ff_vfoldC(v, n):
    n = int(n)
    _ff_need(v.shape[0] == 1 and n >= 1 and v.shape[1] % n == 0, 'row-major fold of a row: size')
    return v.reshape(n, -1)


INTERP_EXT_ff.update({
    'rest_erows': lambda A: A[::2, :], 'rest_rowdiv': _ff_rowdiv, 'rest_colsum': lambda A: np.sum(A, axis=0)[None, :], 'rest_psum': _ff_psum,
    'rest_ccsum': _ff_ccsum, 'rest_unfC': lambda G: G.reshape(G.shape[0], -1), 'rest_cblk': _ff_cblk, 'rest_vfoldC': _ff_vfoldC,
})


def _ff_tfib(Xs, s, k):
    from lemmas.spotcheck_ext_func import _cheb as cheb
    return np.array([cheb(l, float(Xs[int(s)][int(k)])) for l in range(8)])


INTERP_EXT_ff.update({'rest_tfib': _ff_tfib})


# ==================================================================================================
# SECTION anova_func
# ==================================================================================================
"""Standard-model interpretations of the theory symbols added by ttvc/mx_rest.py (groups 'rest_af_mv', 'rest_af_hsum', 'rest_af_chebmat').
rest_af_mv is interpreted by NumPy's own `A @ v`, rest_af_mvsum / rest_af_hsum by plain Python sums: the defining sum of the model-table entry
"2-D @ 1-D" is thereby compared with the library on every run.  Vectors are dicts 0..8 (the sampler of lemmas/spotcheck.py); the list of vectors
(sort Array(Int, Array(Int, Real))) is sampled by the wrapper that lemmas/spotcheck_ext_anova.py installs.  Instances outside the domain of an
operation raise IndexError (= undefined).  rest_af_lsqv / rest_af_cvec / rest_af_clen occur in no axiom and need no interpretation."""
import numpy as np


class _af_Undef(IndexError):
    pass


def _af_need(ok, what):
    if not ok:
        raise _af_Undef(what)


def _af_mv(A, v):
    _af_need(A.shape[1] <= 8, 'vector length')
    out = A @ np.array([float(v[t]) for t in range(A.shape[1])])
    return {i: (float(out[i]) if i < A.shape[0] else 0.0) for i in range(9)}


def _af_mvsum(A, v, i, k):
    i, k = int(i), int(k)
    _af_need(0 <= i < A.shape[0] and 0 <= k <= A.shape[1], 'partial row sum out of range')
    return float(sum(A[i, t] * float(v[t]) for t in range(k)))


def _af_hsum(S, k):
    k = int(k)
    _af_need(0 <= k <= 8, 'hsum length')
    return float(sum(S[t][0] for t in range(k)))


def _af_cheb(k, x):
    t0, t1 = 1.0, float(x)
    if k == 0:
        return t0
    for _ in range(k - 1):
        t0, t1 = t1, 2 * float(x) * t1 - t0
    return t1


def _af_chebmat(x, L, m):
    L, m = int(L), int(m)
    _af_need(0 <= L <= 8 and 0 <= m <= 8, 'basis matrix size')
    return np.array([[_af_cheb(i, x[j]) for j in range(L)] for i in range(m)], dtype=float).reshape(m, L)


INTERP_EXT_af = {'rest_af_chebmat': _af_chebmat, 'rest_af_mv': _af_mv, 'rest_af_mvsum': _af_mvsum, 'rest_af_hsum': _af_hsum}


# ==================================================================================================
# SECTION ANOVA.build_2
# ==================================================================================================
"""Standard-model interpretations of the theory symbols added by ttvc/mx_rest.py (loaded by lemmas/spotcheck.load_extensions).

Symbols: rest_b2_ccnt2 / csum2 / cmean2 (count, sum and mean of y over the samples that carry a pair of values), rest_b2_tri / pos / e1 / e2
(the enumeration (0,1), (0,2), .., (0,d-1), (1,2), .. of the pairs of modes: pairs before a first mode, position of a pair, the pair
at a position - e1 / e2 are computed by LISTING the pairs, independently of the formula behind pos).
The generic sampler draws every integer array as the constant 0; the axioms of the groups of mx_rest are therefore checked with random
(not constant) integer columns: `check_axiom` of the running spot-check module is wrapped for exactly these axioms (same pattern as
lemmas/spotcheck_ext_anova.py; every other axiom falls through to the previous function)."""
import sys
import z3
from ttvc import theory as T
from ttvc import mx_rest as XB2

b2_NMAX = 8


def b2_sc():
    return [m for n, m in list(sys.modules.items()) if n in ('__main__', 'lemmas.spotcheck') and hasattr(m, 'check_axiom') and hasattr(m, 'INTERP')]


def b2_undefined(what):
    for m in b2_sc():
        raise m.Undefined(what)
    raise ValueError(what)


def b2_rng(k, what):
    k = int(k)
    if not 0 <= k <= b2_NMAX:
        b2_undefined(what)
    return k


def b2_hits(c1, x1, c2, x2, n):
    return [s for s in range(b2_rng(n, 'number of samples')) if int(c1[s]) == int(x1) and int(c2[s]) == int(x2)]


def b2_i_ccnt2(c1, x1, c2, x2, n):
    return len(b2_hits(c1, x1, c2, x2, n))


def b2_i_csum2(y, c1, x1, c2, x2, n):
    return float(sum(y[s] for s in b2_hits(c1, x1, c2, x2, n)))


def b2_i_cmean2(y, c1, x1, c2, x2, n):
    h = b2_hits(c1, x1, c2, x2, n)
    if not h:
        b2_undefined('mean of an empty selection')
    return float(sum(y[s] for s in h)) / len(h)


def b2_i_tri(d, a):
    return sum(int(d) - 1 - t for t in range(b2_rng(a, 'first mode')))


def b2_i_pos(d, a, b):
    return b2_i_tri(d, a) + int(b) - int(a) - 1


def b2_pairs(d):
    d = b2_rng(d, 'number of modes')
    return [(a, b) for a in range(d) for b in range(a + 1, d)]


def b2_i_e(which):
    def f(d, m):
        prs, m = b2_pairs(d), int(m)
        if not 0 <= m < len(prs):
            b2_undefined('position outside the list of pairs')
        return prs[m][which]
    return f


INTERP_EXT_b2 = {'rest_b2_ccnt2': b2_i_ccnt2, 'rest_b2_csum2': b2_i_csum2, 'rest_b2_cmean2': b2_i_cmean2, 'rest_b2_tri': b2_i_tri, 'rest_b2_pos': b2_i_pos,
              'rest_b2_e1': b2_i_e(0), 'rest_b2_e2': b2_i_e(1)}


def b2_random_ints(orig, sort, rng_):
    if sort == XB2.b2_IA:
        return {k: int(rng_.integers(0, 3)) for k in range(b2_NMAX + 1)}
    return orig(sort, rng_)


def b2_wrap_check(mod):
    orig = mod.check_axiom
    if getattr(orig, '_mx_rest', False):
        return
    mine = {ax.get_id() for g in ('rest_b2_csum2', 'rest_b2_cmean2', 'rest_b2_sym') for ax in T.GROUPS[g]}

    def check_axiom(ax, rng, tries=400):
        if ax.get_id() in mine:
            keep = mod.sample
            mod.sample = lambda sort, rng_: b2_random_ints(keep, sort, rng_)
            try:
                return orig(ax, rng, tries * 4)
            finally:
                mod.sample = keep
        return orig(ax, rng, tries)

    check_axiom._mx_rest = True
    for a in ('_mx_anova',):
        if getattr(orig, a, False):
            setattr(check_axiom, a, True)
    mod.check_axiom = check_axiom


for _b2_m in b2_sc():
    b2_wrap_check(_b2_m)


# ==================================================================================================
# SECTION sample_rand_poi / cdf_confidence / cross_act
# ==================================================================================================
"""Standard-model interpretations of the theory symbols added by ttvc/mx_rest.py (group 'rest_sp_ln')."""
import numpy as np


def sp_ln(x):
    """np.log on its domain; outside (x <= 0) the symbol is an unconstrained total function (every axiom has the premise x > 0)"""
    return float(np.log(float(x))) if x > 0 else 0.0


INTERP_EXT_sp = {
    'rest_sp_ln': sp_ln,
}


INTERP_EXT = {}
for _d in (INTERP_EXT_ff, INTERP_EXT_af, INTERP_EXT_b2, INTERP_EXT_sp):
    INTERP_EXT.update(_d)
