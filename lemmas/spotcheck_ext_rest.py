"""Standard-model interpretations of the theory symbols added by ttvc/mx_rest.py (groups 'rest_dense', 'rest_colsel', 'rest_corder',
'rest_cblk', ...).  rest_fftre is interpreted by np.fft.fft itself and dct1 (lemmas/spotcheck_ext_func.py) by scipy.fftpack.dct, so the
"FFT of the even extension = DCT-I" axiom compares the two libraries on every run.  Instances outside the domain of an operation raise
IndexError (= undefined)."""
import numpy as np


class _FFUndef(IndexError):
    pass


def _ff_need(ok, what):
    if not ok:
        raise _FFUndef(what)


def _ff_revrows(A, lo, hi):
    lo, hi = int(lo), int(hi)
    _ff_need(0 <= hi <= lo < A.shape[0], 'reversed row range outside the matrix')
    return A[lo:hi:-1, :]


def _ff_rowset(A, i, v):
    i = int(i)
    _ff_need(0 <= i < A.shape[0] and v.shape == (1, A.shape[1]), 'row store outside the domain')
    B = A.copy()
    B[i, :] = v[0]
    return B


def _ff_sl0(G, a):
    a = int(a)
    _ff_need(0 <= a < G.shape[0], 'leading index out of range')
    return G[a, :, :]


def _ff_colm(w, m):
    m = int(m)
    _ff_need(0 <= m <= 8, 'vector length')
    return np.array([float(w[k]) for k in range(m)]).reshape((m, 1))


def _ff_col0(A):
    _ff_need(A.shape[1] >= 1, 'no column')
    return np.array([float(A[k, 0]) if k < A.shape[0] else 0.0 for k in range(8)])


INTERP_EXT = {
    'rest_sw01': lambda G: np.swapaxes(G, 0, 1), 'rest_sw02': lambda G: np.swapaxes(G, 0, 2), 'rest_sl0': _ff_sl0,
    'rest_revrows': _ff_revrows, 'rest_fftre': lambda A: np.fft.fft(A, axis=0).real, 'rest_rowset': _ff_rowset,
    'rest_lift': lambda A: A[None, :, :], 'rest_colm': _ff_colm, 'rest_col0': _ff_col0,
}


def _ff_rowdiv(A, q):
    _ff_need(all(float(q[i]) != 0 for i in range(A.shape[0])), 'division by zero')
    return A / np.array([float(q[i]) for i in range(A.shape[0])])[:, None]


def _ff_psum(A, c, k):
    c, k = int(c), int(k)
    _ff_need(0 <= k <= A.shape[0] and 0 <= c < A.shape[1], 'partial column sum out of range')
    return float(sum(A[i, c] for i in range(k)))


def _ff_ccsum(A, c, k):
    c, k = int(c), int(k)
    _ff_need(0 <= k and 2 * (k - 1) < A.shape[0] and 0 <= c < A.shape[1], 'Clenshaw-Curtis partial sum out of range')
    return float(sum(2 * A[2 * l, c] / (1 - (2 * l) ** 2) for l in range(k)))


def _ff_cblk(A, j, r):
    j, r = int(j), int(r)
    _ff_need(r >= 0 and j >= 0 and (j + 1) * r <= A.shape[1], 'column block out of range')
    return A[:, j * r:(j + 1) * r]


def _ff_vfoldC(v, n):
    n = int(n)
    _ff_need(v.shape[0] == 1 and n >= 1 and v.shape[1] % n == 0, 'row-major fold of a row: size')
    return v.reshape(n, -1)


INTERP_EXT.update({
    'rest_erows': lambda A: A[::2, :], 'rest_rowdiv': _ff_rowdiv, 'rest_colsum': lambda A: np.sum(A, axis=0)[None, :], 'rest_psum': _ff_psum,
    'rest_ccsum': _ff_ccsum, 'rest_unfC': lambda G: G.reshape(G.shape[0], -1), 'rest_cblk': _ff_cblk, 'rest_vfoldC': _ff_vfoldC,
})


def _ff_tfib(Xs, s, k):
    from lemmas.spotcheck_ext_func import _cheb as cheb
    return np.array([cheb(l, float(Xs[int(s)][int(k)])) for l in range(8)])


INTERP_EXT.update({'rest_tfib': _ff_tfib})
