"""Standard-model interpretations of the theory symbols added by ttvc/mx_rest_b2.py (loaded by lemmas/spotcheck.load_extensions).

Symbols: rest_b2_ccnt2 / csum2 / cmean2 (count, sum and mean of y over the samples that carry a pair of values), rest_b2_tri / pos / e1 / e2
(the enumeration (0,1), (0,2), .., (0,d-1), (1,2), .. of the pairs of modes: pairs before a first mode, position of a pair, the pair
at a position - e1 / e2 are computed by LISTING the pairs, independently of the formula behind pos).
The generic sampler draws every integer array as the constant 0; the axioms of the groups of mx_rest_b2 are therefore checked with random
(not constant) integer columns: `check_axiom` of the running spot-check module is wrapped for exactly these axioms (same pattern as
lemmas/spotcheck_ext_anova.py; every other axiom falls through to the previous function)."""
import sys
import z3
from ttvc import theory as T
from ttvc import mx_rest_b2 as XB2

b2_NMAX = 8


def b2_sc():
    return [m for n, m in list(sys.modules.items()) if n in ('__main__', 'lemmas.spotcheck') and hasattr(m, 'check_axiom') and hasattr(m, 'INTERP')]


def b2_undefined(what):
    for m in b2_sc():
        raise m.Undefined(what)
    raise ValueError(what)


def b2_rng(k, what):
    k = int(k)
    if not 0 <= k <= b2_NMAX:
        b2_undefined(what)
    return k


def b2_hits(c1, x1, c2, x2, n):
    return [s for s in range(b2_rng(n, 'number of samples')) if int(c1[s]) == int(x1) and int(c2[s]) == int(x2)]


def b2_i_ccnt2(c1, x1, c2, x2, n):
    return len(b2_hits(c1, x1, c2, x2, n))


def b2_i_csum2(y, c1, x1, c2, x2, n):
    return float(sum(y[s] for s in b2_hits(c1, x1, c2, x2, n)))


def b2_i_cmean2(y, c1, x1, c2, x2, n):
    h = b2_hits(c1, x1, c2, x2, n)
    if not h:
        b2_undefined('mean of an empty selection')
    return float(sum(y[s] for s in h)) / len(h)


def b2_i_tri(d, a):
    return sum(int(d) - 1 - t for t in range(b2_rng(a, 'first mode')))


def b2_i_pos(d, a, b):
    return b2_i_tri(d, a) + int(b) - int(a) - 1


def b2_pairs(d):
    d = b2_rng(d, 'number of modes')
    return [(a, b) for a in range(d) for b in range(a + 1, d)]


def b2_i_e(which):
    def f(d, m):
        prs, m = b2_pairs(d), int(m)
        if not 0 <= m < len(prs):
            b2_undefined('position outside the list of pairs')
        return prs[m][which]
    return f


INTERP_EXT = {'rest_b2_ccnt2': b2_i_ccnt2, 'rest_b2_csum2': b2_i_csum2, 'rest_b2_cmean2': b2_i_cmean2, 'rest_b2_tri': b2_i_tri, 'rest_b2_pos': b2_i_pos,
              'rest_b2_e1': b2_i_e(0), 'rest_b2_e2': b2_i_e(1)}


def b2_random_ints(orig, sort, rng_):
    if sort == XB2.b2_IA:
        return {k: int(rng_.integers(0, 3)) for k in range(b2_NMAX + 1)}
    return orig(sort, rng_)


def b2_wrap_check(mod):
    orig = mod.check_axiom
    if getattr(orig, '_mx_rest_b2', False):
        return
    mine = {ax.get_id() for g in ('rest_b2_csum2', 'rest_b2_cmean2', 'rest_b2_sym') for ax in T.GROUPS[g]}

    def check_axiom(ax, rng, tries=400):
        if ax.get_id() in mine:
            keep = mod.sample
            mod.sample = lambda sort, rng_: b2_random_ints(keep, sort, rng_)
            try:
                return orig(ax, rng, tries * 4)
            finally:
                mod.sample = keep
        return orig(ax, rng, tries)

    check_axiom._mx_rest_b2 = True
    for a in ('_mx_anova',):
        if getattr(orig, a, False):
            setattr(check_axiom, a, True)
    mod.check_axiom = check_axiom


for _b2_m in b2_sc():
    b2_wrap_check(_b2_m)
