"""Standard-model interpretations of the theory symbols added by ttvc/mx_act.py (loaded by lemmas/spotcheck.load_extensions).

Symbols: isum, psize, wsum, wchain, vnorm.  The axioms of mx_act quantify over one sort that lemmas/spotcheck.sample
does not know (a list of weight vectors, Array(Int, Array(Int, Real))); `sample` of the running spot-check module is wrapped
(same pattern as the model-table hooks: unknown sorts fall through to the previous function)."""
import sys
import numpy as np
import z3
from ttvc import theory as T
from ttvc import mx_act as X


def _sc():
    """The spot-check module that is running (either `__main__` or lemmas.spotcheck)."""
    mods = [m for n, m in list(sys.modules.items()) if n in ('__main__', 'lemmas.spotcheck') and hasattr(m, 'check_axiom') and hasattr(m, 'INTERP')]
    return mods


def _undefined(what):
    for m in _sc():
        raise m.Undefined(what)
    raise ValueError(what)


def _isum(a, k):
    k = int(k)
    if not 0 <= k <= 8:
        _undefined('isum length')
    return sum(int(a[t]) for t in range(k))


def _psize(Y, k):
    k = int(k)
    if not 0 <= k <= 8:
        _undefined('psize length')
    return sum(int(Y[t].size) for t in range(k))


def _wsum(G, w):
    return np.einsum('rmq,m->rq', G, np.array([float(w[m]) for m in range(G.shape[1])]))


def _wchain(Y, P, k):
    k = int(k)
    if not 0 <= k < 8:
        _undefined('wchain index')
    Mx = _wsum(Y[0], P[0])
    for t in range(1, k + 1):
        N = _wsum(Y[t], P[t])
        if Mx.shape[1] != N.shape[0]:
            _undefined('wchain of a malformed tensor')
        Mx = Mx @ N
    return Mx


def _vnorm(v, n):
    n = int(n)
    if not 0 <= n <= 8:
        _undefined('vnorm length')
    return float(np.linalg.norm(np.array([float(v[t]) for t in range(n)])))


INTERP_EXT = {'isum': _isum, 'psize': _psize, 'wsum': _wsum, 'wchain': _wchain, 'vnorm': _vnorm}


def _wrap_sample(mod):
    orig = mod.sample
    if getattr(orig, '_mx_act', False):
        return

    def sample(sort, rng):
        if sort == X.WL:
            return {k: {m: float(rng.integers(-3, 4)) for m in range(8)} for k in range(8)}
        return orig(sort, rng)

    sample._mx_act = True
    mod.sample = sample


for _m in _sc():
    _wrap_sample(_m)
