"""Standard-model interpretations of the theory symbols added by ttvc/mx_opt.py (groups 'qdm', 'qdmdef', 'ichain', 'spos')."""
import numpy as np


def _ichain(Y, ix, off, lo, hi):
    off, lo, hi = int(off), int(lo), int(hi)
    if lo > hi or lo < 0 or lo - off < 0:
        raise IndexError('empty / out-of-domain interval chain')
    out = None
    for m in range(lo, hi + 1):
        G = Y[m]
        j = int(ix[m - off])
        if not 0 <= j < G.shape[1]:
            raise IndexError('mode index out of range')
        S = G[:, j, :]
        out = S if out is None else out @ S          # a rank mismatch raises ValueError (-> undefined instance)
    return out


def _qd(u, n):
    if int(n) <= 0:
        raise ZeroDivisionError('qd by a non-positive divisor')
    return int(u) // int(n)


def _qm(u, n):
    if int(n) <= 0:
        raise ZeroDivisionError('qm by a non-positive divisor')
    return int(u) % int(n)


INTERP_EXT = {'qd': _qd, 'qm': _qm, 'ichain': _ichain, 'spos': lambda nn, a, b, l1, l2: (int(nn) * int(l1) + int(a)) * int(l2) + int(b)}
