"""Standard-model interpretations of the theory symbols added by ttvc/mx_rest_sp.py (group 'rest_sp_ln')."""
import numpy as np


def sp_ln(x):
    """np.log on its domain; outside (x <= 0) the symbol is an unconstrained total function (every axiom has the premise x > 0)"""
    return float(np.log(float(x))) if x > 0 else 0.0


INTERP_EXT = {
    'rest_sp_ln': sp_ln,
}
