"""Standard-model interpretations of the theory symbols added by ttvc/mx_func.py (groups 'cheb', 'cmode', 'chebsum', 'cslset', 'dct1',
'centsl', 'cstep2', 'isq', 'ccchain', ...).  dct1 is interpreted by scipy.fftpack.dct itself, cmode by np.einsum: the defining sums of the
model table are thereby compared with the library on every run.  Instances outside the domain of an operation raise IndexError (= undefined)."""
import math
import numpy as np
from scipy.fftpack import dct as _scipy_dct


class _Undef(IndexError):
    pass


def _need(ok, what):
    if not ok:
        raise _Undef(what)


def _cheb(k, x):
    k, x = int(k), float(x)
    _need(0 <= k <= 12, 'cheb order')
    t0, t1 = 1.0, x
    if k == 0:
        return t0
    for _ in range(k - 1):
        t0, t1 = t1, 2 * x * t1 - t0
    return t1


def _cmode(G, Mx):
    _need(Mx.shape[0] == G.shape[1], 'cmode: contracted dimensions differ')
    return np.einsum('riq,ij->rjq', G, Mx)


def _modesum(G, Mx, a, j, b, k):
    a, j, b, k = int(a), int(j), int(b), int(k)
    _need(0 <= k <= G.shape[1] and k <= Mx.shape[0] and 0 <= a < G.shape[0] and 0 <= b < G.shape[2] and 0 <= j < Mx.shape[1], 'modesum range')
    return sum(G[a, i, b] * Mx[i, j] for i in range(k))


def _chebsum(G, x, a, b, k):
    a, b, k = int(a), int(b), int(k)
    _need(0 <= k <= G.shape[1] and 0 <= a < G.shape[0] and 0 <= b < G.shape[2], 'chebsum range')
    return sum(G[a, i, b] * _cheb(i, x) for i in range(k))


def _cslset(G, j, A):
    j = int(j)
    _need(0 <= j < G.shape[1] and A.shape == (G.shape[0], G.shape[2]), 'slice store out of the domain')
    H = G.copy()
    H[:, j, :] = A
    return H


def _dct1(G):
    _need(G.shape[1] >= 2, 'DCT-I needs two points')
    return _scipy_dct(G, 1, axis=1)


def _dct1sum(G, a, k, b, j):
    a, k, b, j = int(a), int(k), int(b), int(j)
    n = G.shape[1]
    _need(n >= 2 and 1 <= j <= n and 0 <= a < G.shape[0] and 0 <= b < G.shape[2], 'dct1sum range')
    return sum(G[a, i, b] * math.cos(math.pi * k * i / (n - 1)) for i in range(1, j))


def _sgnpow(k):
    _need(int(k) >= 0, 'sgnpow of a negative exponent')
    return float((-1) ** int(k))


def _cstep2(G):
    return G[:, ::2]


def _ccchain(Y, a, b, w, k):
    k = int(k)
    _need(0 <= k < 8, 'ccchain length')
    Mx = np.array([[1.0]])
    for t in range(k):
        E = Y[t][:, ::2]
        W = sum(float(w[m]) * E[:, m, :] for m in range(E.shape[1]))
        _need(Mx.shape[1] == W.shape[0], 'ccchain of a malformed tensor')
        Mx = (float(b[t]) - float(a[t])) / 2 * (Mx @ W)
    return Mx


INTERP_EXT = {
    'cheb': _cheb, 'cmode': _cmode, 'modesum': _modesum, 'chebsum': _chebsum, 'cslset': _cslset, 'dct1': _dct1, 'dct1sum': _dct1sum,
    'sgnpow': _sgnpow, 'cstep2': _cstep2, 'ccchain': _ccchain, 'pi': lambda: math.pi, 'cos': lambda x: math.cos(float(x)),
}


def _chebscale(x, a, b):
    x, a, b = float(x), float(a), float(b)
    _need(a < b, 'chebscale of an empty box')
    return min(1.0, max(-1.0, (x - (b + a) / 2) * (2 / (b - a))))


def _mrow(Mx, i):
    i = int(i)
    _need(0 <= i < Mx.shape[0], 'mrow out of range')
    return np.array([float(Mx[i, j]) if j < Mx.shape[1] else 0.0 for j in range(8)])       # a vector value: compared elementwise


def _pcol(X, k):
    return np.array([float(X[s][int(k)]) for s in range(8)])


def _bsel(TA, s):
    s = int(s)
    _need(all(0 <= s < TA[k].shape[0] for k in range(8)), 'bsel row out of range')
    return {k: _mrow(TA[k][s:s + 1, :], 0) for k in range(8)}


INTERP_EXT.update({'chebscale': _chebscale, 'mrow': _mrow, 'pcol': _pcol, 'bsel': _bsel})


def _wrap_sample():
    """Values for the sort Array(Int, Mat) (a list of matrices with a common number of rows); other sorts fall through."""
    import sys
    import z3
    from ttvc import theory as T
    MA = z3.ArraySort(z3.IntSort(), T.Mat)
    for mod in [m for n, m in list(sys.modules.items()) if n in ('__main__', 'lemmas.spotcheck') and hasattr(m, 'check_axiom') and hasattr(m, 'sample')]:
        orig = mod.sample
        if getattr(orig, '_mx_func', False):
            continue

        def sample(sort, rng, orig=orig):
            if sort == MA:
                r = int(rng.integers(1, 4))
                return {k: rng.integers(-3, 4, size=(r, int(rng.integers(1, 4)))).astype(float) for k in range(8)}
            return orig(sort, rng)

        sample._mx_func = True
        mod.sample = sample


_wrap_sample()


def _munf(G):
    return np.transpose(G, [1, 0, 2]).reshape(G.shape[1], -1)


def _mfold(Mx, r1, r2):
    r1, r2 = int(r1), int(r2)
    _need(r1 >= 1 and r2 >= 1 and Mx.shape[1] == r1 * r2, 'mfold of a matrix with the wrong number of columns')
    return np.transpose(Mx.reshape(Mx.shape[0], r1, r2), [1, 0, 2])


def _lsq(H, Mx):
    import scipy.linalg
    _need(H.shape[0] == Mx.shape[0], 'lstsq of operands with different row counts')
    return scipy.linalg.lstsq(H, Mx)[0]


INTERP_EXT.update({'munf': _munf, 'mfold': _mfold, 'lsqsol': _lsq})
