"""Standard-model interpretations of the theory symbols added by ttvc/mx_als.py (loaded by lemmas/spotcheck.load_extensions).

Mat = 2-D float array (a 'column' is an n x 1 array), Int -> Int arrays are dicts.  `lsq` is scipy.linalg.lstsq itself (the solver the
library calls, same driver), which is why its defining equations are stated with the predicate `meq` (compared with a
tolerance) and not with `==` (which the spot check compares exactly)."""
import sys
import numpy as np
import scipy.linalg


def _sc():
    return [m for n, m in list(sys.modules.items()) if n in ('__main__', 'lemmas.spotcheck') and hasattr(m, 'check_axiom') and hasattr(m, 'INTERP')]


def _undefined(what):
    for m in _sc():
        raise m.Undefined(what)
    raise ValueError(what)


def _need(ok, what):
    if not ok:
        _undefined(what)


def _dscale(w, a):
    _need(w.shape[0] == a.shape[0], 'dscale of different lengths')
    return w[:, :1] * a


def _had(a, b):
    _need(a.shape == b.shape, 'had of different shapes')
    return a * b


def _lsq(m, b):
    _need(m.shape[0] == b.shape[0], 'lstsq of different row counts')
    return scipy.linalg.lstsq(m.copy(), b.copy(), lapack_driver='gelsy')[0]


def _meq(a, b):
    return a.shape == b.shape and bool(np.allclose(a, b, rtol=1e-8, atol=1e-8))


def _invertible(m):
    return m.shape[0] == m.shape[1] and int(np.linalg.matrix_rank(m)) == m.shape[0]


def _idx(ix, n, hi):
    n = int(n)
    _need(0 <= n <= 8, 'gather length')
    out = [int(ix[t]) for t in range(n)]
    _need(all(0 <= v < hi for v in out), 'gather index out of range')
    return out


def _rowg(a, ix, n):
    return a[_idx(ix, n, a.shape[0]), :]


def _colg(a, ix, n):
    return a[:, _idx(ix, n, a.shape[1])]


def _krrows(p, r):
    _need(p.shape[0] == r.shape[0], 'krrows of different row counts')
    return (p[:, :, None] * r[:, None, :]).reshape(p.shape[0], -1)


def _unvecC(v, m, n):
    m, n = int(m), int(n)
    _need(m >= 1 and n >= 1 and v.shape == (m * n, 1), 'unvecC size')
    return v.reshape(m, n)


def _dg(a):
    _need(a.shape[0] == a.shape[1], 'diagonal of a non-square matrix')
    return np.diag(a).reshape(-1, 1).copy()


def _cputsl(g, k, x):
    k = int(k)
    _need(0 <= k < g.shape[1] and x.shape == (g.shape[0], g.shape[2]), 'slice store out of range / wrong shape')
    h = g.copy()
    h[:, k, :] = x
    return h


INTERP_EXT = {
    'dscale': _dscale, 'had': _had, 'lsq': _lsq, 'meq': _meq, 'invertible': _invertible, 'nonneg': lambda w: bool(np.all(w >= 0)),
    'rowg': _rowg, 'colg': _colg, 'krrows': _krrows, 'vecC': lambda x: x.reshape(-1, 1).copy(), 'unvecC': _unvecC, 'dg': _dg,
    'cputsl': _cputsl,
}


# ---- slice coverage (group 'cover'): integer vectors are dicts position -> value
import z3
from ttvc import theory as T
from ttvc import mx_als as X


def _vals(v, m):
    m = int(m)
    _need(0 <= m <= 8, 'vector length')
    return [int(v[t]) for t in range(m)]


def _occ(v, m, j):
    vals = _vals(v, m)
    return vals.index(int(j)) if int(j) in vals else -1


def _miss(v, m, n):
    vals = set(_vals(v, m))
    for j in range(max(int(n), 0)):
        if j not in vals:
            return j
    return -1


INTERP_EXT.update({
    'ndist': lambda v, m: len(set(_vals(v, m))),
    'covers': lambda v, m, n: set(range(max(int(n), 0))) <= set(_vals(v, m)),
    'inrng': lambda v, m, n: all(0 <= x < int(n) for x in _vals(v, m)),
    'occ': _occ, 'miss': _miss,
})


def _wrap(mod):
    """Richer integer vectors while the axioms of group 'cover' are sampled (the stock sampler returns the zero vector)."""
    if getattr(mod.check_axiom, '_mx_als', False):
        return
    orig_check, orig_sample = mod.check_axiom, mod.sample
    mine = {ax.get_id() for ax in T.GROUPS.get('cover', [])}
    state = {'rich': False}

    def check_axiom(ax, rng, tries=400):
        state['rich'] = ax.get_id() in mine
        try:
            return orig_check(ax, rng, tries)
        finally:
            state['rich'] = False

    def sample(sort, rng):
        if state['rich'] and sort == X.IA:
            hi = int(rng.integers(1, 4))
            return {k: int(rng.integers(0, hi)) for k in range(8)}
        return orig_sample(sort, rng)

    check_axiom._mx_als = True
    mod.check_axiom, mod.sample = check_axiom, sample


for _m in _sc():
    _wrap(_m)


# ---- als_func (groups 'als3', 'kr3vec')
def _unvec3(v, a, b, c):
    a, b, c = int(a), int(b), int(c)
    _need(a >= 1 and b >= 1 and c >= 1 and v.shape == (a * b * c, 1), 'unvec3 size')
    return v.reshape(a, b, c)


def _cadd(g, h):
    _need(g.shape == h.shape, 'cadd of different shapes')
    return g + h


def _ctrunc(g, n):
    n = int(n)
    _need(0 <= n <= g.shape[1], 'ctrunc out of range')
    return g[:, :n, :]


def _cpre(g, h):
    _need(h.shape[0] == g.shape[0] and h.shape[2] == g.shape[2] and h.shape[1] <= g.shape[1], 'cpre of incompatible cores')
    out = g.copy()
    out[:, :h.shape[1], :] = h
    return out


def _fpred(p, h, g, r):
    _need(p.shape[0] == h.shape[0] == r.shape[0] and (p.shape[1], h.shape[1], r.shape[1]) == g.shape, 'fpred of incompatible factors')
    return np.einsum('ik,ij,kjl,il->i', p, h, g, r).reshape(-1, 1)


INTERP_EXT.update({
    'vec3': lambda g: g.reshape(-1, 1).copy(), 'unvec3': _unvec3, 'cadd': _cadd, 'ctrunc': _ctrunc, 'cpre': _cpre,
    'maxabsC': lambda g: float(np.abs(g).max()), 'maxabsM': lambda a: float(np.abs(a).max()), 'fpred': _fpred,
})


def _wrap3(mod):
    """Small coordinated shapes while the layout axiom 'kr3vec' is sampled (four shape equations have to hold at once)."""
    if getattr(mod.check_axiom, '_mx_als3', False):
        return
    orig_check, orig_sample = mod.check_axiom, mod.sample
    mine = {ax.get_id() for ax in T.GROUPS.get('kr3vec', [])}
    state = {'rich': False}

    def check_axiom(ax, rng, tries=400):
        state['rich'] = ax.get_id() in mine
        try:
            return orig_check(ax, rng, tries)
        finally:
            state['rich'] = False

    def sample(sort, rng):
        if state['rich'] and sort == T.Mat:
            return rng.integers(-3, 4, size=(2, int(rng.integers(1, 3)))).astype(float)
        if state['rich'] and sort == T.Core:
            return rng.integers(-3, 4, size=tuple(int(x) for x in rng.integers(1, 3, size=3))).astype(float)
        return orig_sample(sort, rng)

    check_axiom._mx_als3 = True
    check_axiom._mx_als = getattr(orig_check, '_mx_als', False)
    mod.check_axiom, mod.sample = check_axiom, sample


for _m in _sc():
    _wrap3(_m)
