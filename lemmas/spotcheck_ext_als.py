"""Standard-model interpretations of the theory symbols added by ttvc/mx_als.py (loaded by lemmas/spotcheck.load_extensions).

Mat = 2-D float array (a 'column' is an n x 1 array), Int -> Int arrays are dicts.  `lsq` is scipy.linalg.lstsq itself (the solver the
library calls, same driver), which is why its defining equations are stated with the predicate `meq` (compared with a
tolerance) and not with `==` (which the spot check compares exactly)."""
import sys
import numpy as np
import scipy.linalg


def _sc():
    return [m for n, m in list(sys.modules.items()) if n in ('__main__', 'lemmas.spotcheck') and hasattr(m, 'check_axiom') and hasattr(m, 'INTERP')]


def _undefined(what):
    for m in _sc():
        raise m.Undefined(what)
    raise ValueError(what)


def _need(ok, what):
    if not ok:
        _undefined(what)


def _dscale(w, a):
    _need(w.shape[0] == a.shape[0], 'dscale of different lengths')
    return w[:, :1] * a


def _had(a, b):
    _need(a.shape == b.shape, 'had of different shapes')
    return a * b


def _lsq(m, b):
    _need(m.shape[0] == b.shape[0], 'lstsq of different row counts')
    return scipy.linalg.lstsq(m.copy(), b.copy(), lapack_driver='gelsy')[0]


def _meq(a, b):
    return a.shape == b.shape and bool(np.allclose(a, b, rtol=1e-8, atol=1e-8))


def _invertible(m):
    return m.shape[0] == m.shape[1] and int(np.linalg.matrix_rank(m)) == m.shape[0]


def _idx(ix, n, hi):
    n = int(n)
    _need(0 <= n <= 8, 'gather length')
    out = [int(ix[t]) for t in range(n)]
    _need(all(0 <= v < hi for v in out), 'gather index out of range')
    return out


def _rowg(a, ix, n):
    return a[_idx(ix, n, a.shape[0]), :]


def _colg(a, ix, n):
    return a[:, _idx(ix, n, a.shape[1])]


def _krrows(p, r):
    _need(p.shape[0] == r.shape[0], 'krrows of different row counts')
    return (p[:, :, None] * r[:, None, :]).reshape(p.shape[0], -1)


def _unvecC(v, m, n):
    m, n = int(m), int(n)
    _need(m >= 1 and n >= 1 and v.shape == (m * n, 1), 'unvecC size')
    return v.reshape(m, n)


def _dg(a):
    _need(a.shape[0] == a.shape[1], 'diagonal of a non-square matrix')
    return np.diag(a).reshape(-1, 1).copy()


def _cputsl(g, k, x):
    k = int(k)
    _need(0 <= k < g.shape[1] and x.shape == (g.shape[0], g.shape[2]), 'slice store out of range / wrong shape')
    h = g.copy()
    h[:, k, :] = x
    return h


INTERP_EXT = {
    'dscale': _dscale, 'had': _had, 'lsq': _lsq, 'meq': _meq, 'invertible': _invertible, 'nonneg': lambda w: bool(np.all(w >= 0)),
    'rowg': _rowg, 'colg': _colg, 'krrows': _krrows, 'vecC': lambda x: x.reshape(-1, 1).copy(), 'unvecC': _unvecC, 'dg': _dg,
    'cputsl': _cputsl,
}
