"""Standard-model interpretations of the theory symbols added by ttvc/mx_misc.py (groups 'pprod', 'small')."""
import numpy as np


class _Undef(IndexError):
    pass


def _pprod(n, k):
    out = 1
    for j in range(int(k)):
        out *= int(n[j])
    return out


def _csl(g, j, a):
    j = int(j)
    if not (0 <= j < g.shape[1] and a.shape == (g.shape[0], g.shape[2])):
        raise _Undef('slice store out of the domain')
    h = g.copy()
    h[:, j, :] = a
    return h


INTERP_EXT = {
    'pprod': _pprod,
    'm12': lambda x, y: np.array([[float(x), float(y)]]),
    'm21': lambda x, y: np.array([[float(x)], [float(y)]]),
    'm22': lambda a, b, c, e: np.array([[float(a), float(b)], [float(c), float(e)]]),
    'csl': _csl,
}
