"""Standard-model interpretations of the theory symbols added by ttvc/mx_misc.py (groups 'pprod', 'small')."""
import numpy as np


class _Undef(IndexError):
    pass


def _pprod(n, k):
    out = 1
    for j in range(int(k)):
        out *= int(n[j])
    return out


def _csl(g, j, a):
    j = int(j)
    if not (0 <= j < g.shape[1] and a.shape == (g.shape[0], g.shape[2])):
        raise _Undef('slice store out of the domain')
    h = g.copy()
    h[:, j, :] = a
    return h


def _fcut(order):
    def f(v, lo, a, b, c):
        lo, a, b, c = int(lo), int(a), int(b), int(c)
        if lo < 0 or lo + a * b * c > 8:
            raise _Undef('block outside the sampled vector')
        return np.reshape(np.array([float(v[k]) for k in range(lo, lo + a * b * c)]), (a, b, c), order=order)
    return f


INTERP_EXT = {
    'cntle': lambda a, n, z: sum(1 for k in range(int(n)) if a[k] <= z),
    'ascp': lambda a, n: all(a[k] <= a[k + 1] for k in range(int(n) - 1)),
    'eyer': lambda a, b: np.eye(int(a), int(b)),
    'fcut': _fcut('F'), 'fcutC': _fcut('C'),
    'pprod': _pprod,
    'm12': lambda x, y: np.array([[float(x), float(y)]]),
    'm21': lambda x, y: np.array([[float(x)], [float(y)]]),
    'm22': lambda a, b, c, e: np.array([[float(a), float(b)], [float(c), float(e)]]),
    'csl': _csl,
}
