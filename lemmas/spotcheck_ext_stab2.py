"""Standard-model interpretation of the theory symbol used by ttvc/mx_stab2.py (loaded by lemmas/spotcheck.load_extensions).

maxabsM(a) = np.abs(a).max()  (the same symbol and the same interpretation as in spotcheck_ext_als.py; repeated here so that the
group 'stab2' does not depend on another extension being present)."""
import numpy as np

INTERP_EXT = {'maxabsM': lambda a: float(np.abs(a).max())}
