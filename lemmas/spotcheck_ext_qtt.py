"""Standard-model interpretations of the spec symbols of ttvc/mx_qtt.py (see lemmas/spotcheck.py)."""


def hval(a, k, q):
    """sum_{b=k}^{q-1} a[b] * 2^(b-k)"""
    return sum(int(a[b]) * 2 ** (b - int(k)) for b in range(int(k), int(q)))


INTERP_EXT = {'hval': hval}
