"""Standard-model interpretations of the theory symbols added by ttvc/mx_sel.py (loaded by lemmas/spotcheck.load_extensions).

Symbols: cntpos, cwit, scat0, bcnt, bwit (groups 'cntpos', 'scat0', 'bcnt').  Integer / boolean vectors are dicts over 0..NMAX (the
representation lemmas/spotcheck.py uses for z3 arrays).  The axioms of mx_sel mention native z3 array terms (store, constant array),
which the evaluator of lemmas/spotcheck.py does not know: `ev` of the running spot-check module is wrapped for these two operators
(everything else falls through to the original).  The generic sampler draws every integer array as the constant 0 and knows no boolean
arrays; for the axioms of mx_sel (and only for them) the sampler is replaced by one that draws random vectors (same wrapping pattern as
lemmas/spotcheck_ext_anova.py)."""
import sys
import numpy as np
import z3
from ttvc import theory as T
from ttvc import mx_sel as X

NMAX = 8


def _sc():
    return [m for n, m in list(sys.modules.items()) if n in ('__main__', 'lemmas.spotcheck') and hasattr(m, 'check_axiom') and hasattr(m, 'INTERP')]


def _undefined(what):
    for m in _sc():
        raise m.Undefined(what)
    raise ValueError(what)


class Arr(dict):
    """total array: a dict with a default"""
    def __init__(self, items, default=0):
        super().__init__(items)
        self.default = default

    def __missing__(self, k):
        return self.default


def _len(n, what):
    n = int(n)
    if not 0 <= n <= NMAX:
        _undefined(what)
    return n


def _cntpos(S, n):
    return sum(1 for x in range(_len(n, 'cntpos length')) if S[x] > 0)


def _cwit(S, n):
    for x in range(_len(n, 'cwit length')):
        if S[x] > 0:
            return x
    _undefined('no positive entry')


def _scat0(S, J, m):
    out = Arr(dict(S), getattr(S, 'default', 0))
    for x in range(_len(m, 'scat0 length')):
        out[int(J[x])] = 0
    return out


def _bcnt(b, n):
    return sum(1 for x in range(_len(n, 'bcnt length')) if b[x])


def _bwit(b, n):
    for x in range(_len(n, 'bwit length')):
        if b[x]:
            return x
    _undefined('no selected position')


INTERP_EXT = {'cntpos': _cntpos, 'cwit': _cwit, 'scat0': _scat0, 'bcnt': _bcnt, 'bwit': _bwit}

_MINE = ('cntpos', 'scat0', 'bcnt')


def _mine_ids():
    return {ax.get_id() for g in _MINE for ax in T.GROUPS[g]}


def _random(orig, sort, rng_):
    if sort == X.IA:
        return Arr({k: int(rng_.integers(-1, 3)) for k in range(NMAX + 1)}, 0)
    if sort == X.BA:
        return Arr({k: bool(rng_.integers(0, 2)) for k in range(NMAX + 1)}, False)
    if sort == z3.IntSort():
        return int(rng_.integers(0, 5))
    return orig(sort, rng_)


def _wrap_ev(mod):
    orig = mod.ev
    if getattr(orig, '_mx_sel', False):
        return

    def ev(t, env):
        if z3.is_app(t):
            k = t.decl().kind()
            if k == z3.Z3_OP_STORE:
                a, i, v = (mod.ev(c, env) for c in t.children())
                out = Arr(dict(a), getattr(a, 'default', 0))
                out[int(i)] = v
                return out
            if k == z3.Z3_OP_CONST_ARRAY:
                return Arr({}, mod.ev(t.children()[0], env))
        return orig(t, env)

    ev._mx_sel = True
    mod.ev = ev


def _wrap_check(mod):
    orig = mod.check_axiom
    if getattr(orig, '_mx_sel', False):
        return
    mine = _mine_ids()

    def check_axiom(ax, rng, tries=400):
        if ax.get_id() in mine:
            keep = mod.sample
            mod.sample = lambda sort, rng_: _random(keep, sort, rng_)
            try:
                return orig(ax, rng, tries * 5)
            finally:
                mod.sample = keep
        return orig(ax, rng, tries)

    check_axiom._mx_sel = True
    for a in ('_mx_anova',):
        if getattr(orig, a, False):
            setattr(check_axiom, a, True)
    mod.check_axiom = check_axiom


def _self_test(mod, seed=3):
    """every axiom of mx_sel must be exercised and true (raises otherwise)"""
    rng = np.random.default_rng(seed)
    saved = dict(mod.INTERP)
    mod.INTERP.update(INTERP_EXT)
    try:
        for g in _MINE:
            for n, ax in enumerate(T.GROUPS[g]):
                exercised, bad = mod.check_axiom(ax, rng)
                if bad is not None or exercised == 0:
                    raise AssertionError(f'mx_sel axiom {g}[{n}] {"falsified: " + str(bad) if bad is not None else "never exercised"}')
    finally:
        mod.INTERP.clear()
        mod.INTERP.update(saved)


for _m in _sc():
    _wrap_ev(_m)
    _wrap_check(_m)
    _self_test(_m)
