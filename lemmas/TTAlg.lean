/-
  Algebra axioms of ttvc/theory.py (groups 'block', 'kron', 'smul' and the hints used by the sidecar contracts),
  proved from Mathlib over real matrices.  Correspondence SMT symbol <-> Mathlib definition:
    mm A B = A * B        hcat A B = fromCols A B     vcat A B = fromRows A B     madd A B = A + B
    smul c A = c • A      kron A B = A ⊗ₖ B           tr A = Aᵀ                   zeros = 0
  (this correspondence is by inspection and is part of the trusted base, DESIGN.md section 5).
-/
import Mathlib.Data.Matrix.ColumnRowPartitioned
import Mathlib.LinearAlgebra.Matrix.Kronecker
import Mathlib.Data.Real.Basic
open Matrix
open scoped Kronecker
set_option linter.unusedSectionVars false
variable {m n p q r s : Type*} [Fintype m] [Fintype n] [Fintype p] [Fintype q] [Fintype r] [Fintype s]

-- block: [a b] [A; B] = a A + b B
theorem ax_blk (a : Matrix r m ℝ) (b : Matrix r n ℝ) (A : Matrix m p ℝ) (B : Matrix n p ℝ) :
    fromCols a b * fromRows A B = a * A + b * B := fromCols_mul_fromRows a b A B
-- block: a [A B] = [a A, a B]
theorem ax_mul_hcat (a : Matrix r m ℝ) (A : Matrix m p ℝ) (B : Matrix m q ℝ) :
    a * fromCols A B = fromCols (a * A) (a * B) := mul_fromCols a A B
-- block: row / column interchange of a 2 x 2 block matrix
theorem ax_interchange (A : Matrix m p ℝ) (B : Matrix m q ℝ) (C : Matrix n p ℝ) (D : Matrix n q ℝ) :
    fromRows (fromCols A B) (fromCols C D) = fromCols (fromRows A C) (fromRows B D) := by
  ext i j; cases i <;> cases j <;> simp
-- block: zero laws
theorem ax_mul_zero (a : Matrix r m ℝ) : a * (0 : Matrix m p ℝ) = 0 := Matrix.mul_zero a
theorem ax_add_zero (A : Matrix m n ℝ) : A + 0 = A ∧ 0 + A = A := ⟨add_zero A, zero_add A⟩
-- kron: mixed product
theorem ax_kron (A : Matrix m n ℝ) (B : Matrix n p ℝ) (C : Matrix q r ℝ) (D : Matrix r s ℝ) :
    (A ⊗ₖ C) * (B ⊗ₖ D) = (A * B) ⊗ₖ (C * D) := (mul_kronecker_mul A B C D).symm
-- hints: associativity, transpose of a product
theorem ax_assoc (A : Matrix m n ℝ) (B : Matrix n p ℝ) (C : Matrix p q ℝ) : A * B * C = A * (B * C) := Matrix.mul_assoc A B C
theorem ax_T (A : Matrix m n ℝ) (B : Matrix n p ℝ) : (A * B)ᵀ = Bᵀ * Aᵀ := transpose_mul A B
theorem ax_vcat_mul (A : Matrix m p ℝ) (B : Matrix n p ℝ) (c : Matrix p q ℝ) :
    fromRows A B * c = fromRows (A * c) (B * c) := fromRows_mul A B c
-- smul: scalar multiples commute with products
theorem ax_smul_mul (c : ℝ) (A : Matrix m n ℝ) (B : Matrix n p ℝ) : (c • A) * B = c • (A * B) := Matrix.smul_mul c A B
theorem ax_mul_smul (c : ℝ) (A : Matrix m n ℝ) (B : Matrix n p ℝ) : A * (c • B) = c • (A * B) := Matrix.mul_smul A c B
theorem ax_one_smul (A : Matrix m n ℝ) : (1 : ℝ) • A = A := one_smul ℝ A
theorem ax_smul_smul (c d : ℝ) (A : Matrix m n ℝ) : c • (d • A) = (c * d) • A := smul_smul c d A
-- elem: a 1 x 1 matrix acts as a scalar
theorem ax_one_by_one (a : Matrix (Fin 1) (Fin 1) ℝ) (B : Matrix (Fin 1) n ℝ) : a * B = (a 0 0) • B := by
  ext i j; fin_cases i; simp [Matrix.mul_apply]
-- real product: left commutativity (hint of contracts/tensors.py)
theorem ax_left_comm (a s b : ℝ) : a * (s * b) = s * (a * b) := mul_left_comm a s b
-- L-SHR (contracts/utils.py): 2^k * (x / 2^k) <= x < 2^k * (x / 2^k) + 2^k over the naturals
theorem ax_shr (x k : ℕ) : 2 ^ k * (x / 2 ^ k) ≤ x ∧ x < 2 ^ k * (x / 2 ^ k) + 2 ^ k := by
  constructor
  · exact Nat.mul_div_le x (2 ^ k)
  · have h : 0 < 2 ^ k := Nat.pos_of_ne_zero (by positivity)
    have := Nat.lt_div_mul_add h (a := x)
    rw [Nat.mul_comm] at this
    exact this
