"""Standard-model interpretations of the theory symbols added by ttvc/mx_rest_af.py (groups 'rest_af_mv', 'rest_af_hsum', 'rest_af_chebmat').
rest_af_mv is interpreted by NumPy's own `A @ v`, rest_af_mvsum / rest_af_hsum by plain Python sums: the defining sum of the model-table entry
"2-D @ 1-D" is thereby compared with the library on every run.  Vectors are dicts 0..8 (the sampler of lemmas/spotcheck.py); the list of vectors
(sort Array(Int, Array(Int, Real))) is sampled by the wrapper that lemmas/spotcheck_ext_anova.py installs.  Instances outside the domain of an
operation raise IndexError (= undefined).  rest_af_lsqv / rest_af_cvec / rest_af_clen occur in no axiom and need no interpretation."""
import numpy as np


class _af_Undef(IndexError):
    pass


def _af_need(ok, what):
    if not ok:
        raise _af_Undef(what)


def _af_mv(A, v):
    _af_need(A.shape[1] <= 8, 'vector length')
    out = A @ np.array([float(v[t]) for t in range(A.shape[1])])
    return {i: (float(out[i]) if i < A.shape[0] else 0.0) for i in range(9)}


def _af_mvsum(A, v, i, k):
    i, k = int(i), int(k)
    _af_need(0 <= i < A.shape[0] and 0 <= k <= A.shape[1], 'partial row sum out of range')
    return float(sum(A[i, t] * float(v[t]) for t in range(k)))


def _af_hsum(S, k):
    k = int(k)
    _af_need(0 <= k <= 8, 'hsum length')
    return float(sum(S[t][0] for t in range(k)))


def _af_cheb(k, x):
    t0, t1 = 1.0, float(x)
    if k == 0:
        return t0
    for _ in range(k - 1):
        t0, t1 = t1, 2 * float(x) * t1 - t0
    return t1


def _af_chebmat(x, L, m):
    L, m = int(L), int(m)
    _af_need(0 <= L <= 8 and 0 <= m <= 8, 'basis matrix size')
    return np.array([[_af_cheb(i, x[j]) for j in range(L)] for i in range(m)], dtype=float).reshape(m, L)


INTERP_EXT = {'rest_af_chebmat': _af_chebmat, 'rest_af_mv': _af_mv, 'rest_af_mvsum': _af_mvsum, 'rest_af_hsum': _af_hsum}
