"""Standard-model interpretations of the theory symbols added by ttvc/mx_anova.py (loaded by lemmas/spotcheck.load_extensions).

Symbols: dotp, asum, ccnt, csum, rsum, cmean, rmean.  `sample` of the running spot-check module is wrapped for the one sort it may
not know (a list of real tables, Array(Int, Array(Int, Real)); the same wrapping pattern as lemmas/spotcheck_ext_act.py).
The generic sampler draws every integer array as the constant 0, which exercises the recursive definitions of asum / ccnt / csum only
along one branch; `_self_test` (run at load time) therefore evaluates the groups of mx_anova once more with random index vectors /
sample columns and raises if an axiom is falsified or never exercised."""
import sys
import numpy as np
import z3
from ttvc import theory as T
from ttvc import mx_anova as X

NMAX = 8


def _sc():
    return [m for n, m in list(sys.modules.items()) if n in ('__main__', 'lemmas.spotcheck') and hasattr(m, 'check_axiom') and hasattr(m, 'INTERP')]


def _undefined(what):
    for m in _sc():
        raise m.Undefined(what)
    raise ValueError(what)


def _dotp(A, i, Bm, j, c):
    i, j, c = int(i), int(j), int(c)
    if not (0 <= c <= A.shape[1] and c <= Bm.shape[0] and 0 <= i < A.shape[0] and 0 <= j < Bm.shape[1]):
        _undefined('dotp out of range')
    return float(sum(A[i, t] * Bm[t, j] for t in range(c)))


def _rng(k, what):
    k = int(k)
    if not 0 <= k <= NMAX:
        _undefined(what)
    return k


def _asum(F, ix, k):
    return float(sum(F[t][int(ix[t])] for t in range(_rng(k, 'asum length'))))


def _ccnt(c, x, n):
    return sum(1 for s in range(_rng(n, 'ccnt length')) if int(c[s]) == int(x))


def _csum(y, c, x, n):
    return float(sum(y[s] for s in range(_rng(n, 'csum length')) if int(c[s]) == int(x)))


def _p2in(W, ix, i1, m):
    i1, m = int(i1), _rng(m, 'p2in bound')
    if not 0 <= i1 <= NMAX:
        _undefined('p2in mode')
    return float(sum(W[i1][i2][int(ix[i1])][int(ix[i2])] for i2 in range(i1 + 1, m)))


def _p2out(W, ix, n, m):
    n, m = _rng(n, 'p2out length'), _rng(m, 'p2out bound')
    return float(sum(_p2in(W, ix, i1, n) for i1 in range(m)))


def _dterm(i, q, v):
    return float(v) * (1 + int(i) + 3 * int(q)) + int(q)        # any fixed function will do: the theory leaves dterm uninterpreted


def _fsum_in(C, i, q):
    i = int(i)
    if not 0 <= i <= NMAX:
        _undefined('fsum_in mode')
    return float(sum(_dterm(i, t + 1, C[i][t]) for t in range(_rng(q, 'fsum_in length'))))


def _fsum_out(C, L, k):
    return float(sum(_fsum_in(C, i, L[i]) for i in range(_rng(k, 'fsum_out length'))))


def _uniq(c, n):
    return sorted(set(int(c[s]) for s in range(_rng(n, 'unique length'))))


def _unq(c, n):
    u = _uniq(c, n)
    return {k: (u[k] if k < len(u) else (u[-1] if u else 0) + 1 + k) for k in range(NMAX + 2)}


def _upos(c, n, s):
    n, s = _rng(n, 'unique length'), int(s)
    if not 0 <= s < n:
        _undefined('upos out of range')
    return _uniq(c, n).index(int(c[s]))


def _rsum(y, n):
    return float(sum(y[s] for s in range(_rng(n, 'rsum length'))))


def _cmean(y, c, x, n):
    k = _ccnt(c, x, n)
    if k == 0:
        _undefined('mean of an empty selection')
    return _csum(y, c, x, n) / k


def _rmean(y, n):
    if _rng(n, 'rmean length') == 0:
        _undefined('mean of an empty array')
    return _rsum(y, n) / int(n)


INTERP_EXT = {'dotp': _dotp, 'asum': _asum, 'ccnt': _ccnt, 'csum': _csum, 'rsum': _rsum, 'cmean': _cmean, 'rmean': _rmean,
              'p2in': _p2in, 'p2out': _p2out, 'dterm': _dterm, 'dzero': lambda v: 2 * float(v) + 1, 'fsum_in': _fsum_in, 'fsum_out': _fsum_out,
              'unq': _unq, 'unqlen': lambda c, n: len(_uniq(c, n)), 'upos': _upos}


def _wrap_sample(mod):
    orig = mod.sample
    if getattr(orig, '_mx_anova', False):
        return

    def sample(sort, rng):
        if sort == X.RAA:
            return {k: {m: float(rng.integers(-3, 4)) for m in range(NMAX + 1)} for k in range(NMAX + 1)}
        if sort == X.RAAAA:
            tab = lambda: {a: {b: float(rng.integers(-3, 4)) for b in range(3)} for a in range(3)}
            return {k: {m: tab() for m in range(NMAX + 1)} for k in range(NMAX + 1)}
        return orig(sort, rng)

    sample._mx_anova = True
    for a in ('_mx_act',):
        if getattr(orig, a, False):
            setattr(sample, a, True)
    mod.sample = sample


def _wrap_check(mod):
    """The step axiom of dotp needs c + 1 <= cols(A), rows(B) and both entries in range (that of p2in: i < m = j - 1): about one random
    instance in a hundred is inside the domain, so these axioms get ten times the number of tries (a falsifying instance would still be reported)."""
    orig = mod.check_axiom
    if getattr(orig, '_mx_anova', False):
        return
    rare = {T.GROUPS['dotp'][1].get_id(), T.GROUPS['psum2'][1].get_id()}

    varied = {T.GROUPS['unique'][1].get_id()}          # sortedness of np.unique: needs integer vectors with different entries

    def check_axiom(ax, rng, tries=400):
        if ax.get_id() in varied:
            keep = mod.sample
            mod.sample = lambda sort, rng_: _random_ints(keep, sort, rng_)
            try:
                return orig(ax, rng, tries * 10)
            finally:
                mod.sample = keep
        return orig(ax, rng, tries * 10 if ax.get_id() in rare else tries)

    check_axiom._mx_anova = True
    mod.check_axiom = check_axiom


def _random_ints(orig, sort, rng_):
    if sort == X.IA:
        return {k: int(rng_.integers(0, 3)) for k in range(NMAX + 1)}
    if sort == X.RA:
        return {k: float(rng_.integers(-3, 4)) for k in range(NMAX + 1)}
    return orig(sort, rng_)


def _self_test(mod, seed=1):
    """The groups of mx_anova with random (not constant) integer arrays."""
    rng = np.random.default_rng(seed)
    orig = mod.sample

    sample = lambda sort, rng_: _random_ints(orig, sort, rng_)
    saved = dict(mod.INTERP)
    mod.INTERP.update(INTERP_EXT)
    mod.sample = sample
    try:
        for g in ('dotp', 'slent', 'asum', 'csum', 'cmean', 'psum2', 'fsum', 'unique'):
            for n, ax in enumerate(T.GROUPS[g]):
                exercised, bad = mod.check_axiom(ax, rng)
                if bad is not None or exercised == 0:
                    raise AssertionError(f'mx_anova axiom {g}[{n}] {"falsified: " + str(bad) if bad is not None else "never exercised"}')
    finally:
        mod.sample = orig
        mod.INTERP.clear()
        mod.INTERP.update(saved)


for _m in _sc():
    _wrap_sample(_m)
    _wrap_check(_m)
    _self_test(_m)
