"""Standard-model interpretations of the theory symbols added by ttvc/mx_core.py (loaded by lemmas/spotcheck.load_extensions).

Symbols: lch, rch (partial products of a sequence of matrices), cnorm (Frobenius norm of a matrix), and the integer-sequence
symbols of the interleaving permutations (see mx_core).  The axioms quantify over one sort that lemmas/spotcheck.sample does not know
(a sequence of matrices, Array(Int, Mat)); `sample` of the running spot-check module is wrapped (unknown sorts fall through)."""
import sys
import numpy as np
import z3
from ttvc import theory as T
from ttvc import mx_core as X


def _sc():
    """The spot-check module that is running (either `__main__` or lemmas.spotcheck)."""
    return [m for n, m in list(sys.modules.items()) if n in ('__main__', 'lemmas.spotcheck') and hasattr(m, 'check_axiom') and hasattr(m, 'INTERP')]


def _undefined(what):
    for m in _sc():
        raise m.Undefined(what)
    raise ValueError(what)


def _mm(a, b):
    if a.shape[1] != b.shape[0]:
        _undefined('product of matrices whose inner dimensions differ')
    return a @ b


def _lch(Ms, m):
    m = int(m)
    if not 0 <= m <= 8:
        _undefined('lch length')
    out = np.array([[1.0]])
    for t in range(m):
        out = _mm(out, Ms[t])
    return out


def _rch(Ms, k, d):
    k, d = int(k), int(d)
    if not 0 <= k <= d <= 8:
        _undefined('rch range')
    out = np.array([[1.0]])
    for t in range(d - 1, k - 1, -1):
        out = _mm(Ms[t], out)
    return out


def _cslput(g, k, a):
    k = int(k)
    if not (0 <= k < g.shape[1] and a.shape == (g.shape[0], g.shape[2])):
        _undefined('slice assignment out of range / of a different shape')
    h = g.copy()
    h[:, k, :] = a
    return h


def _nonsing(a):
    return bool(a.shape[0] == a.shape[1] and abs(np.linalg.det(a)) > 1e-9)


INTERP_EXT = {'nonsing': _nonsing, 'lch': _lch, 'rch': _rch, 'cnorm': lambda a: float(np.linalg.norm(a)), 'cslput': _cslput}


def _wrap_sample(mod):
    orig = mod.sample
    if getattr(orig, '_mx_core', False):
        return

    def sample(sort, rng):
        if sort == X.MS:
            # a chain of matrices whose inner dimensions fit, starting with one row (r_0 = 1)
            r = [1] + [int(rng.integers(1, 3)) for _ in range(8)]
            return {k: rng.integers(-3, 4, size=(r[k], r[k + 1])).astype(float) for k in range(8)}
        return orig(sort, rng)

    sample._mx_core = True
    mod.sample = sample


for _m in _sc():
    _wrap_sample(_m)
