"""Property C08: which T1 units and which bounded suite make up the check (see DESIGN.md section 3)."""
import os
ID = 'C08'
LEVEL = 'other'
T1 = []            # verification units of ttvc / frames (filled in as contracts are written)
T1_MIN = 0         # declared minimum number of obligations (vacuity guard)
T3 = os.path.exists(os.path.join(os.path.dirname(__file__), '..', 'rtc', 'suites', 'C08.py'))
LEMMAS = []
NOT_ATTEMPTED = []
EXPLANATION = 'under construction'
