"""T1-only re-evaluation of the seeded changes (no /repo involved): every seeded/<id>/patch.diff is applied to a scratch copy of
/repo/teneva, the T1 units of its property are run against the copy (VERIF_REPO) and the obligations that are no longer discharged
are recorded in seeded/<id>/meta.json under 't1_recheck'.  usage: tools/t1_detect.py [id-substring]"""
import json, os, shutil, subprocess, sys, tempfile, time
ROOT = os.path.dirname(os.path.dirname(os.path.abspath(__file__)))
flt = sys.argv[1] if len(sys.argv) > 1 else ''
code = r'''
import sys, json, multiprocessing as mp
sys.path[:0] = [%r, %r]
import importlib
from ttvc import units
units.load_all()
P = importlib.import_module('props.' + sys.argv[1])
def run(name):
    try:
        return [(o.id, o.status) for o in units.run(name, 'quick') if o.kind not in ('meta', 'canary', 'cover') and o.status not in ('proved', 'ok')]
    except Exception as e:
        return [(name + '.<unit>', 'undecided: ' + type(e).__name__)]
with mp.get_context('fork').Pool(12) as p:
    res = p.map(run, [u for u in P.T1 if u != 'lemmas.spotcheck'])
print(json.dumps([x for r in res for x in r]))
''' % (ROOT, os.path.join(ROOT, '.deps'))
for d in sorted(os.listdir(os.path.join(ROOT, 'seeded'))):
    if flt not in d:
        continue
    mp_ = os.path.join(ROOT, 'seeded', d, 'meta.json')
    meta = json.load(open(mp_))
    prop = meta['property']
    scr = tempfile.mkdtemp(prefix='t1det_')
    try:
        shutil.copytree('/repo/teneva', scr + '/teneva')
        r = subprocess.run(['patch', '-p1', '-s', '-i', os.path.join(ROOT, 'seeded', d, 'patch.diff')], cwd=scr, capture_output=True, text=True)
        if r.returncode != 0:
            print(d, 'patch does not apply to the current tree', flush=True)
            meta['t1_recheck'] = {'error': 'patch does not apply to the current tree'}
        else:
            t0 = time.time()
            out = subprocess.run(['/venv/bin/python', '-c', code, prop], capture_output=True, text=True, env=dict(os.environ, VERIF_REPO=scr), timeout=3600)
            try:
                res = json.loads(out.stdout.strip().splitlines()[-1])
            except Exception:
                res = [('<runner>', 'error ' + out.stderr[-300:])]
            failed = sorted({i for i, s in res if s in ('failed', 'refuted')})
            und = sorted({i for i, s in res if s not in ('failed', 'refuted')})
            meta['t1_recheck'] = {'at': time.strftime('%Y-%m-%dT%H:%M:%SZ', time.gmtime()), 'failed_or_refuted': failed, 'undecided': und[:20],
                                  'seconds': round(time.time() - t0, 1)}
            print(d, 'T1:', len(failed), 'failed/refuted,', len(und), 'undecided', failed[:3], flush=True)
        json.dump(meta, open(mp_, 'w'), indent=1)
    finally:
        shutil.rmtree(scr, ignore_errors=True)
