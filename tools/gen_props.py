"""Writes props/Cxx.py from the table below (single place to edit which units make up a property)."""
import os, textwrap
ROOT = os.path.dirname(os.path.dirname(os.path.abspath(__file__)))

TABLE = {}
def P(pid, level, t1, t1_min, lemmas, expl, note, technique, not_attempted=()):
    TABLE[pid] = dict(level=level, t1=t1, t1_min=t1_min, lemmas=lemmas, expl=expl, note=note, technique=technique,
                      not_attempted=list(not_attempted))

exec(open(os.path.join(ROOT, 'tools', 'props_table.py')).read())

import sys
sys.path[:0] = [ROOT, os.path.join(ROOT, '.deps')]
from ttvc import units as _U
_U.load_all()
_COUNT = {}
_LOSSY = {}
_CALLEES = {}       # unit -> teneva functions it enters through their contract ('module.function')
_FUNCS = {}         # unit -> teneva functions whose source it executes ('module.function')
import json as _json, re as _re
import multiprocessing as _mp


def _run_one(u):
    try:
        obs = _U.run(u, 'quick')
    except Exception as ex:                       # an unfinished unit is reported by the check itself
        return u, 0, [], [], [], repr(ex)[:200]
    meta = [_json.loads(o.detail) for o in obs if o.kind == 'meta']
    cnt = len([o for o in obs if o.kind not in ('meta', 'canary', 'cover')])
    lossy = sorted({x for m in meta for x in m['models_used'] if 'opaque' in x})
    callees = sorted({x for m in meta for x in m.get('callees_used', [])})
    funcs = sorted({_re.sub(r'^teneva/(\w+)\.py:', r'\1.', f['function']) for m in meta for f in m['functions'] if 'function' in f})
    return u, cnt, lossy, callees, funcs, ''


_names = [u for u in _U.UNITS if not u.startswith('frames.')]
with _mp.get_context('fork').Pool(int(os.environ.get('GEN_PROPS_WORKERS', '12'))) as _pool:
    for u, cnt, lossy, callees, funcs, err in _pool.map(_run_one, _names, chunksize=1):
        _COUNT[u], _LOSSY[u], _CALLEES[u], _FUNCS[u] = cnt, lossy, callees, funcs
        if err:
            print('unit', u, 'did not run:', err)
_UNITS_OF = {}
for u, fs in _FUNCS.items():
    for f in fs:
        _UNITS_OF.setdefault(f, []).append(u)

for pid, e in TABLE.items():
    missing = [u for u in e['t1'] if u not in _U.UNITS]
    e['t1'] = [u for u in e['t1'] if u in _U.UNITS]
    # units that declare the property in their @unit(..., props=...) tag are part of it even when the table does not list them
    e['t1'] += [u for u, (_, props) in _U.UNITS.items() if pid in props and u not in e['t1']]
    # Modular verification: a unit ASSUMES the contract of every teneva function it calls (call-site handlers in contracts/*.py,
    # recorded per unit as `callees_used`).  The proof of the property is only as good as those contracts, so the units that discharge
    # them against the callee's own source belong to the same check, transitively: a change inside a callee that breaks the contract
    # this property's proof rests on fails a named obligation of THIS check.  Exception: the frame properties C09 / C10 are decided
    # by `frames` (aliasing / effects / state); the value contracts of callees say nothing about them, so nothing is pulled in there.
    direct = list(e['t1'])
    if pid not in ('C09', 'C10'):
        todo = list(direct)
        while todo:
            u = todo.pop()
            for f in _CALLEES.get(u, []):
                for v in _UNITS_OF.get(f, []):
                    if v not in e['t1']:
                        e['t1'].append(v)
                        todo.append(v)
    e['t1_via_callees'] = [u for u in e['t1'] if u not in direct]
    funcs_here = {f for u in e['t1'] for f in _FUNCS.get(u, [])}
    called = {f for u in e['t1'] for f in _CALLEES.get(u, [])}
    # callee contracts that are assumed by this check and discharged by no unit of this check (none exists, or C09 / C10)
    e['t1_callees_elsewhere'] = {f: sorted(_UNITS_OF.get(f, []))[:4] for f in sorted(called - funcs_here)}
    e['not_attempted'] += ['planned unit not implemented yet: ' + u for u in missing]
    # vacuity guard: declared minimum = 70% of the obligations generated on the tree the table was written for
    for u in e['t1']:
        if u not in _COUNT:       # frames pseudo-units
            _obs = _U.run(u, 'quick')
            _COUNT[u] = len([o for o in _obs if o.kind not in ('meta', 'canary', 'cover')])
            _LOSSY[u] = []
    n = sum(_COUNT[u] for u in e['t1'])
    e['t1_min'] = int(0.7 * n)
    e['t1_counts'] = {u: _COUNT[u] for u in e['t1']}
    e['t1_lossy'] = {u: _LOSSY[u] for u in e['t1'] if _LOSSY.get(u)}
    print(pid, len(direct), 'units by tag +', len(e['t1_via_callees']), 'through callee contracts;', n, 'obligations; callee contracts not discharged in this check:', sorted(e['t1_callees_elsewhere']))
    if not e['t1']:
        e['t1_min'] = 0
        e['expl'] = 'BOUNDED ONLY AT PRESENT (no T1 unit implemented yet for this property; planned: ' + ', '.join(missing) + '). ' + e['expl']


for pid, e in TABLE.items():
    with open(os.path.join(ROOT, 'props', pid + '.py'), 'w') as fh:
        fh.write(f'"""Property {pid}: which T1 units and which bounded suite make up the check (generated by tools/gen_props.py '
                 f'from tools/props_table.py; see DESIGN.md section 3)."""\nimport os\n')
        fh.write(f'ID = {pid!r}\nLEVEL = {e["level"]!r}\nT1 = {e["t1"]!r}\nT1_MIN = {e["t1_min"]!r}\nT1_COUNTS = {e.get("t1_counts", {})!r}\nT1_LOSSY = {e.get("t1_lossy", {})!r}\nT1_VIA_CALLEES = {e.get("t1_via_callees", [])!r}\nT1_CALLEES_ELSEWHERE = {e.get("t1_callees_elsewhere", {})!r}\n')
        fh.write(f"T3 = os.path.exists(os.path.join(os.path.dirname(__file__), '..', 'rtc', 'suites', '{pid}.py'))\n")
        fh.write(f'LEMMAS = {e["lemmas"]!r}\nNOT_ATTEMPTED = {e["not_attempted"]!r}\n')
        fh.write(f'EXPLANATION = {e["expl"]!r}\nNOTE = {e["note"]!r}\nTECHNIQUE = {e["technique"]!r}\n')
print('wrote', len(TABLE), 'props files')
