"""Proof-stability test: run every T1 unit with several z3 random seeds; every obligation must be discharged each time.
An obligation that is proved with one seed and not with another is a brittle proof (future false alarm) and must be
repaired with hints.  Usage: tools/stability.py [nseeds] [unit-name-substring]"""
import os, subprocess, sys, json
ROOT = os.path.dirname(os.path.dirname(os.path.abspath(__file__)))
n = int(sys.argv[1]) if len(sys.argv) > 1 else 5
flt = sys.argv[2] if len(sys.argv) > 2 else ''
code = r'''
import sys, json, multiprocessing as mp
sys.path[:0] = [%r, %r]
from ttvc import units
units.load_all()
def run(name):
    try:
        return [(o.id, o.status) for o in units.run(name, 'quick') if o.kind != 'meta' and o.status not in ('proved', 'ok')]
    except Exception as e:
        return [(name, 'EXC ' + repr(e)[:200])]
with mp.get_context('fork').Pool(16) as p:
    res = p.map(run, [u for u in units.UNITS if %r in u])
print(json.dumps([x for r in res for x in r]))
''' % (ROOT, os.path.join(ROOT, '.deps'), flt)
bad = {}
for seed in range(1, n + 1):
    env = dict(os.environ, TTVC_Z3_SEED=str(seed * 7919))
    out = subprocess.run(['/venv/bin/python', '-c', code], capture_output=True, text=True, env=env)
    try:
        fails = json.loads(out.stdout.strip().splitlines()[-1])
    except Exception:
        print('seed', seed, 'crashed', out.stderr[-500:])
        continue
    print('seed', seed, 'not discharged:', fails)
    for f in fails:
        bad.setdefault(f[0], []).append(seed)
print('BRITTLE:' if bad else 'all obligations discharged with every seed', json.dumps(bad, indent=1) if bad else '')
sys.exit(1 if bad else 0)
