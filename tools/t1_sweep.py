"""T1-only sweep: every patch under refactorings/ or seeded/ is applied to a scratch copy of /repo/teneva (HEAD must be clean) and ALL
ttvc units (not only those of the patch's property) are run against the copy with the decision rules of vf/main.py (info-loss
baseline, model restrictions).  For a behaviour-preserving refactoring every `failed` / `refuted` obligation of ANY unit is a false
alarm of the deductive tier; for a seeded change the list shows which properties' checks would name a failing obligation.
usage: tools/t1_sweep.py refactorings|seeded [id-substring]      result -> <dir>/<id>/meta.json under 't1_sweep'"""
import importlib, json, os, shutil, subprocess, sys, tempfile, time, types
ROOT = os.path.dirname(os.path.dirname(os.path.abspath(__file__)))
kind = sys.argv[1]
flt = sys.argv[2] if len(sys.argv) > 2 else ''

child = r'''
import sys, json, importlib, types, os
sys.path[:0] = [%r, %r]
os.chdir(%r)
from vf import main as M
from ttvc import units
units.load_all()
props = {}
lossy, where = {}, {}
for i in range(1, 21):
    pid = 'C%%02d' %% i
    P = importlib.import_module('props.' + pid)
    for u in P.T1:
        where.setdefault(u, []).append(pid)
    lossy.update(getattr(P, 'T1_LOSSY', {}))
allu = [u for u in units.UNITS if not u.startswith('frames.') and u != 'lemmas.spotcheck']
P = types.SimpleNamespace(T1=allu, T1_LOSSY=lossy)
obs, meta = M.run_t1('ALL', P, 'quick')
bad = [(o.id, o.status, o.func, where.get(o.func, [])) for o in obs if o.kind not in ('canary', 'cover') and o.status not in ('proved', 'ok')]
print('RESULT ' + json.dumps(bad))
''' % (ROOT, os.path.join(ROOT, '.deps'), ROOT)

base = os.path.join(ROOT, kind)
for d in sorted(os.listdir(base)):
    if flt not in d or not os.path.exists(os.path.join(base, d, 'patch.diff')):
        continue
    mp_ = os.path.join(base, d, 'meta.json')
    meta = json.load(open(mp_))
    scr = tempfile.mkdtemp(prefix='t1sw_')
    try:
        subprocess.run(f'git -C /repo archive HEAD teneva | tar -x -C {scr}', shell=True, check=True)
        p = subprocess.run(['patch', '-p1', '-s', '-d', scr, '-i', os.path.join(base, d, 'patch.diff')], capture_output=True, text=True)
        if p.returncode != 0:
            rec = {'error': 'patch does not apply to HEAD: ' + (p.stdout + p.stderr)[-200:]}
        else:
            t0 = time.time()
            env = dict(os.environ, VERIF_REPO=scr, PYTHONWARNINGS='ignore', PYTHONDONTWRITEBYTECODE='1')
            r = subprocess.run(['/venv/bin/python', '-B', '-c', child], capture_output=True, text=True, env=env, timeout=3600)
            line = next((l for l in r.stdout.splitlines() if l.startswith('RESULT ')), None)
            if line is None:
                rec = {'error': (r.stdout + r.stderr)[-400:]}
            else:
                bad = json.loads(line[7:])
                fr = [b for b in bad if b[1] in ('failed', 'refuted')]
                rec = {'at': time.strftime('%Y-%m-%dT%H:%M:%SZ', time.gmtime()), 'seconds': round(time.time() - t0, 1),
                       'failed_or_refuted': sorted({b[0] for b in fr}),
                       'properties_whose_check_names_a_failing_obligation': sorted({p_ for b in fr for p_ in b[3]}),
                       'undecided_units_or_obligations': len([b for b in bad if b[1] not in ('failed', 'refuted')])}
        meta['t1_sweep'] = rec
        json.dump(meta, open(mp_, 'w'), indent=1)
        print(d, '|', rec.get('error') or f"{len(rec['failed_or_refuted'])} failed/refuted in {rec['properties_whose_check_names_a_failing_obligation']}; "
              f"{rec['undecided_units_or_obligations']} undecided; {rec['seconds']}s", '|', '; '.join(rec.get('failed_or_refuted', [])[:4])[:300], flush=True)
    finally:
        shutil.rmtree(scr, ignore_errors=True)
