import sys, time
sys.path[:0]=['/verif','/verif/.deps']
from ttvc import units
units.load_all()
import multiprocessing as mp
def run(name):
    t=time.time()
    try:
        obs=units.run(name,'quick')
        bad=[o for o in obs if o.status not in ('proved','ok')]
        return name, len([o for o in obs if o.kind not in ('meta','canary','cover')]), [(o.id,o.status,o.detail[:150]) for o in bad], time.time()-t
    except Exception as e:
        return name, 0, [('EXC',repr(e)[:300],'')], time.time()-t
names=[n for n in units.UNITS if not n.startswith('frames.')]
with mp.get_context('fork').Pool(16) as p:
    res=p.map(run,names)
tot=0
for name,n,bad,t in res:
    tot+=n
    print(f'{name:50s} {n:4d} obligations {t:5.1f}s', 'OK' if not bad else bad)
print('total',tot)
