"""Writes contracts/public_api.json: the parameter list (name, default expression) of every top-level function of teneva/*.py on the
CURRENT tree of /repo (run on the unchanged tree; the table is the documented call interface that callers use positionally).
The units `api.<module>` (contracts/public_api.py) compare the current source with it."""
import ast, json, os, sys
ROOT = os.path.dirname(os.path.dirname(os.path.abspath(__file__)))
src = os.path.join(os.environ.get('VERIF_REPO', '/repo'), 'teneva')
tab = {}
for fn in sorted(os.listdir(src)):
    if not fn.endswith('.py') or fn == '__init__.py':
        continue
    tree = ast.parse(open(os.path.join(src, fn)).read())
    mod = {}
    for node in tree.body:
        defs = [('', node)] if isinstance(node, ast.FunctionDef) else \
            [(node.name + '.', n) for n in node.body if isinstance(n, ast.FunctionDef)] if isinstance(node, ast.ClassDef) else []
        for pre, f in defs:
            a = f.args
            ps = [p.arg for p in a.posonlyargs + a.args]
            nd = len(a.defaults)
            dfl = [None] * (len(ps) - nd) + [ast.unparse(d) for d in a.defaults]
            mod[pre + f.name] = [[p, d] for p, d in zip(ps, dfl)]
    tab[fn[:-3]] = mod
json.dump(tab, open(os.path.join(ROOT, 'contracts', 'public_api.json'), 'w'), indent=1, sort_keys=True)
print('wrote', sum(len(v) for v in tab.values()), 'signatures of', len(tab), 'modules')
