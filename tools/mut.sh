#!/bin/bash
# usage: tools/mut.sh <file under teneva/> <sed-expr> <unit> [<unit> ...]
# Copies /repo/teneva to a scratch directory, applies the sed expression to one file and runs the named T1 units against the copy
# (VERIF_REPO).  Prints the diff and every obligation that is not proved.  A sound unit must report the mutant.
S=${MUT_SCRATCH:-/tmp/mut_$$}
rm -rf "$S" && mkdir -p "$S" && cp -r ${MUT_BASE:-/repo}/teneva "$S"/
f=$1; e=$2; shift 2
sed -i "$e" "$S"/teneva/$f
diff ${MUT_BASE:-/repo}/teneva/$f "$S"/teneva/$f | head -8
VERIF_REPO="$S" /venv/bin/python "$(dirname "$0")"/t1run.py "$@" 2>&1 | grep -v "^proved\|^ok " | cut -c1-330
rm -rf "$S"
