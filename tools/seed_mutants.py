"""Verify seeded property-breaking changes produced by independent sub-agents and record which checks catch them.
usage: tools/seed_mutants.py /tmp/mut_out/C03/1 [...]      (one directory per change: patch.diff demo.py meta.json)
For each: demo on clean /repo must exit 0, with the patch exit != 0, baseline pytest must still give 57 passed, then
`./check <prop> quick` is run with the patch applied; /repo is restored afterwards.  Result -> /verif/seeded/<id>/."""
import json, os, re, shutil, subprocess, sys, time

ROOT = os.path.dirname(os.path.dirname(os.path.abspath(__file__)))


def sh(cmd, timeout=1800, cwd=None):
    p = subprocess.run(cmd, shell=True, capture_output=True, text=True, timeout=timeout, cwd=cwd)
    return p.returncode, (p.stdout + p.stderr)


def restore():
    sh('git -C /repo checkout -- .')


for d in sys.argv[1:]:
    d = d.rstrip('/')
    meta = json.load(open(os.path.join(d, 'meta.json')))
    prop = meta['property']
    sid = f"{prop}-{os.path.basename(d)}" if os.path.basename(d).isdigit() else os.path.basename(d)
    out = os.path.join(ROOT, 'seeded', sid)
    os.makedirs(out, exist_ok=True)
    demo = open(os.path.join(d, 'demo.py')).read()
    demo = re.sub(r"sys\.path\.insert\(0,\s*['\"][^'\"]*['\"]\)", "sys.path.insert(0, __import__('os').environ.get('TENEVA_SRC', '/repo'))", demo)
    open(os.path.join(out, 'demo.py'), 'w').write(demo)
    shutil.copy(os.path.join(d, 'patch.diff'), os.path.join(out, 'patch.diff'))
    rec = {'verified_by': 'tools/seed_mutants.py', 'at': time.strftime('%Y-%m-%dT%H:%M:%SZ', time.gmtime())}
    prev = None
    if os.path.exists(os.path.join(out, 'meta.json')):          # a re-run after the machinery was extended: keep the first verdict
        try:
            _old = json.load(open(os.path.join(out, 'meta.json')))
            prev = _old.get('first_run') or _old.get('verification')
            for _k in ('judgement', 't1_recheck', 't1_sweep'):
                if _k in _old:
                    meta[_k] = _old[_k]
        except Exception:
            prev = None
    try:
        restore()
        rc0, _ = sh(f'/venv/bin/python {out}/demo.py', 900)
        rc, o = sh(f'git -C /repo apply --check {out}/patch.diff')
        if rc != 0:
            rec['error'] = 'patch does not apply: ' + o[-300:]
            continue
        sh(f'git -C /repo apply {out}/patch.diff')
        rc1, o1 = sh(f'/venv/bin/python {out}/demo.py', 900)
        _, ot = sh('/venv/bin/python -m pytest -q -p no:cacheprovider --timeout=900 test/ 2>&1 | tail -1', 1800, cwd='/repo')
        t0 = time.time()
        rcc, oc = sh(f'./check {prop} quick', 3600, cwd=ROOT)
        rec.update({
            'demo_exit_clean': rc0, 'demo_exit_patched': rc1, 'demo_output_patched_tail': o1.strip().splitlines()[-3:],
            'baseline_tests_with_patch': ot.strip(),
            'check_cmd': f'./check {prop} quick', 'check_exit': rcc, 'check_wall_s': round(time.time() - t0, 1),
            'violation_lines': len(re.findall(r'^VIOLATION', oc, re.M)),
            'summary_line': next((l for l in oc.splitlines() if l.startswith('[' + prop)), ''),
            't1_failed_obligations': sorted(set(re.findall(r'T1 (?:failed|refuted): (\S+)', oc))),
            't3_failing_clauses': sorted(set(re.findall(r'T3 fail: (\S+)', oc))),
            'undecided': [l[:300] for l in oc.splitlines() if l.startswith('UNDECIDED')][:5],
            'detected': rcc == 1,
            'detected_by': [x for x, y in (('T1 (deductive obligations)', re.search(r'T1 (failed|refuted)', oc)),
                                           ('T3 (bounded run-time contracts)', re.search(r'T3 fail', oc))) if y],
        })
    finally:
        restore()
        meta['verification'] = rec
        if prev and prev.get('at') != rec.get('at'):
            meta['first_run'] = prev
        meta['id'] = sid
        json.dump(meta, open(os.path.join(out, 'meta.json'), 'w'), indent=1)
        print(sid, 'clean', rec.get('demo_exit_clean'), 'patched', rec.get('demo_exit_patched'), '|', rec.get('baseline_tests_with_patch'),
              '| check exit', rec.get('check_exit'), 'by', rec.get('detected_by'), rec.get('t1_failed_obligations'), rec.get('t3_failing_clauses'))
