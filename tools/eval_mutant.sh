#!/bin/bash
# usage: tools/eval_mutant.sh <dir with patch.diff demo.py meta.json> <property id> [quick|thorough]
# Verifies a seeded change (demo passes clean / fails patched, baseline tests still pass) and runs the property's check
# against /repo with the patch applied; /repo is restored afterwards in every case.
D=$1; P=$2; TIER=${3:-quick}
cd /verif
restore() { git -C /repo checkout -- . ; }
trap restore EXIT
sed "s#sys.path.insert(0, *['\"][^'\"]*['\"])#sys.path.insert(0, '/repo')#" $D/demo.py > /tmp/demo_$$.py
echo "== demo on clean /repo"; timeout 600 /venv/bin/python /tmp/demo_$$.py >/tmp/demo_clean_$$.log 2>&1; echo "exit $?"
git -C /repo apply --check $D/patch.diff || { echo "PATCH DOES NOT APPLY"; exit 9; }
git -C /repo apply $D/patch.diff
echo "== demo with patch"; timeout 600 /venv/bin/python /tmp/demo_$$.py >/tmp/demo_patched_$$.log 2>&1; echo "exit $?"; tail -3 /tmp/demo_patched_$$.log | cut -c1-300
echo "== baseline tests with patch"; (cd /repo && timeout 900 /venv/bin/python -m pytest -q -p no:cacheprovider --timeout=900 test/ 2>&1 | tail -1)
echo "== ./check $P $TIER with patch"; ./check $P $TIER > /tmp/check_$$.log 2>&1; echo "exit $?"
grep -c "^VIOLATION" /tmp/check_$$.log | sed 's/^/VIOLATION lines: /'
grep "^\[C\|T1 \(refuted\|failed\)\|UNDECIDED\|INTERNAL" /tmp/check_$$.log | cut -c1-260 | head -12
grep "T3 fail" /tmp/check_$$.log | awk '{print $3}' | sort | uniq -c | sort -rn | head -8
rm -f /tmp/demo_$$.py /tmp/demo_clean_$$.log /tmp/demo_patched_$$.log /tmp/check_$$.log
