import sys
sys.path[:0]=['/verif','/verif/.deps']
from ttvc import units
for name in sys.argv[1:]:
    for o in units.run(name,'quick'):
        if o.kind=='meta': continue
        print(f'{o.status:9s} {o.kind:10s} {o.id:70s} {o.backend} {1000*o.seconds:.0f}ms {o.detail[:150] if o.status!="proved" else ""}', (o.model or '')[:300])
