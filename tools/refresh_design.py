"""Re-generates the tables of DESIGN.md section 10 between the TABLE markers."""
import os, re, subprocess
ROOT = os.path.dirname(os.path.dirname(os.path.abspath(__file__)))
out = subprocess.run(['/venv/bin/python', os.path.join(ROOT, 'tools', 'design_tables.py')], capture_output=True, text=True).stdout
cov, seeded = out.strip().split('\n\n')
p = os.path.join(ROOT, 'DESIGN.md')
s = open(p).read()
s = re.sub(r'<!-- TABLE:coverage -->.*?<!-- /TABLE:coverage -->', '<!-- TABLE:coverage -->\n' + cov + '\n<!-- /TABLE:coverage -->', s, flags=re.S)
s = re.sub(r'<!-- TABLE:seeded -->.*?<!-- /TABLE:seeded -->', '<!-- TABLE:seeded -->\n' + seeded + '\n<!-- /TABLE:seeded -->', s, flags=re.S)
open(p, 'w').write(s)
print('tables refreshed')
