"""False-alarm test: behaviour-preserving refactorings (written by independent sub-agents, one directory each with patch.diff,
equiv.py, meta.json) are applied to /repo one at a time, `./check <property> quick` is run and /repo is restored.  A correct
check answers exit 0 (held) — exit 2 (undecided: the contract no longer fits the restructured source) is tolerated and listed;
exit 1 is a FALSE ALARM of the machinery and has to be repaired.
usage: tools/eval_refactorings.py <dir> [...]        result -> /verif/refactorings/<id>/ (patch, meta with the verdict)"""
import json, os, re, shutil, subprocess, sys, time
ROOT = os.path.dirname(os.path.dirname(os.path.abspath(__file__)))


def sh(cmd, timeout=1800, cwd=None):
    p = subprocess.run(cmd, shell=True, capture_output=True, text=True, timeout=timeout, cwd=cwd)
    return p.returncode, p.stdout + p.stderr


for d in sys.argv[1:]:
    d = d.rstrip('/')
    meta = json.load(open(os.path.join(d, 'meta.json')))
    prop = meta['property']
    rid = f'{prop}-r{os.path.basename(d)}'
    out = os.path.join(ROOT, 'refactorings', rid)
    os.makedirs(out, exist_ok=True)
    shutil.copy(os.path.join(d, 'patch.diff'), os.path.join(out, 'patch.diff'))
    if os.path.exists(os.path.join(d, 'equiv.py')):
        shutil.copy(os.path.join(d, 'equiv.py'), os.path.join(out, 'equiv.py'))
    rec = {'at': time.strftime('%Y-%m-%dT%H:%M:%SZ', time.gmtime())}
    try:
        sh('git -C /repo checkout -- .')
        rc, o = sh(f'git -C /repo apply --check {out}/patch.diff')
        if rc != 0:
            rec['error'] = 'patch does not apply: ' + o[-300:]
            continue
        sh(f'git -C /repo apply {out}/patch.diff')
        _, ot = sh('/venv/bin/python -m pytest -q -p no:cacheprovider --timeout=900 test/ 2>&1 | tail -1', 1800, cwd='/repo')
        rc, o = sh(f'{ROOT}/check {prop} quick', 3600)
        lines = [l for l in o.splitlines() if l.startswith(('VIOLATION', 'UNDECIDED', 'KNOWN-FINDING', '  T1 failed', '  T3 fail', '['))]
        rec.update(pytest=ot.strip(), check_exit=rc, lines=[l[:400] for l in lines][:12])
        verdict = {0: 'quiet', 2: 'undecided'}.get(rc, 'FALSE ALARM' if rc == 1 else f'exit {rc}')
        rec['verdict'] = verdict
        print(rid, '|', ot.strip(), '|', verdict, '|', '; '.join(l[:160] for l in lines if not l.startswith('['))[:500], flush=True)
    finally:
        sh('git -C /repo checkout -- .')
        meta['evaluation'] = rec
        json.dump(meta, open(os.path.join(out, 'meta.json'), 'w'), indent=1)
