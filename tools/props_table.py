# Table of properties: P(id, level, T1 units, declared minimum number of obligations, cited lemmas, explanation, note, technique)
# T1 = obligations generated from the real source by ttvc and discharged by z3/cvc5 for ALL inputs;
# T3 = the bounded run-time contract suite rtc/suites/Cxx.py (labelled bounded, never counted as proved).

NOTE_T1 = ('T1 trusted base: floats as reals (A-REAL), int64 as integers (A-INT), Python subset semantics of the extraction '
           '(A-PY), the NumPy/SciPy model table ttvc/models.py + ttvc/vec.py (A-NP, exact LAPACK factorisations A-LAPACK), '
           'soundness of z3/cvc5 (A-SMT), the sidecar contracts themselves; every model-table entry and callee contract '
           'actually used is listed in the evidence file. ')
NOTE_T3 = ('T3 (bounded): real functions imported from /repo, independent dense / exact-integer oracles, bounds written in the '
           'evidence; assumes repeatable BLAS (A-BLAS) and pure callbacks (A-CB).')

P('C01', 'other',
  ['props.shape', 'props.ranks', 'props.erank', 'act_one.copy.tt', 'act_one.copy.scalar', 'act_one.get', 'act_two.add.tt_tt',
   'act_two.mul.num_tt', 'act_two.mul.tt_num', 'act_two.mul.tt_tt', 'act_two.mul_scalar', 'act_one.norm', 'act_two.accuracy', 'act_two.sub.tt_tt', 'act_two.outer', 'tensors.const.plain', 'props.size', 'act_one.mean.uniform', 'act_one.mean.ones', 'act_one.mean.weights', 'act_one.sum', 'transformation.full.d2', 'transformation.full.d3', 'act_one.get_many', 'act_one.get_many.rows', 'data.accuracy_on_data', 'act_many.outer_many.n2', 'act_many.outer_many.n3', 'act_many.outer_many.empty', 'act_many.add_many.n2', 'act_many.add_many.n3', 'lemmas.spotcheck', 'lemmas.TTAlg'], 60,
  ['L-SUMPROD (sum over all multi-indices of a product chain = chain of the mode sums)'],
  'Contract-based: get (loop invariant Q = partial chain => result = val(Y,i)), add tensor+tensor (block-core invariant, '
  'inductive chain lemma => wf, shape, ranks add up, val(result,i) = val(Y1,i)+val(Y2,i) for all d, shapes, ranks), '
  'mul/sub by numbers (scaling lemma), outer (concatenation), mean/sum (= chain of weighted mode sums), shape, ranks, copy '
  'are proved for all inputs over the abstract matrix/core theory (reals). Compositionality over expression trees follows '
  'from wf-in => wf-out and is stated, not re-proved. Bounded only: full, get_many, interface, get_and_grad, mul/mul_scalar '
  'tensor*tensor, norm, accuracy, erank, float rounding and bit-for-bit integer exactness (exact Python-integer oracle, '
  'd<=4, n<=4, r<=4, expression trees of depth<=3).',
  NOTE_T1 + NOTE_T3, 'deductive VCs from the real AST (ttvc+z3) + bounded run-time contracts',
  ['get_many', 'full', 'interface', 'get_and_grad', 'mul (tensor*tensor)', 'mul_scalar', 'norm', 'accuracy', 'erank', 'size'])

P('C02', 'other',
  ['svd.matrix_skeleton.abs.l', 'svd.matrix_skeleton.abs.r', 'svd.matrix_skeleton.abs.m', 'svd.matrix_svd',
   'transformation.truncate.eigh', 'transformation.truncate.svd', 'transformation.truncate.eigh.stab',
   'transformation.truncate.svd.stab', 'transformation.orthogonalize', 'act_many.add_many.n2', 'act_many.add_many.n3', 'act_many.add_many.n3.freq2', 'lemmas.spotcheck'], 60,
  ['L-ROUND (Oseledets 2011 Thm 3.1/Cor 2.4: orthonormal kept factors + per-step discarded energy <= delta^2 => total error <= sqrt(d-1) delta)',
   'L-EY (Eckart-Young)', 'L-ORTHNORM (orthonormal neighbours preserve the Frobenius norm)'],
  'Contract-based (all inputs): rank selection of matrix_skeleton / matrix_svd against the spec function tail(j)=sum_{t>=j} s_t^2 '
  '(induction lemma links the code\'s cumsum of reversed squares to tail): 1<=q<=max(1,int r), discarded tail energy <= e^2 and '
  'minimality unless the cap binds; factor shapes; which factor is orthonormal per give_to; truncate: shapes/wf, ranks <= cap and '
  '<= input ranks, the threshold handed to every factorisation is e*||Z[d-1]||/sqrt(d-1), and the call-site obligation that the '
  'factor stored as core k is the orthonormal one (hypothesis of L-ROUND; this obligation is what fails for give_to=\'r\'). '
  'Bounded only: the numerical clauses (||Y-Z||<=e||Y||, rss-optimality, rank minimality at thresholds (1+-1e-6) around every '
  'rank change, scales 1e-6..1e6, add_many).',
  NOTE_T1 + NOTE_T3, 'deductive VCs from the real AST (ttvc+z3) + cited rounding theorem + bounded run-time contracts',
  ['add_many', 'truncate.stab exponent redistribution'])

P('C03', 'other',
  ['svd.matrix_skeleton.abs.l', 'svd.matrix_skeleton.abs.r', 'svd.matrix_skeleton.abs.m', 'svd.matrix_skeleton.rel.l',
   'svd.matrix_skeleton.rel.r', 'svd.matrix_skeleton.rel.m', 'svd.svd', 'svd.matrix_svd', 'lemmas.spotcheck'], 80,
  ['L-TTSVD (Oseledets 2011 Thm 2.2)', 'L-EY (Eckart-Young)'],
  'Contract-based (all inputs): matrix_skeleton for all three give_to values and rel on/off: inner size q in [1, max(1,int r)], '
  'q <= min(m,n), discarded tail energy <= e^2 (relative to s_0 when rel) and smallest such q unless the cap binds (induction '
  'lemma), factor shapes, orthonormal factor per give_to; svd(): wf/shape of the result and the call-site obligation that every '
  'appended core is the orthonormal left factor with the weights travelling with the remainder (hypothesis of L-TTSVD; fails '
  'for give_to=\'m\'). Bounded only: error <= e sqrt(d-1) over magnitudes 1e-6..1e6, rank minimality against dense SVDs, exact '
  'low-rank reproduction, svd_matrix/full_matrix interleaving.',
  NOTE_T1 + NOTE_T3, 'deductive VCs from the real AST (ttvc+z3) + cited TT-SVD theorem + bounded run-time contracts',
  ['svd_matrix / full_matrix permutation lemma'])

P('C04', 'other',
  ['transformation.orthogonalize_left', 'transformation.orthogonalize_left.inplace', 'transformation.orthogonalize_right',
   'transformation.orthogonalize_right.inplace', 'transformation.orthogonalize', 'transformation.orthogonalize.stab',
   'core.core_stab', 'lemmas.spotcheck', 'lemmas.TTAlg'], 100,
  ['L-ORTHNORM (pivot core carries the Frobenius norm)'],
  'Contract-based (all d, shapes, ranks, pivots): single-step variants: ValueError iff invalid mode number, in-place changes exactly '
  'the two adjacent cores and returns the argument list, otherwise the argument is untouched; new rank = min(old rank, what the core '
  'can carry); orthonormal unfolding of the new core (from the QR/RQ contract and the fold/unfold axioms); product of the two adjacent '
  'slices preserved for every pair of mode indices (local tensor preservation, one associativity hint). orthogonalize: ValueError '
  'iff pivot out of range and before any work, loop invariants give well-formed result, same mode sizes, no rank increases, cores '
  'left of k orthonormal columns, right of k orthonormal rows, argument untouched; core_stab: mantissa max-modulus in [1,2), integer '
  'exponent, input = 2^p * mantissa. Bounded only: Gram matrices / dense equality in floating point, rank-deficient and over-ranked '
  'cores, stabilised variant at large scales.',
  NOTE_T1 + NOTE_T3, 'deductive VCs from the real AST (ttvc+z3, abstract matrix theory) + bounded run-time contracts',
  ['global value preservation val(Z)=val(Y) by induction over the sweeps (local preservation is proved)',
   'exponent bookkeeping of orthogonalize(use_stab=True)'])

P('C05', 'other',
  ['props.erank', 'cross._func_eval.nocache', 'cross._func_eval.cache', 'utils._info_appr', 'utils._maxvol', 'cross._func.--', 'cross._func.r-', 'cross._func.-c', 'cross._func.rc',
   'cross.cross.nocache.nocb', 'cross.cross.cache.nocb', 'cross.cross.nocache.cb', 'cross.cross.cache.cb',
   'cross._iter.ltr.I', 'cross._iter.ltr.none', 'cross._iter.rtl.I', 'cross._iter.rtl.none', 'cross.cross.shapes'], 30,
  ['L-CROSS (cross interpolation of an exact rank-rho tensor on nonsingular intersections is exact)'],
  'Contract-based: _func_eval in both modes (budget/None checks, counters, cache invariant: only evaluated rows enter the cache, '
  'info[m]+info[m_cache] grows by the number of requested rows), _info_appr stop priority. Bounded only: reproduction of exact '
  'rank-rho targets (an almost-all statement), bit-identical cached vs uncached runs, reported r/e/e_vld.',
  NOTE_T1 + NOTE_T3, 'deductive VCs from the real AST (ttvc+z3) + bounded run-time contracts',
  ['cross.info-consistent', 'cache non-interference'])

P('C06', 'other',
  ['utils._info_appr', 'cross._func_eval.nocache', 'cross._func_eval.cache', 'cross.cross.validate', 'cross._func.--', 'cross._func.r-',
   'cross._func.-c', 'cross._func.rc', 'cross.cross.nocache.nocb', 'cross.cross.cache.nocb', 'cross.cross.nocache.cb', 'cross.cross.cache.cb',
   'utils._maxvol', 'cross._iter.ltr.I', 'cross._iter.ltr.none', 'cross._iter.rtl.I', 'cross._iter.rtl.none', 'cross.cross.shapes'], 40,
  [],
  'Contract-based (all inputs, all paths): _func_eval: the objective is consulted iff the batch fits the budget, stop=\'m\' iff not '
  'consulted, stop=\'func\' iff it returned None, counters change only after a successful call, total rows asked never exceed m; '
  '_info_appr: e_vld > e > nswp priority, each reason iff its counter condition holds, an earlier reason is never overwritten, only '
  'documented reasons; cross head: ValueError iff the stop criteria are missing / validation data missing, before any evaluation. '
  'Bounded (fault enumeration on small configurations): every budget m, objective returning None at every k-th call, callback at '
  'every sweep, every combination of stop arguments, well-formed finite result however interrupted, index domain of every batch.',
  NOTE_T1 + NOTE_T3, 'deductive VCs from the real AST (ttvc+z3) + exhaustive fault enumeration on small configurations',
  ['cross main loop (wf-always / stop / budget invariant over both half-sweeps)'])

P('C07', 'other', ['utils._info_appr', 'als._optimize_core.slices', 'sig.als', 'sig.als_func'], 10,
  ['L-RIDGE', 'L-BCD', 'L-PERM'],
  'Contract-based: _info_appr stop logic shared with als / als_func; _optimize_core: a slice is rewritten iff at least one sample '
  'carries its index (the obligation that failed for `not idx.any()`). Bounded: descent of the regularised objective, per-core '
  'optimality, a+b restart equivalence, permutation invariance, single-sample slices at every position, adaptive ranks, info.',
  NOTE_T1 + NOTE_T3, 'deductive VCs from the real AST (ttvc+z3) + bounded run-time contracts',
  ['_lstsq normal equations', 'als interface invariant', 'als_func'])

P('C08', 'other', ['maxvol.maxvol', 'maxvol.maxvol_rect', 'maxvol.maxvol_rect.no_upper_limit', 'utils._maxvol', 'sig.maxvol'], 20, ['L-MAXVOL', 'L-SM'],
  'Contract-based: maxvol: ValueError iff n<=r, row indices from divmod stay in [0,n), leaving the loop by break implies max|B|<=e, '
  'shapes; maxvol_rect: ValueError iff inconsistent limits, number of rows in [r+dr_min, min(n,r+dr_max)], early stop implies every '
  'candidate has F<=e^2; _maxvol dispatch. Bounded: A=B A[I], B[I]=I, distinctness incl. zero/duplicate rows, conditioning to 1e8.',
  NOTE_T1 + NOTE_T3, 'deductive VCs from the real AST (ttvc+z3) + bounded run-time contracts', ['rank-one update invariant B A[I] = A'])

P('C09', 'proof', ['frames.C09', 'act_one.copy.tt', 'transformation.orthogonalize_left.inplace', 'transformation.orthogonalize_right.inplace'], 90, [],
  'Contract-based frame analysis (frames/): for every exported function a declared frame contract (modifies / result-aliases), '
  'checked by a modular alias/effect abstract interpretation of the real ASTs over all paths. Bounded: byte snapshots and '
  'np.shares_memory for every exported function over C/F/strided layouts.',
  'frames trusted base: alias/effect table of NumPy/SciPy callables (spot-checked), callbacks do not write their arguments (A-CB). ' + NOTE_T3,
  'modular alias/effect analysis against declared frame contracts + bounded snapshot checks')

P('C10', 'proof', ['frames.C10', 'utils._rand'], 90, [],
  'Contract-based effect analysis (frames/): no function reads the global NumPy generator, every draw goes through a generator '
  'derived from _rand(seed), default dicts are written before read; _rand: None/int -> default_rng(seed), otherwise the argument. '
  'Bounded: bitwise repeatability under perturbed global state for every seeded function, default-dict reuse.',
  'frames trusted base: effect table of NumPy callables, A-BLAS. ' + NOTE_T3,
  'modular effect analysis against declared effect contracts + bounded repeatability checks')

P('C11', 'other',
  ['transformation.orthogonalize', 'act_two.add.tt_tt', 'svd.matrix_svd', 'svd.matrix_skeleton.abs.m',
   'transformation.truncate.eigh', 'transformation.truncate.svd', 'svd.svd', 'props.erank', 'act_two.accuracy', 'act_one.norm', 'act_one.mean.uniform', 'act_one.mean.ones', 'act_one.sum', 'data.accuracy_on_data', 'act_many.add_many.n2', 'act_many.add_many.n3', 'act_many.add_many.n3.freq2',
   'sig.svd', 'sig.transformation', 'sig.act_one', 'sig.act_two', 'sig.core', 'sig.anova', 'sig.anova_func', 'sig.cross', 'sig.als'], 40, [],
  'Contract-based (all shapes incl. d=2, n=1, r=1, over-ranked): well-formedness of the results of orthogonalize, add, truncate; '
  'safety obligations: every division / sqrt in matrix_svd (the guarded inverse), erank (a != 0 for d>=3), accuracy (sentinel -1 '
  'exactly when |z2| < 1e-100) has an in-domain argument. Bounded: finiteness in floating point over the degenerate families '
  '(exactly-zero tensor, rank-deficient, over-ranked, constant data, repeated samples) through every routine and flag.',
  NOTE_T1 + NOTE_T3, 'deductive VCs (well-formedness, division/sqrt safety) + bounded run-time contracts', [])

P('C12', 'other', ['func.func_basis', 'func.func_sum', 'sig.func', 'sig.func_full', 'sig.grid'], 10, ['L-CHEB', 'L-CC', 'L-DIFF'],
  'Contract-based: three-term recurrence of func_basis, Clenshaw-Curtis formula of func_sum, call-signature conformance of every '
  'SciPy call in func.py against inspect.signature of the installed callee (the lstsq(rcond=) defect). Bounded: exact polynomial '
  'oracle for coefficients, evaluation, integration, differentiation, TT vs dense.',
  NOTE_T1 + NOTE_T3, 'deductive VCs + cited approximation-theory lemmas + bounded exact-polynomial oracle', [])

P('C13', 'other', ['anova.ANOVA.cores_1', 'anova.ANOVA.pair_num_to_num', 'anova.ANOVA.cores_2.pairing', 'sig.anova', 'sig.anova_func'], 5, [],
  'Contract-based: the 2x2 core pattern of ANOVA.cores_1 and its chain value f0 + sum f1_k. Bounded: conditional means, order 2, '
  'noise, sparse subsets, functional variant.', NOTE_T1 + NOTE_T3, 'deductive VCs + bounded run-time contracts', [])

P('C14', 'other', ['sample.sample_lhs.counts', 'sig.sample', 'sig.sample_func'], 5, ['L-SUMPROD'],
  'Contract-based: sample_lhs uses every index floor(m/n) or ceil(m/n) times. Bounded: chain of conditionals against the dense '
  'distribution for every multi-index (auditing generator), shapes/bounds of all samplers, uniqueness, sample_tt layout.',
  NOTE_T1 + NOTE_T3, 'deductive VCs + bounded auditing-generator checks', [])

P('C15', 'other', ['optima.optima_tt', 'optima.optima_tt_max', 'sig.optima', 'sig.optima_func'], 3, [],
  'Contract-based: reported values are get(Y,i) of the reported indices and y_min<=y_max on both return paths. Bounded: dense '
  'arg-optima for full beams and rank-1 tensors, quantised and functional variants. Known finding: optima_tt rank-1 with pruned beam.',
  NOTE_T1 + NOTE_T3, 'deductive VCs + bounded dense comparison', [])

P('C16', 'other', ['core.core_stab', 'core.core_stab.matrix', 'transformation.orthogonalize.stab', 'transformation.truncate.eigh.stab', 'act_two.mul_scalar.stab', 'act_one.norm.stab',
                   'act_two.accuracy'], 20, [],
  'Contract-based (bookkeeping over the reals): core_stab (mantissa in [1,2), integer exponent, input = 2^p mantissa), exponent '
  'accumulation in mul_scalar, (sqrt v, p/2) in norm, exponent difference and saturation branches of accuracy. Bounded: d up to '
  '3000, total norms 2^+-30000 against an unbounded-exponent reference.',
  NOTE_T1 + NOTE_T3, 'deductive VCs + bounded big-exponent reference', [])

P('C17', 'other', ['grid.ind_tt_to_qtt.gate', 'core.core_tt_to_qtt.gate', 'svd.matrix_svd', 'grid.grid_prep_opt.int_array', 'grid.ind_tt_to_qtt.batch', 'grid.ind_tt_to_qtt.single', 'grid.ind_qtt_to_tt.batch', 'grid.ind_qtt_to_tt.single', 'grid.ind_maps.round_trip', 'core.core_qtt_to_tt', 'act_one.qtt_to_tt', 'core.core_tt_to_qtt.shapes', 'act_one.tt_to_qtt'], 10, [],
  'Contract-based: ValueError iff the mode size is not a power of two; shape of the results; single index = batch of one. Bounded: '
  'exhaustive bit maps for q*d <= 10/12, TT<->QTT conversions.', NOTE_T1 + NOTE_T3, 'deductive VCs + exhaustive enumeration', [])

P('C18', 'other', ['grid.ind_to_poi.uni', 'grid.ind_to_poi.cheb', 'grid.poi_scale.uni', 'grid.poi_scale.cheb', 'grid.poi_to_ind.uni',
                   'grid.poi_to_ind.cheb', 'grid.grid_prep_opts.lll', 'grid.grid_prep_opts.lsl', 'grid.grid_prep_opts.sln',
                   'grid.grid_prep_opts.nnl', 'grid.grid_prep_opts.sss', 'sig.grid', 'sig.stat'], 10, [],
  'Contract-based over the reals: uniform-grid end points, range, round trip poi_to_ind(ind_to_poi(i)) = i, nearest node, clamping; '
  'grid_prep_opts raises iff lengths are inconsistent. Bounded: floating-point round trips exhaustive for n<=40/64 over many boxes, '
  'Chebyshev grid, grid_flat, cdf_getter.', NOTE_T1 + NOTE_T3, 'deductive VCs over reals + exhaustive floating-point enumeration', [])

P('C19', 'other', ['utils._vector_index_prepare', 'utils._vector_index_expand', 'vectors.vector_delta', 'tensors.delta',
                   'tensors.const.plain', 'sig.tensors', 'lemmas.spotcheck', 'lemmas.TTAlg'], 30, [],
  'Contract-based (all q, all positions): _vector_index_prepare (negative positions counted from the end, ValueError iff out of '
  'range), _vector_index_expand (little-endian bits by loop invariant + inductive lemma 2^k*shr(x,k) <= x < 2^k*(shr(x,k)+1), '
  'ValueError iff not representable), vector_delta / delta element pattern, const without zero list. Bounded: exhaustive positions '
  'q<=4/6, zero lists, poly, random constructors.', NOTE_T1 + NOTE_T3, 'deductive VCs (loop invariants, induction) + exhaustive enumeration', [])

P('C20', 'other', ['svd.svd_incomplete.shapes', 'svd.matrix_skeleton.abs.l', 'svd.matrix_skeleton.abs.r', 'svd.matrix_skeleton.abs.m', 'sig.svd'], 5, ['L-CROSS'],
  'Contract-based: exception-freedom and shapes of svd_incomplete given the layout contract of sample_tt (the 3-D array reaching '
  'lstsq was a failed obligation). Bounded: recovery of Gaussian rank-rho tensors (an almost-all statement).',
  NOTE_T1 + NOTE_T3, 'deductive VCs + bounded recovery checks', [])
