"""Writes MANIFEST.json from props/*.py."""
import importlib, json, os, sys
ROOT = os.path.dirname(os.path.dirname(os.path.abspath(__file__)))
sys.path.insert(0, ROOT)
NA = {}   # property id -> reason (not claimed)
checks = []
for i in range(1, 21):
    pid = 'C%02d' % i
    P = importlib.import_module('props.' + pid)
    if pid in NA:
        continue
    checks.append({
        'property_id': pid,
        'quick_cmd': f'./check {pid} quick',
        'thorough_cmd': f'./check {pid} thorough',
        'evidence_file': f'/verif/evidence/{pid}.json',
        'replay_cmd_template': './check replay {path}',
        'engine': 'ttvc+rtc' if P.T1 else 'rtc',
        'level_claimed': {'category': P.LEVEL, 'text': P.EXPLANATION, 'design_ref': f'DESIGN.md section 3 ({pid}), section 10'},
        'level_note': P.NOTE,
        'technique': P.TECHNIQUE,
    })
m = {
    'version': 1,
    'setup_cmd': './setup.sh',
    'hooks': {'guard': 'TENEVA_VERIF',
              'enable': 'no hooks: ttvc reads /repo/teneva/*.py with ast on every run, rtc wraps the real functions from outside; nothing in /repo is instrumented',
              'baseline_off_cmd': 'cd /repo && /venv/bin/python -m pytest -ra -q -p no:cacheprovider --timeout=900 --continue-on-collection-errors',
              'source_commits': [], 'add_only': True},
    'engines': [
        {'name': 'ttvc', 'path': 'ttvc/', 'serves_properties': [c['property_id'] for c in checks if 'ttvc' in c['engine']],
         'kind_free_text': 'contract-based deductive verification: symbolic execution of the real function ASTs against sidecar contracts (contracts/*.py), verification conditions discharged by z3 5.1 (cvc5 1.0.3 as second back end)'},
        {'name': 'rtc', 'path': 'rtc/', 'serves_properties': [c['property_id'] for c in checks],
         'kind_free_text': 'bounded run-time contract evaluation of the same clauses on the real functions against independent oracles (bounded stand-in and falsifier; never counted as proved)'},
    ],
    'checks': checks,
    'not_applicable': [{'property_id': k, 'reason': v} for k, v in NA.items()],
    'notes': 'Exit codes of ./check: 0 held, 1 VIOLATION, 2 UNDECIDED (timeout / unsupported construct, never a violation), 3 internal error. known_findings.json lists recorded genuine defects and the fix: commits made to /repo.',
}
json.dump(m, open(os.path.join(ROOT, 'MANIFEST.json'), 'w'), indent=1)
try:
    sys.path.insert(0, os.path.join(ROOT, '.deps'))
    import jsonschema
    jsonschema.validate(m, json.load(open('/root/.vp/MANIFEST.schema.json')))
    print('MANIFEST.json valid,', len(checks), 'checks')
except ImportError:
    print('written (not validated)')
