"""Writes MANIFEST.json from props/*.py."""
import importlib, json, os, sys
ROOT = os.path.dirname(os.path.dirname(os.path.abspath(__file__)))
sys.path.insert(0, ROOT)
NA = {}   # property id -> reason (not claimed)
checks = []
for i in range(1, 21):
    pid = 'C%02d' % i
    P = importlib.import_module('props.' + pid)
    if pid in NA:
        continue
    checks.append({
        'property_id': pid,
        'quick_cmd': f'./check {pid} quick',
        'thorough_cmd': f'./check {pid} thorough',
        'evidence_file': f'/verif/evidence/{pid}.json',
        'replay_cmd_template': './check replay {path}',
        'engine': 'ttvc+rtc' if P.T1 else 'rtc',
        'level_claimed': {'category': P.LEVEL, 'text': P.EXPLANATION + (
            f' [As built: this check runs {len(P.T1)} T1 units ({len(P.T1) - len(getattr(P, "T1_VIA_CALLEES", []))} tagged with the property, '
            f'{len(getattr(P, "T1_VIA_CALLEES", []))} through the callee contracts they assume) generating {sum(P.T1_COUNTS.values())} obligations from the '
            f'current source; the sentence above is the core that was planned first - the full list of what the units establish and what '
            f'stays bounded is in DESIGN.md 10.2, the unit list in props/{pid}.py, the discharged obligations in the evidence file.]'),
            'design_ref': f'DESIGN.md section 3 ({pid}), section 10'},
        'level_note': P.NOTE,
        'technique': P.TECHNIQUE,
    })
m = {
    'version': 1,
    'setup_cmd': './setup.sh',
    'hooks': {'guard': 'TENEVA_VERIF',
              'enable': 'no hooks: ttvc reads /repo/teneva/*.py with ast on every run, rtc wraps the real functions from outside; nothing in /repo is instrumented',
              'baseline_off_cmd': 'cd /repo && /venv/bin/python -m pytest -ra -q -p no:cacheprovider --timeout=900 --continue-on-collection-errors',
              'source_commits': [], 'add_only': True},
    'engines': [
        {'name': 'ttvc', 'path': 'ttvc/', 'serves_properties': [c['property_id'] for c in checks if 'ttvc' in c['engine']],
         'kind_free_text': 'contract-based deductive verification: symbolic execution of the real function ASTs against sidecar contracts (contracts/*.py), verification conditions discharged by z3 5.1 (cvc5 1.0.3 as second back end)'},
        {'name': 'rtc', 'path': 'rtc/', 'serves_properties': [c['property_id'] for c in checks],
         'kind_free_text': 'bounded run-time contract evaluation of the same clauses on the real functions against independent oracles (bounded stand-in and falsifier; never counted as proved)'},
    ],
    'checks': checks,
    'not_applicable': [{'property_id': k, 'reason': v} for k, v in NA.items()],
    'notes': 'Exit codes of ./check: 0 held on everything explored (units / obligations / cases that could not be decided - contract does not fit a restructured source, construct outside the subset, time-out - are printed as UNDECIDED lines and listed in the evidence, never counted as discharged), 1 VIOLATION (line VIOLATION property=<id> replay=<path>, ending in no-failing-input-found when no input is available), 2 a vacuity / soundness guard of the machinery itself failed (nothing the run says is to be trusted; never a violation), 3 internal error. known_findings.json lists recorded genuine defects (KNOWN-FINDING lines, exit 0) and the fix: commits made to /repo (fixed: entries suppress nothing). DESIGN.md 1.7 has the decision rules.',
}
json.dump(m, open(os.path.join(ROOT, 'MANIFEST.json'), 'w'), indent=1)
try:
    sys.path.insert(0, os.path.join(ROOT, '.deps'))
    import jsonschema
    jsonschema.validate(m, json.load(open('/root/.vp/MANIFEST.schema.json')))
    print('MANIFEST.json valid,', len(checks), 'checks')
except ImportError:
    print('written (not validated)')
