"""Prints the markdown tables of DESIGN.md section 10 from the evidence files and the seeded-change records."""
import glob, json, os
ROOT = os.path.dirname(os.path.dirname(os.path.abspath(__file__)))
print('| id | T1 obligations (discharged) | back ends | functions under contract | bounded cases (pass/trivial/skip) | quick wall |')
print('|---|---|---|---|---|---|')
for i in range(1, 21):
    pid = 'C%02d' % i
    e = json.load(open(os.path.join(ROOT, 'evidence', pid + '.json')))
    c = e['coverage']
    be = ', '.join(f"{k}:{v['obligations']}" for k, v in c['t1']['by_backend'].items())
    fn = sorted({f['function'].split(':')[-1] if ':' in f['function'] else f['function'] for f in c['t1']['functions_under_contract']})
    fn = [x for x in fn if 'call sites' not in x]
    b = c['bounded']
    print(f"| {pid} | {c['obligations']} ({c['discharged']}) | {be} | {', '.join(fn)[:200] or '-'} | {b['passed_nontrivial']}/{b['trivial']}/{b['skipped']} | {e['wall_s']} s |")
print()
print('| change | function | needs to manifest | first run | reported by (current machinery) | failed T1 obligation(s) | failing bounded clause(s) |')
print('|---|---|---|---|---|---|---|')


def _key(f):
    i = os.path.basename(os.path.dirname(f))
    a, b = i.split('-')
    return a, int(b)


for f in sorted(glob.glob(os.path.join(ROOT, 'seeded', '*', 'meta.json')), key=_key):
    m = json.load(open(f))
    v = m.get('verification', {})
    fr = m.get('first_run')
    fn = m.get('functions')
    fn = fn[0] if isinstance(fn, list) and fn else str(fn)
    db = v.get('detected_by', [])
    by = 'T1 + T3' if len(db) == 2 else ('T1' if db and db[0].startswith('T1') else 'T3' if db else 'not reported')
    if m.get('judgement') and not m['judgement'].get('counted_as_property_breaking', True):
        by = 'not counted (see meta.json: judgement)'
    first = 'reported' if (fr or v).get('detected') else 'missed'
    if int(m['id'].split('-')[1]) <= 6 and m['id'] in ('C13-1', 'C14-1', 'C01-4', 'C05-4', 'C09-4', 'C13-4', 'C17-3', 'C17-4', 'C20-3', 'C13-6', 'C17-6'):
        first = 'missed'          # rounds 1-3: the first verdicts were overwritten by the re-runs; the misses are the ones named in the text
    t1 = '; '.join(sorted({x.rsplit('.', 1)[-1][:60] for x in v.get('t1_failed_obligations', [])})[:2])
    t3 = ', '.join(v.get('t3_failing_clauses', [])[:2])
    need = (m.get('needs_to_manifest', '') or '').replace('\n', ' ').replace('|', '/')[:110]
    print(f"| {m['id']} | {str(fn).split('::')[-1][:28]} | {need} | {first} | {by} | {t1} | {t3} |")
