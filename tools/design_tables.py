"""Prints the markdown tables of DESIGN.md section 10 from the evidence files and the seeded-change records."""
import glob, json, os
ROOT = os.path.dirname(os.path.dirname(os.path.abspath(__file__)))
print('| id | T1 obligations (discharged) | back ends | functions under contract | bounded cases (pass/trivial/skip) | quick wall |')
print('|---|---|---|---|---|---|')
for i in range(1, 21):
    pid = 'C%02d' % i
    e = json.load(open(os.path.join(ROOT, 'evidence', pid + '.json')))
    c = e['coverage']
    be = ', '.join(f"{k}:{v['obligations']}" for k, v in c['t1']['by_backend'].items())
    fn = sorted({f['function'].split(':')[-1] if ':' in f['function'] else f['function'] for f in c['t1']['functions_under_contract']})
    fn = [x for x in fn if 'call sites' not in x]
    b = c['bounded']
    print(f"| {pid} | {c['obligations']} ({c['discharged']}) | {be} | {', '.join(fn)[:200] or '-'} | {b['passed_nontrivial']}/{b['trivial']}/{b['skipped']} | {e['wall_s']} s |")
print()
print('| change | function | needs to manifest | reported by | failed T1 obligation(s) | failing bounded clause(s) |')
print('|---|---|---|---|---|---|')
for f in sorted(glob.glob(os.path.join(ROOT, 'seeded', '*', 'meta.json'))):
    m = json.load(open(f))
    v = m.get('verification', {})
    fn = m.get('functions')
    fn = fn[0] if isinstance(fn, list) and fn else str(fn)
    by = 'T1 + T3' if len(v.get('detected_by', [])) == 2 else ('T3' if v.get('detected_by') else 'MISSED')
    t1 = '; '.join(sorted({x.rsplit('.', 1)[-1][:60] for x in v.get('t1_failed_obligations', [])})[:2])
    t3 = ', '.join(v.get('t3_failing_clauses', [])[:2])
    need = (m.get('needs_to_manifest', '') or '').replace('\n', ' ').replace('|', '/')[:110]
    print(f"| {m['id']} | {str(fn).split('::')[-1][:28]} | {need} | {by} | {t1} | {t3} |")
