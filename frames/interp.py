"""frames.interp — abstract interpreter of one function body under one contract case."""
import ast
from frames.domain import (AV, BOT, NUM, NONE, FRESHANY, ALLK, NOCONST, const_av, join, joins, param_av, parse_spec,
                           spec_kinds, is_site, root_param)
from frames.state import State, ValueOps, src
from frames.expr import ExprMixin
from frames.stmt import StmtMixin
from frames.calls import CallMixin


class Summary:
    def __init__(self):
        self.events = []
        self.returns = []       # (lineno, text, AV, external origins reachable, vias, escaped default-dict origins)
        self.assumptions = set()
        self.callees = set()
        self.callbacks = set()
        self.param_avs = {}
        self.tracked = {}
        self.crashed = None
        self.visited = set()


class Interp(ValueOps, ExprMixin, StmtMixin, CallMixin):

    def __init__(self, A, fi, case):
        self.A, self.fi, self.case = A, fi, case
        self.mod = A.pkg.modules[fi.module]
        self.events, self._evkeys = [], set()
        self.state = State()
        self.frames = [[]]
        self.loops = []
        self.outer_envs = []
        self.closures = {}
        self.global_decl = set()
        self.local_imports = {}
        self.literal_keys = {}
        self.tracked_dicts = {}
        self.assumptions = set()
        self.callees_used = set()
        self.callbacks_used = set()
        self.soft_mode = 0
        self.cur_stmt = fi.node
        self.self_cls = f'{fi.module}.{fi.cls}' if fi.cls else None
        self.param_avs = {}
        self.visited = set()
        self.typed_origins = set()       # origins of typed parameters: their contents are exactly what the heap says

    def setup(self):
        fi, case = self.fi, self.case
        heap = self.state.heap
        for p in fi.all_params:
            if p == 'self' and fi.cls:
                v = AV(['obj'], org=['P:self'], cls=f'teneva:{fi.module}.{fi.cls}')
            elif p in case.flags:
                v = const_av(case.flags[p])
            else:
                spec = case.params.get(p) or self.A.default_param_type(p) or 'any'
                v = param_av(spec, p, heap)
                if not self._has_any(parse_spec(spec)):
                    self.typed_origins |= {'P:' + p, 'E:' + p, 'N:' + p}
                if v.may('dict'):
                    self.tracked_dicts['P:' + p] = p
                    self.state.written['P:' + p] = frozenset()
                if p in case.clock_params:
                    v = v.but(clock=True)
            self.state.env[p] = v
            self.param_avs[p] = v
        if self.self_cls:
            for attr, spec in self.A.class_attrs(self.self_cls).items():
                self.self_attr_av(attr, spec)
        if fi.vararg:
            self.state.env[fi.vararg] = AV(['tuple'], elem=AV(ALLK, org=['E:' + fi.vararg]))
        if fi.kwarg:
            self.state.env[fi.kwarg] = AV(['dict'], org=['P:' + fi.kwarg])
        # default expressions are evaluated once, at definition time, in module scope
        saved = self.state
        for p, d in fi.defaults.items():
            self.state = State()
            before = len(self.events)
            self.ev(d)
            for e in self.events[before:]:
                if e.kind == 'rng':
                    e.how = f'default:{p}'
                    e.text = f'default value of parameter {p}: ' + e.text
        self.state = saved

    @staticmethod
    def _has_any(spec):
        if spec.alts:
            return any(Interp._has_any(a) for a in spec.alts)
        if spec.name == 'any' or (spec.name in ('list', 'dict', 'set', 'tuple', 'objarr') and not spec.args):
            return True
        return any(Interp._has_any(a) for a in spec.args)

    def run(self):
        S = Summary()
        try:
            self.setup()
            self.block(self.fi.body)
            rets = list(self.frames[0])
            if self.state is not None:
                rets.append((NONE, self.state, self.fi.node))
            for v, st, node in rets:
                self.state = st
                orgs = {o for o in self.deep_orgs(v) if not is_site(o)}
                vias = self.deep_vias(v)
                S.returns.append((getattr(node, 'lineno', self.fi.lines[0]),
                                  src(node, 80) if not isinstance(node, ast.FunctionDef) else 'implicit return None',
                                  v, orgs, vias))
        except RecursionError as ex:      # pragma: no cover
            S.crashed = f'recursion limit in the analysis: {ex}'
        S.events = self.events
        S.assumptions = self.assumptions
        S.callees = self.callees_used
        S.callbacks = self.callbacks_used
        S.param_avs = self.param_avs
        S.tracked = self.tracked_dicts
        S.visited = self.visited
        return S
