"""frames.stmt — abstract execution of statements (flow-sensitive, joins at merges, loops to a fixpoint)."""
import ast
from frames.domain import (AV, BOT, NUM, BOOL, STR, NONE, FRESHANY, ALLK, NOCONST, IMMUT, num, arr, const_av, join,
                           joins, is_site, root_param, describe_origin)
from frames.state import State, sjoin, src

MAXIT = 8


class StmtMixin:

    def block(self, stmts):
        for st in stmts:
            if self.state is None:
                return
            self.cur_stmt = st
            self.visited.add(id(st))
            m = getattr(self, 'st_' + type(st).__name__, None)
            if m is None:
                self.unsupported(st, f'statement {type(st).__name__}')
                continue
            m(st)

    # ---- simple statements
    def st_Expr(self, st):
        if isinstance(st.value, ast.Constant):
            return
        if isinstance(st.value, ast.Call):
            st.value._result_unused = True          # expression statement: the value of the call flows nowhere
        self.ev(st.value)

    def st_Pass(self, st):
        pass

    def st_Assign(self, st):
        v = self.ev(st.value)
        for t in st.targets:
            self.assign(t, v, st)

    def st_AnnAssign(self, st):
        if st.value is not None:
            self.assign(st.target, self.ev(st.value), st)

    def st_Return(self, st):
        v = self.ev(st.value) if st.value is not None else NONE
        if v.clock or any(i.clock for i in (v.items or ())):
            self.event('clock', None, 'return', st, f'a clock-dependent value is returned: {src(st, 60)}')
        self.escape_value(v, st)               # a returned closure runs in the caller: analyse its body once
        for i in (v.items or ()):
            self.escape_value(i, st)
        if self.state is None:
            return
        self.frames[-1].append((v, self.state.copy(), st))
        self.state = None

    def st_Raise(self, st):
        if st.exc is not None:
            self.ev(st.exc)
        self.state = None

    def st_Assert(self, st):
        t = self.ev(st.test)
        if self.truth(t) is False:
            self.state = None
            return
        self.refine(st.test, True)

    def st_Delete(self, st):
        for t in st.targets:
            if isinstance(t, ast.Name):
                self.state.env.pop(t.id, None)
            elif isinstance(t, ast.Subscript):
                b = self.ev(t.value)
                self.write_cont(b, st, 'del removes an element of')

    def st_Global(self, st):
        self.global_decl.update(st.names)

    def st_Nonlocal(self, st):
        self.unsupported(st, 'nonlocal')

    def st_Import(self, st):
        for a in st.names:
            self.local_imports[a.asname or a.name.split('.')[0]] = a.name if a.asname else a.name.split('.')[0]

    def st_ImportFrom(self, st):
        for a in st.names:
            self.local_imports[a.asname or a.name] = f'{st.module}.{a.name}'

    def st_FunctionDef(self, st):
        self.state.env[st.name] = self.make_closure(st, st.name)

    def st_ClassDef(self, st):
        self.unsupported(st, 'nested class definition')

    def st_Break(self, st):
        if self.loops:
            self.loops[-1]['break'] = sjoin(self.loops[-1]['break'], self.state)
        self.state = None

    def st_Continue(self, st):
        if self.loops:
            self.loops[-1]['cont'] = sjoin(self.loops[-1]['cont'], self.state)
        self.state = None

    # ---- assignment
    def assign(self, t, v, node):
        if isinstance(t, ast.Name):
            if t.id in self.global_decl:
                self.gstate_access(t.id, node, 'write')
                return
            self.state.env[t.id] = v
        elif isinstance(t, (ast.Tuple, ast.List)):
            n = len(t.elts)
            star = any(isinstance(x, ast.Starred) for x in t.elts)
            if not star and v.items is not None and v.elem is None and len(v.items) == n and v.only('tuple', 'list'):
                for x, iv in zip(t.elts, v.items):
                    self.assign(x, iv, node)
            else:
                e = self.iter_elem(v)
                if v.items is not None and v.only('tuple') and not star and len(v.items) != n:
                    pass
                for x in t.elts:
                    if isinstance(x, ast.Starred):
                        self.assign(x.value, self.new_list(x, e), node)
                    else:
                        self.assign(x, e, node)
        elif isinstance(t, ast.Subscript):
            self.assign_subscript(t, v, node)
        elif isinstance(t, ast.Attribute):
            self.assign_attr(t, v, node)
        elif isinstance(t, ast.Starred):
            self.assign(t.value, v, node)
        else:
            self.unsupported(t, f'assignment target {type(t).__name__}')

    def assign_attr(self, t, v, node):
        base = self.ev(t.value)
        if isinstance(t.value, ast.Name) and t.value.id == 'self' and self.self_cls:
            self.state.env['self.' + t.attr] = v
            self.event('write', 'P:self', 'cont', node, f'{src(node)} sets attribute {t.attr} of')
            ext = {x for x in self.deep_orgs(v) if x.startswith(('P:', 'E:', 'N:')) and root_param(x) != 'self'}
            for x in sorted(ext):
                self.event('retain', x, 'attr', node,
                           f'{src(node)} stores a reference to {describe_origin(x)} in self.{t.attr}', via=self.deep_vias(v))
            self.check_attr_type(t.attr, v, node)
            return
        self.write_cont(base, node, f'{src(node)} sets an attribute of')
        self.store_elem(base, v, node)

    def assign_subscript(self, t, v, node):
        base = self.ev(t.value)
        parts = self.index_parts(t.slice)
        key = parts[0][1] if len(parts) == 1 else None
        text = f'{src(node)} assigns into'
        if v.clock and base.may('dict') and key is not None and key.has_const() and key.const == 't':
            v = v.but(clock=False)            # the one allowed sink of the wall clock: info['t']
        if base.may('arr') or base.is_any:
            self.write_buf(base, node, text)
            if base.objarr:
                self.store_elem(base, v, node)
                if v.may('list', 'tuple') and not v.immutable:
                    self.store_elem(base, self.iter_elem(v), node)
        if base.may('list', 'dict', 'obj') or base.is_any:
            cb = base.but(kinds=base.kinds & {'list', 'dict', 'obj', 'set'}) if not base.is_any else base
            self.write_cont(cb, node, text)
            self.store_elem(cb, v, node)
            if base.may('list') and len(parts) == 1 and parts[0][0] == 'slice':
                self.store_elem(cb, self.iter_elem(v), node)
            if base.may('dict'):
                if v.clock and not (key is not None and key.has_const() and key.const == 't'):
                    self.clock_store(node, key)
                if key is not None and key.has_const():
                    self.mark_written(cb, [key.const], node)
        elif v.clock:
            self.clock_store(node, key)

    def st_AugAssign(self, st):
        v = self.ev(st.value)
        t = st.target
        opname = type(st.op).__name__
        if isinstance(t, ast.Name):
            cur = self.lookup(t.id, t)
            new = self.inplace(cur, v, st, st.op)
            if t.id in self.global_decl:
                self.gstate_access(t.id, st, 'write')
            else:
                self.state.env[t.id] = new
        elif isinstance(t, ast.Subscript):
            base = self.ev(t.value)
            cur = self.subscript(base, t.slice, t)
            text = f'{src(st)} updates in place'
            if base.may('arr') or base.is_any:
                self.write_buf(base, st, text)
            if base.may('list', 'dict', 'obj') or base.is_any:
                # x[i] op= v : the element object itself is updated in place when it is mutable
                new = self.inplace(cur, v, st, st.op)
                cb = base.but(kinds=base.kinds & {'list', 'dict', 'obj', 'set'}) if not base.is_any else base
                if cur.immutable:
                    self.write_cont(cb, st, text)
                else:
                    # same object is stored back: the container keeps its identity and its element list
                    if cur.may('num', 'bool', 'str', 'none'):
                        self.write_cont(cb, st, text)
                self.store_elem(cb, new, st)
                parts = self.index_parts(t.slice)
                if base.may('dict') and len(parts) == 1 and parts[0][1].has_const():
                    self.mark_written(cb, [parts[0][1].const], st)
        elif isinstance(t, ast.Attribute):
            base = self.ev(t.value)
            cur = self.getattr_(base, t.attr, t)
            new = self.inplace(cur, v, st, st.op)
            self.assign_attr(t, new, st)
        else:
            self.unsupported(st, 'augmented assignment target')

    def inplace(self, cur, v, node, op):
        """value of `cur op= v`; records the in-place write when cur is (may be) a mutable array / list"""
        if cur.immutable or cur.bot:
            return self.binop(op, cur, v, node)
        text = f'{src(node)} updates in place'
        if cur.may('arr') or cur.is_any:
            self.write_buf(cur, node, text)
        if cur.may('list', 'set', 'dict') or cur.is_any:
            self.write_cont(cur.but(kinds=cur.kinds & {'list', 'set', 'dict'}) if not cur.is_any else cur, node, text)
            if cur.may('list'):
                self.store_elem(cur.but(kinds=['list']), self.iter_elem(v), node)
        if cur.may('tuple', 'str', 'num', 'bool'):
            return join(cur, self.binop(op, cur.but(kinds=cur.kinds & (IMMUT | {'tuple'})), v, node))
        return cur

    # ---- branches
    def refine(self, test, positive):
        """narrow the kinds of a name tested against None"""
        if self.state is None:
            return
        if isinstance(test, ast.UnaryOp) and isinstance(test.op, ast.Not):
            return self.refine(test.operand, not positive)
        if isinstance(test, ast.BoolOp):
            if isinstance(test.op, ast.And) and positive:
                for v in test.values:
                    self.refine(v, True)
            if isinstance(test.op, ast.Or) and not positive:
                for v in test.values:
                    self.refine(v, False)
            return
        if isinstance(test, ast.Compare) and len(test.ops) == 1 and isinstance(test.left, ast.Name) \
                and isinstance(test.ops[0], (ast.Is, ast.IsNot)) and isinstance(test.comparators[0], ast.Constant) \
                and test.comparators[0].value is None:
            name = test.left.id
            cur = self.state.env.get(name)
            if cur is None:
                return
            is_none = isinstance(test.ops[0], ast.Is) == positive
            if is_none:
                if cur.may('none'):
                    self.state.env[name] = NONE
            else:
                k = cur.kinds - {'none'}
                if k and k != cur.kinds:
                    self.state.env[name] = cur.but(kinds=k, const=NOCONST if cur.const is None else cur.const)
            return
        if isinstance(test, ast.Name):
            cur = self.state.env.get(test.id)
            if cur is not None and positive and cur.may('none') and (cur.kinds - {'none'}):
                self.state.env[test.id] = cur.but(kinds=cur.kinds - {'none'}, const=NOCONST if cur.const is None else cur.const)
            return
        if isinstance(test, ast.Call) and isinstance(test.func, ast.Name) and test.func.id == 'isinstance' \
                and len(test.args) == 2 and isinstance(test.args[0], ast.Name):
            name = test.args[0].id
            cur = self.state.env.get(name)
            if cur is None:
                return
            tk = self.type_kinds(self.ev(test.args[1]))
            if tk is None:
                return
            k = (cur.kinds & tk) if positive else (cur.kinds - tk)
            if k and k != cur.kinds:
                self.state.env[name] = cur.but(kinds=k)

    def st_If(self, st):
        t = self.ev(st.test)
        self.clock_use(t, st.test, 'a condition')
        tv = self.truth(t)
        if tv is True:
            self.refine(st.test, True)
            return self.block(st.body)
        if tv is False:
            self.refine(st.test, False)
            return self.block(st.orelse)
        s0 = self.state
        self.state = s0.copy()
        self.refine(st.test, True)
        self.block(st.body)
        s1 = self.state
        self.state = s0.copy()
        self.refine(st.test, False)
        self.block(st.orelse)
        self.state = sjoin(s1, self.state)

    # ---- loops
    def st_For(self, st):
        it = self.ev(st.iter)
        el = self.iter_elem(it)
        nonempty = self.minlen_of(it) >= 1
        self._loop(st, lambda: self.assign(st.target, el, st.target), None, nonempty)

    def st_While(self, st):
        self._loop(st, None, st.test, False)

    def _loop(self, st, bind, test, nonempty):
        head = self.state
        ctx = {'break': None, 'cont': None}
        self.loops.append(ctx)
        end = None
        always = False
        exit_false = None
        for it in range(MAXIT):
            self.state = head.copy()
            exit_false = None
            if test is not None:
                t = self.ev(test)
                self.clock_use(t, test, 'a loop condition')
                tv = self.truth(t)
                always = tv is True
                if tv is False:
                    exit_false = self.state
                    self.state = None
                elif tv is None:
                    exit_false = self.state.copy()
                    self.refine(test, True)
            if self.state is not None:
                if bind:
                    bind()
                ctx['cont'] = None
                self.block(st.body)
                end = sjoin(self.state, ctx['cont'])
            else:
                end = None
            new = head.join(end) if end is not None else head
            if new.same(head):
                break
            head = new
        self.loops.pop()
        # state at normal loop exit
        if test is not None:
            normal = None if always else (exit_false if exit_false is not None else None)
            if normal is not None and not always:
                # exit happens at the head of any iteration
                self.state = head.copy()
                t = self.ev(test)
                self.refine(test, False)
                normal = self.state
        else:
            normal = end if (nonempty and end is not None) else (head if not nonempty else end)
        self.state = normal.copy() if normal is not None else None
        if st.orelse and self.state is not None:
            self.block(st.orelse)
        self.state = sjoin(self.state, ctx['break'])

    # ---- try / with
    def st_Try(self, st):
        pre = self.state.copy()
        mid = pre
        for s in st.body:
            if self.state is None:
                break
            self.block([s])
            if self.state is not None:
                mid = mid.join(self.state)
        # a raising statement may have been partially executed: handlers start from the join of all states seen
        normal = self.state
        if normal is not None and st.orelse:
            self.block(st.orelse)
            normal = self.state
        outs = [normal]
        for h in st.handlers:
            self.state = mid.copy()
            if h.type is not None:
                self.ev(h.type)
            if h.name:
                self.state.env[h.name] = AV(['obj'], cls='exception')
            self.block(h.body)
            outs.append(self.state)
        res = None
        for o in outs:
            res = sjoin(res, o)
        self.state = res
        if st.finalbody and self.state is not None:
            self.block(st.finalbody)

    def st_With(self, st):
        for i in st.items:
            v = self.ev(i.context_expr)
            if i.optional_vars is not None:
                self.assign(i.optional_vars, v, st)
        self.block(st.body)
