"""frames.selftest — sensitivity / robustness catalogue of the frames checker (DESIGN.md Appendix D).

Each entry edits a scratch copy of $VERIF_REPO/teneva (never the repository), runs the analysis on it and compares
the outcome with the expectation:  failed (a property-breaking edit must be reported as a violation),
unsupported (an unknown callable must leave the obligation undecided) or quiet (a harmless rewrite must change
nothing).      PYTHONPATH=/verif:/verif/.deps /venv/bin/python -m frames.selftest [substring] [-v]
"""
import os, shutil, sys, tempfile
from frames import analysis, extract

SRC = os.path.join(extract.repo_root(), 'teneva')
SCR = None


def fresh():
    global SCR
    if SCR:
        shutil.rmtree(SCR, ignore_errors=True)
    SCR = tempfile.mkdtemp(prefix='frames_selftest_')
    shutil.copytree(SRC, SCR + '/teneva')


def edit(mod, old, new, count=1):
    p = f'{SCR}/teneva/{mod}.py'
    s = open(p).read()
    if old not in s:
        raise LookupError(f'anchor not found in {mod}.py: {old[:50]!r}')
    open(p, 'w').write(s.replace(old, new, count))


def top(mod, sig, code):
    edit(mod, sig, sig + '\n' + '\n'.join('    ' + l for l in code.split('\n')))


SZ = "def size(Y):"
MUTS = []


def M(name, fn, expect='failed'):
    MUTS.append((name, fn, expect))


M('H1 historical defect: np.random.shuffle in sample_square', lambda: edit('sample', 'rand.shuffle(I)', 'np.random.shuffle(I)'))
M('H2 historical defect: lstsq(overwrite_b=True) on a view of a core in func_int_general', lambda: edit('func', 'overwrite_a=False, overwrite_b=False', 'overwrite_a=False, overwrite_b=True'))
M('func_diff_matrix memoised with functools.lru_cache (seeded C10-12)', lambda: edit('func', 'def func_diff_matrix(', 'from functools import lru_cache\n\n\n@lru_cache(maxsize=128)\ndef func_diff_matrix('))
M('copy removed: truncate (orth=False path)', lambda: edit('transformation', 'Z, p = teneva.copy(Y), 0', 'Z, p = Y, 0'))
M('copy removed: orthogonalize', lambda: edit('transformation', '    Z = teneva.copy(Y)\n    p = 0', '    Z = Y\n    p = 0'))
M('copy removed: orthogonalize_left (inplace=False)', lambda: edit('transformation', 'Z = Y if inplace else teneva.copy(Y)', 'Z = Y'))
M('copy removed: mul (number*TT)', lambda: edit('act_two', 'Y = teneva.copy(Y2)', 'Y = Y2'))
M('copy removed: sub', lambda: edit('act_two', '        Y2 = teneva.copy(Y2)\n', '        pass\n'))
M('copy removed: outer (first)', lambda: edit('act_two', 'Y = teneva.copy(Y1)\n    Y.extend', 'Y = Y1\n    Y.extend'))
M('copy removed: outer (second)', lambda: edit('act_two', 'Y.extend(teneva.copy(Y2))', 'Y.extend(Y2)'))
M('copy removed: cross', lambda: edit('cross', 'Y = teneva.copy(Y0)', 'Y = Y0'))
M('copy removed: als', lambda: edit('als', 'Y = teneva.copy(Y0)', 'Y = Y0'))
M('copy removed: als_func', lambda: edit('als_func', 'Y = teneva.copy(A0)', 'Y = A0'))
M('copy removed: optima_tt_beam (orthogonalize -> Y)', lambda: edit('optima', "Z, p = teneva.orthogonalize(Y, 0 if l2r else len(Y)-1, use_stab=True)", 'Z, p = Y, 0'))
M('copy removed: core_qtt_to_tt (.copy())', lambda: edit('core', 'G = Q_list[0].copy()', 'G = Q_list[0]'))
M('copy removed: svd (Y_full.copy())', lambda: edit('svd', 'Z = Y_full.copy()', 'Z = Y_full'))
M('copy removed: _optimize_core Q.copy() (als)', lambda: edit('als', '    Q = Q.copy()\n', '    pass\n'))
M('Y[0] *= c on an argument (add)', lambda: edit('act_two', "    n, r1, r2, Y = teneva.shape(Y1)", "    Y1[0] *= 1.\n    n, r1, r2, Y = teneva.shape(Y1)"))
M('return teneva._reshape(G) of an argument core (core_dot_inv)', lambda: edit('core', "    return teneva._reshape(G, (r1, n, r2))", "    return teneva._reshape(G0, (r1, n, r2))") or edit('core', "def core_dot_inv(G, R, ltr=True):", "def core_dot_inv(G, R, ltr=True):\n    G0 = G"))
M('write into np.asanyarray(arg) (poi_scale)', lambda: edit('grid', "    X = np.asanyarray(X, dtype=float)\n    d = X.shape[-1]", "    X = np.asanyarray(X, dtype=float)\n    X[X < 0] = 0\n    d = X.shape[-1]"))
M('out= on argument (matrix_svd)', lambda: edit('svd', "out=np.zeros_like(w)", "out=A[0]"))
M('list mutator on argument (tt_to_qtt: Y.append)', lambda: edit('act_one', "    Z = []\n    for G in Y:\n        Z.extend", "    Z = []\n    Y.append(None)\n    for G in Y:\n        Z.extend"))
M('.sort() on argument (cdf_getter without copy)', lambda: edit('stat', 'x = np.array(x, copy=True)', 'x = np.asarray(x)'))
M('np.random.rand() (const)', lambda: edit('tensors', "    d = len(n)\n    s = abs(v) / v", "    d = len(n)\n    v = v + 0 * np.random.rand()\n    s = abs(v) / v"))
M('np.random.seed(0) (sample)', lambda: edit('sample', "    m = int(m)\n    d = len(Y)\n\n    rand = teneva._rand(seed)\n\n    phi", "    m = int(m)\n    d = len(Y)\n    np.random.seed(0)\n    rand = teneva._rand(seed)\n\n    phi"))
M('f = np.random.rand; f() (alias of global rng function)', lambda: edit('sample', "def sample_rand_poi(a, b, m, seed=None):", "def sample_rand_poi(a, b, m, seed=None):\n    g = np.random.rand\n    g()"))
M('teneva._rand() without seed (sample_lhs)', lambda: edit('sample', "    d = len(n)\n\n    rand = teneva._rand(seed)\n\n    I = np.empty", "    d = len(n)\n\n    rand = teneva._rand()\n\n    I = np.empty"))
M('np.random.default_rng() (rand_stab)', lambda: edit('tensors', "    rand = teneva._rand(seed)\n\n    Y = []", "    rand = np.random.default_rng()\n\n    Y = []"))
M('seeded callee without seed (sample_tt -> teneva.sample_lhs(sh1, r))', lambda: edit('sample', "lhs_1 = sample_lhs(sh1, r, seed)\n            for n in range(rng):\n                for i in lhs_1:", "lhs_1 = teneva.sample_lhs(sh1, r)\n            for n in range(rng):\n                for i in lhs_1:"))
M('seeded callee without seed (cross_act -> teneva.rand(n, dr))', lambda: edit('cross_act', "teneva.rand(n, dr, seed=rand)", "teneva.rand(n, dr)"))
M('info.update -> info.setdefault (cross)', lambda: edit('cross', "info.update({'r': teneva.erank(Y0)", "_d = ({'r': teneva.erank(Y0)") or edit('cross', "'with_cache': cache is not None})", "'with_cache': cache is not None})\n    for _k in _d:\n        info.setdefault(_k, _d[_k])"))
M('info key read before write (als: drop nswp from update)', lambda: edit('als', "info.update({'e': -1, 'e_vld': -1, 'nswp': 0, 'stop': None})", "info.update({'e': -1, 'e_vld': -1, 'stop': None})"))
M('module-level _CACHE = {} written by maxvol', lambda: edit('maxvol', "def maxvol(A, e=1.05, k=100):", "_CACHE = {}\n\n\ndef maxvol(A, e=1.05, k=100):") or edit('maxvol', "    n, r = A.shape\n\n    if n <= r:\n        raise", "    n, r = A.shape\n    _CACHE[n] = r\n\n    if n <= r:\n        raise"))
M('module-level counter via global statement (props.erank)', lambda: edit('props', "def erank(Y):", "_N = 0\n\n\ndef erank(Y):") or edit('props', "    d, n, r = len(Y), shape(Y), ranks(Y)", "    global _N\n    _N += 1\n    d, n, r = len(Y), shape(Y), ranks(Y)"))
M('clock into result (als: info e)', lambda: edit('als', "info['nswp'] += 1", "info['nswp'] += tpc()"))
M('unknown callee (scipy.special.foo on argument)', lambda: edit('props', "    return np.sum([G.size for G in Y])", "    return np.frobnicate(Y)"), expect='unsupported')
M('QUIET rename locals (mul: G->core)', lambda: edit('act_two', "        G = G1[:, None, :, :, None] * G2[None, :, :, None, :]\n        G = G.reshape([G1.shape[0]*G2.shape[0], -1, G1.shape[-1]*G2.shape[-1]])\n        Y.append(G)", "        core = G1[:, None, :, :, None] * G2[None, :, :, None, :]\n        core = core.reshape([G1.shape[0]*G2.shape[0], -1, G1.shape[-1]*G2.shape[-1]])\n        Y.append(core)"), expect='quiet')
M('QUIET @ -> np.dot (get)', lambda: edit('act_one', "Q = Q @ Y[k][:, i[k], :]", "Q = np.dot(Q, Y[k][:, i[k], :])"), expect='quiet')
M('QUIET x.copy() -> np.copy(x) (copy)', lambda: edit('act_one', "return [G.copy() for G in Y]", "return [np.copy(G) for G in Y]"), expect='quiet')
M('QUIET reorder independent statements (orthogonalize)', lambda: edit('transformation', "    Z = teneva.copy(Y)\n    p = 0", "    p = 0\n    Z = teneva.copy(Y)"), expect='quiet')
M('QUIET .T -> np.transpose (core_dot_inv)', lambda: edit('core', "np.linalg.solve(R.T, G.T).T", "np.transpose(np.linalg.solve(np.transpose(R), np.transpose(G)))"), expect='quiet')
M('QUIET hstack -> concatenate(axis=1) (core_qr_rand)', lambda: edit('core', "G = np.hstack((G, rnd))", "G = np.concatenate((G, rnd), axis=1)"), expect='quiet')
M('QUIET np.copy removed on a fresh array (sample_func G0)', lambda: edit('sample_func', "G0 = np.copy(G_cur)", "G0 = G_cur"), expect='quiet')
M('alias via local list: tmp=[Y]; tmp[0][0] = None', lambda: top('props', SZ, "tmp = [Y]\nZ = tmp[0]\nZ[0] = None"))
M('alias via dict: d={"a":Y[0]}; d["a"][...] = 0', lambda: top('props', SZ, "d = {'a': Y[0]}\nd['a'][...] = 0"))
M('alias via tuple unpack: a, b = Y[0], 1; a *= 2', lambda: top('props', SZ, "a, b = Y[0], 1\na *= 2"))
M('loop var in-place: for G in Y[1:]: G *= 2', lambda: top('props', SZ, "for G in Y[1:]:\n    G *= 2"))
M('loop carried alias: Z=None; for G in Y: (Z[...]=0 if Z) ; Z=G', lambda: top('props', SZ, "Z = None\nfor G in Y:\n    if Z is not None:\n        Z[...] = 0\n    Z = G"))
M('zip/enumerate alias: for k,(a,b) in enumerate(zip(Y,Y)): a[0]=0', lambda: top('props', SZ, "for k, (a, b) in enumerate(zip(Y, Y)):\n    a[0] = 0"))
M('view chain: Q = Y[0].reshape(-1).T[::2]; Q -= 1', lambda: top('props', SZ, "Q = Y[0].reshape(-1).T[::2]\nQ -= 1"))
M('np.array(copy=False) write', lambda: top('props', SZ, "Q = np.array(Y[0], copy=False)\nQ[0] = 1"))
M('closure writes captured param', lambda: top('props', SZ, "def g():\n    Y[0][0] = 1\ng()"))
M('QUIET cdf_getter closure captures only fresh arrays (np.r_ copies)', lambda: edit('stat', 'x = np.array(x, copy=True)\n    x.sort()', 'x = np.asarray(x)'), expect='quiet')
M('try/except alias write', lambda: top('props', SZ, "try:\n    Z = Y[0]\nexcept Exception:\n    Z = np.zeros(3)\nZ[0] = 1"))
M('np.abs(Q, out=Q) on param view', lambda: top('props', SZ, "Q = Y[0][0]\nnp.abs(Q, out=Q)"))
M('result list contains param core: return [Y[0]] + Z (tt_to_qtt)', lambda: edit('act_one', "        Z.extend(teneva.core_tt_to_qtt(G, e, r))\n    return Z", "        Z.extend(teneva.core_tt_to_qtt(G, e, r))\n    return [Y[0]] + Z"))
M('result tuple item aliases param (optima_tt returns Y[0])', lambda: edit('optima', "        return i1, y1, i2, y2\n    else:", "        return i1, Y[0], i2, y2\n    else:"))
M('setitem of list param via alias of alias', lambda: top('props', SZ, "A = Y\nB = A\nB[0] = None"))
M('del Y[0]', lambda: top('props', SZ, "del Y[0]"))
M('Y += [x] (list in-place concat)', lambda: top('props', SZ, "Y += [None]"))
M('Y.sort()/reverse', lambda: top('props', SZ, "Y.reverse()"))
M('np.copyto(dst=param)', lambda: top('props', SZ, "np.copyto(Y[0], 0)"), expect='unsupported')
M('np.put / np.fill_diagonal unknown -> unsupported', lambda: top('props', SZ, "np.fill_diagonal(Y[0][0], 0)"), expect='unsupported')
M('ANOVA_func writes retained training array', lambda: edit('anova_func', "        y0 = np.mean(self.y_trn)", "        self.y_trn[0] = 0\n        y0 = np.mean(self.y_trn)"))
M('ANOVA retains I_trn (self.I = I_trn)', lambda: edit('anova', "        self.d = I_trn.shape[1]", "        self.d = I_trn.shape[1]\n        self.I_keep = I_trn"))
M('generator from global: rand = np.random (module as generator)', lambda: edit('sample', "    rand = teneva._rand(seed)\n\n    I = np.vstack", "    rand = np.random\n\n    I = np.vstack"))
M('np.random.RandomState() global-free but entropy', lambda: edit('sample', "    rand = teneva._rand(seed)\n\n    I = np.vstack", "    rand = np.random.RandomState()\n\n    I = np.vstack"))
M('from numpy.random import rand (import alias)', lambda: edit('tensors', "import numpy as np\n", "import numpy as np\nfrom numpy.random import rand as _r\n") or edit('tensors', "    d = len(n)\n    s = abs(v) / v", "    d = len(n)\n    v = v + 0 * _r()\n    s = abs(v) / v"))
M('import random; random.random()', lambda: edit('tensors', "import numpy as np\n", "import numpy as np\nimport random\n") or edit('tensors', "    d = len(n)\n    s = abs(v) / v", "    d = len(n)\n    v = v + 0 * random.random()\n    s = abs(v) / v"))
M('seed ignored: rand = teneva._rand(42) (constant seed) [allowed: deterministic]', lambda: edit('sample', "    rand = teneva._rand(seed)\n\n    I = np.vstack", "    rand = teneva._rand(42)\n\n    I = np.vstack"), expect='quiet')
M('default dict written but never reset (cache_to_data writes cache)', lambda: edit('data', "    I_data = np.array([i for i in cache.keys()], dtype=int)", "    cache['n'] = cache.get('n', 0) + 1\n    I_data = np.array([i for i in cache.keys()], dtype=int)"))
M('mutable default list mutated (_find_poly_max clip.append)', lambda: edit('optima_func', "    if cheb:\n        # in p low power first!!!", "    clip.append(0)\n    if cheb:\n        # in p low power first!!!"))
M('time.time() into result', lambda: edit('props', "import numpy as np\n", "import numpy as np\nimport time\n") or edit('props', "    return np.sum([G.size for G in Y])", "    return np.sum([G.size for G in Y]) + time.time()"))
M('os.environ read', lambda: edit('props', "import numpy as np\n", "import numpy as np\nimport os\n") or edit('props', "    return np.sum([G.size for G in Y])", "    return np.sum([G.size for G in Y]) + len(os.environ)"), expect='unsupported')
M('QUIET shallow copy then replace: Z=list(Y); Z[0]=Z[0]*2', lambda: top('props', SZ, "Z = list(Y)\nZ[0] = Z[0] * 2"), expect='quiet')
M('QUIET fresh temp in-place: Q = Y[0] + 0; Q *= 2', lambda: top('props', SZ, "Q = Y[0] + 0\nQ *= 2"), expect='quiet')
M('QUIET fancy copy write: Q = Y[0][[0, 1]]; Q[0] = 1', lambda: top('props', SZ, "Q = Y[0][[0, 1]]\nQ[0] = 1"), expect='quiet')
M('QUIET boolean-mask copy write: Q = Y[0][Y[0] > 0]; Q[:] = 1', lambda: top('props', SZ, "Q = Y[0][Y[0] > 0]\nQ[:] = 1"), expect='quiet')
M('QUIET scalar from 3-D core: x = Y[0][0, 0, 0]; x += 1', lambda: top('props', SZ, "x = Y[0][0, 0, 0]\nx += 1"), expect='quiet')
M('QUIET np.matmul / np.einsum rewrite (mean)', lambda: edit('act_one', "Z = Z @ np.einsum('rmq,m->rq', Y[i], p)", "Z = np.matmul(Z, np.tensordot(Y[i], p, axes=([1], [0])))"), expect='quiet')
M('QUIET astype/flatten/tolist copies', lambda: top('props', SZ, "Q = Y[0].astype(float)\nQ[0] = 1\nR = Y[0].flatten()\nR[0] = 1"), expect='quiet')
M('helper arg not fresh: als._optimize_core b = y_trn (no fancy copy)', lambda: edit('als', "        b = y_trn[idx]\n\n        if update_sol is None:", "        b = y_trn\n\n        if update_sol is None:"))
M('full: loop may be empty (for G in Y[2:]) -> view of Y[0]', lambda: edit('transformation', "    for G in Y[1:]:\n        Z = np.tensordot", "    for G in Y[2:]:\n        Z = np.tensordot"))
M('shallow list copy then in-place on element: Z = Y.copy(); Z[0] *= 2', lambda: top('props', SZ, "Z = Y.copy()\nZ[0] *= 2"))
M('slice copy then write element: Z = Y[:]; Z[0][...] = 0', lambda: top('props', SZ, "Z = Y[:]\nZ[0][...] = 0"))
M('list(Y) then Z[1] += 1', lambda: top('props', SZ, "Z = list(Y)\nZ[1] += 1"))
M('get: return Q (1-D view) when loop skipped: range(2, d)', lambda: edit('act_one', "    for k in range(1, d):\n        Q = Q @ Y[k][:, i[k], :]\n\n    return Q[0] if _to_item else Q", "    for k in range(2, d):\n        Q = Q @ Y[k][:, i[k], :]\n\n    return Q if _to_item else Q"))
M('einsum single operand view returned (core_qtt_to_tt)', lambda: edit('core', "    G = Q_list[0].copy()", "    G = np.einsum('ijk->ikj', Q_list[0])"))
M('interface: phi[k] /= on param when phi = Y', lambda: edit('act_one', "    phi = [None] * (d+1)\n    phi[-1] = np.ones(1)\n\n    if ltr:", "    phi = list(Y) + [None]\n    phi[-1] = np.ones(1)\n    phi[0] /= 2\n\n    if ltr:"))
M('cross: info read before update (if info.get("stop"))', lambda: edit('cross', "    _time = tpc()\n    info.update", "    _time = tpc()\n    if info.get('stop'):\n        return Y0\n    info.update"))
M('als_func: nonlocal counter through default list arg', lambda: edit('func', "def func_sum(A, a, b, kind='cheb'):", "def func_sum(A, a, b, kind='cheb', _calls=[]):") or edit('func', "    assert kind in ['cheb', 'sin']\n\n    d = len(A)\n    n = teneva.shape(A)\n    n_max", "    assert kind in ['cheb', 'sin']\n    _calls.append(1)\n\n    d = len(A)\n    n = teneva.shape(A)\n    n_max"))
M('generator stored globally: rand = _GEN (module-level generator)', lambda: edit('sample', "import teneva\n", "import teneva\n_GEN = np.random.default_rng(0)\n", 1) or edit('sample', "    rand = teneva._rand(seed)\n\n    I = np.vstack", "    rand = _GEN\n\n    I = np.vstack"))
M('cross: stale key removed by a pop statement (pure removal, nothing read)', lambda: edit('cross', "    _time = tpc()\n    info.update", "    _time = tpc()\n    info.pop('left_over', None)\n    info.update"), 'quiet')
M('cross: popped leftover value used (read before written)', lambda: edit('cross', "    _time = tpc()\n    info.update", "    _time = tpc()\n    if info.pop('left_over', None):\n        return Y0\n    info.update"))


def run(only=None, verbose=False, out=print):
    """-> list of (name, expected, got, ok, first findings)"""
    res = []
    try:
        for name, fn, expect in MUTS:
            if only and only not in name:
                continue
            fresh()
            try:
                fn()
            except LookupError as ex:
                res.append((name, expect, 'anchor-missing', None, [str(ex)]))
                out(f'SKIP [anchor-missing] {name}')
                continue
            A = analysis.Analysis(SCR)
            bad = [o for p in ('C09', 'C10') for o in A.obls[p] if o['status'] != 'proved']
            fails = [o for o in bad if o['status'] == 'failed']
            uns = [o for o in bad if o['status'] == 'unsupported']
            got = 'failed' if fails else ('unsupported' if uns else 'quiet')
            ok = got == expect
            res.append((name, expect, got, ok, [f"{o['status']} {o['id']}: {o['detail'][:200]}" for o in (fails + uns)[:3]]))
            out(f'{"OK  " if ok else "MISS"} [{got:11s}] {name}')
            if verbose or not ok:
                for l in res[-1][4]:
                    out('       ' + l)
    finally:
        if SCR:
            shutil.rmtree(SCR, ignore_errors=True)
    return res


if __name__ == '__main__':
    args = [a for a in sys.argv[1:] if not a.startswith('-')]
    r = run(args[0] if args else None, '-v' in sys.argv)
    n_ok = sum(1 for x in r if x[3])
    print(f'# {n_ok} / {len(r)} as expected')
    sys.exit(0 if n_ok == len(r) else 1)
