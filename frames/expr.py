"""frames.expr — abstract evaluation of expressions."""
import ast
from frames.domain import (AV, BOT, NUM, BOOL, STR, NONE, SLICE, FRESHANY, TYPE, ALLK, NOCONST, IMMUT, num, arr,
                           const_av, join, joins, is_site, describe_origin)
from frames import models
from frames.state import src

_ARITH = {ast.Add: lambda a, b: a + b, ast.Sub: lambda a, b: a - b, ast.Mult: lambda a, b: a * b,
          ast.FloorDiv: lambda a, b: a // b, ast.Mod: lambda a, b: a % b, ast.Pow: lambda a, b: a ** b,
          ast.LShift: lambda a, b: a << b}
_CMP = {ast.Eq: lambda a, b: a == b, ast.NotEq: lambda a, b: a != b, ast.Lt: lambda a, b: a < b,
        ast.LtE: lambda a, b: a <= b, ast.Gt: lambda a, b: a > b, ast.GtE: lambda a, b: a >= b}


class ExprMixin:

    def ev(self, e):
        if e is None:
            return NONE
        m = getattr(self, 'ev_' + type(e).__name__, None)
        if m is None:
            self.unsupported(e, f'expression {type(e).__name__}')
            return FRESHANY
        return m(e)

    # ---- atoms
    def ev_Constant(self, e):
        return const_av(e.value)

    def ev_JoinedStr(self, e):
        for v in e.values:
            if isinstance(v, ast.FormattedValue):
                self.ev(v.value)
        return STR

    def ev_FormattedValue(self, e):
        self.ev(e.value)
        return STR

    def ev_Name(self, e):
        return self.lookup(e.id, e)

    def lookup(self, name, node=None):
        env = self.state.env
        if name in env and name not in self.global_decl:
            return env[name]
        for outer in reversed(self.outer_envs):
            if name in outer:
                return outer[name]
        mod = self.mod
        if name in mod.funcs:
            return AV(['func'], fn=[('tf', f'{mod.name}.{name}')])
        if name in mod.classes:
            return AV(['type'], fn=[('cls', mod.name, name)])
        if name in self.local_imports:
            return AV(['func'], fn=[('lib', self.local_imports[name])])
        if name in mod.imports:
            return AV(['func'], fn=[('lib', mod.imports[name])])
        if name in mod.globals:
            ln, val, mut = mod.globals[name]
            self.gstate_access(name, node, 'read')
            if not mut and isinstance(val, ast.Constant):
                return const_av(val.value)
            if not mut:
                return AV(['num', 'str', 'bool', 'none', 'tuple'])
            return AV(ALLK, org=[f'G:{mod.name}.{name}'])
        full = 'builtins.' + name
        if full in models.LIBATTR:
            return models.LIBATTR[full]
        if full in models.FUNCS or name in models.BUILTIN_NAMES:
            return AV(['func'], fn=[('lib', full)])
        self.event('unknown', None, 'name', node, f'name {name!r} is not defined in the analysed scope', soft=True)
        return FRESHANY.but(via=['unknown-callee'])

    def ev_Tuple(self, e):
        items, star = [], False
        for x in e.elts:
            if isinstance(x, ast.Starred):
                star = True
                items.append(self.iter_elem(self.ev(x.value)))
            else:
                items.append(self.ev(x))
        if star:
            return AV(['tuple'], elem=joins(items))
        return AV(['tuple'], items=items, minlen=len(items))

    def ev_List(self, e):
        vals, n = [], 0
        for x in e.elts:
            if isinstance(x, ast.Starred):
                vals.append(self.iter_elem(self.ev(x.value)))
            else:
                vals.append(self.ev(x))
                n += 1
        r = self.new_list(e, joins(vals), minlen=n)
        if n == len(e.elts):
            r = r.but(lo=n)           # exact length of a list literal (shape arguments)
        if vals and all(v.only('num', 'bool') for v in vals):
            r = r.but(ndim=1)
        return r

    def ev_Set(self, e):
        return self.new_list(e, joins(self.ev(x) for x in e.elts), kind='set')

    def ev_Dict(self, e):
        vals, keys = [], []
        for k, v in zip(e.keys, e.values):
            if k is None:
                vals.append(self.elem_of(self.ev(v)))
                keys.append(None)
                continue
            kv = self.ev(k)
            keys.append(kv.const if kv.has_const() else None)
            vals.append(self.ev(v))
        d = self.new_list(e, joins(vals), kind='dict')
        (site,) = tuple(d.org)
        if all(k is not None for k in keys):
            self.literal_keys[site] = tuple(keys)
        self.mark_written(d, [k for k in keys if k is not None], e)
        if any(v.clock for v in vals):
            self.clock_store(e, None)
        return d

    def ev_Slice(self, e):
        for p in (e.lower, e.upper, e.step):
            if p is not None:
                self.ev(p)
        return SLICE

    def ev_Starred(self, e):
        return self.iter_elem(self.ev(e.value))

    def ev_Lambda(self, e):
        return self.make_closure(e, '<lambda>')

    def ev_NamedExpr(self, e):
        v = self.ev(e.value)
        self.assign(e.target, v, e)
        return v

    # ---- operators
    def truth(self, a):
        """True / False when decided, None otherwise."""
        if a.bot:
            return None
        if a.has_const():
            try:
                return bool(a.const)
            except Exception:
                return None
        if a.only('none'):
            return False
        if a.only('func', 'type', 'gen'):
            return True
        if a.only('list', 'tuple') and a.minlen >= 1:
            return True
        if a.only('num') and a.lo is not None and a.lo >= 1:
            return True
        return None

    def ev_BoolOp(self, e):
        is_or = isinstance(e.op, ast.Or)
        acc = BOT
        saved = None
        for i, v in enumerate(e.values):
            a = self.ev(v)
            t = self.truth(a)
            last = i == len(e.values) - 1
            if last:
                acc = join(acc, a)
                break
            if (is_or and t is True) or (not is_or and t is False):
                acc = join(acc, a)
                break
            if t is None:
                acc = join(acc, a)
            # decided the other way: this operand is skipped, evaluation continues
        if self.state is not None and any(v.clock for v in [acc]):
            pass
        return acc

    def ev_UnaryOp(self, e):
        a = self.ev(e.operand)
        if isinstance(e.op, ast.Not):
            t = self.truth(a)
            self.clock_use(a, e, 'a condition')
            return BOOL if t is None else const_av(not t)
        if a.has_const() and isinstance(a.const, (int, float)) and not isinstance(a.const, bool):
            if isinstance(e.op, ast.USub):
                return num(-a.const)
            if isinstance(e.op, ast.UAdd):
                return num(a.const)
        if a.immutable:
            return AV(['num'], clock=a.clock, gen=a.gen)
        return models.ew_result(self, [a])

    def ev_BinOp(self, e):
        a, b = self.ev(e.left), self.ev(e.right)
        return self.binop(e.op, a, b, e)

    def binop(self, op, a, b, node):
        clock = a.clock or b.clock
        gen = a.gen | b.gen
        if isinstance(op, ast.MatMult):
            return self.matmul(a, b)
        # constant folding on integers (ranges, lengths)
        if a.has_const() and b.has_const() and type(op) in _ARITH and all(
                isinstance(x.const, (int, float)) and not isinstance(x.const, bool) for x in (a, b)):
            try:
                return num(_ARITH[type(op)](a.const, b.const))
            except Exception:
                return NUM
        if a.only('num', 'bool') and b.only('num', 'bool'):
            lo = None
            if isinstance(op, ast.Add) and a.lo is not None and b.lo is not None:
                lo = a.lo + b.lo
            elif isinstance(op, ast.Sub) and a.lo is not None and b.has_const() and isinstance(b.const, int):
                lo = a.lo - b.const
            elif isinstance(op, ast.Mult) and a.lo is not None and b.lo is not None and a.lo >= 0 and b.lo >= 0:
                lo = a.lo * b.lo
            return AV(['num'], lo=lo, clock=clock, gen=gen)
        if isinstance(op, ast.Mod) and a.only('str'):
            return STR
        if isinstance(op, ast.Add) and (a.only('str') or b.only('str')):
            return STR
        seqs = ('list', 'tuple')
        if isinstance(op, ast.Add) and a.may(*seqs) and b.may(*seqs) and not (a.may('arr') or b.may('arr')):
            e = join(self.elem_of(a), self.elem_of(b))
            if a.only('tuple') and b.only('tuple'):
                if a.items is not None and b.items is not None and a.elem is None and b.elem is None:
                    return AV(['tuple'], items=a.items + b.items, minlen=len(a.items) + len(b.items))
                return AV(['tuple'], elem=e, minlen=a.minlen + b.minlen)
            r = self.new_list(node, e, minlen=a.minlen + b.minlen)
            if not (a.only(*seqs) and b.only(*seqs)):
                r = join(r, models.ew_result(self, [a, b]))
            return r
        if isinstance(op, ast.Mult) and ((a.may(*seqs) and not a.may('arr') and b.only('num', 'bool')) or
                                         (b.may(*seqs) and not b.may('arr') and a.only('num', 'bool'))):
            s, n = (a, b) if a.may(*seqs) else (b, a)
            e = self.elem_of(s)
            ml = s.minlen * n.lo if (n.lo is not None and n.lo >= 0) else 0
            if s.only('tuple'):
                return AV(['tuple'], elem=e, minlen=ml)
            r = self.new_list(node, e, minlen=ml)
            if not s.only(*seqs):
                r = join(r, models.ew_result(self, [a, b]))
            return r
        if a.may('obj') and a.cls == 'numpy.poly' or b.may('obj') and b.cls == 'numpy.poly':
            return AV(['obj'], cls='numpy.poly')
        if (a.may('list', 'tuple') and (a.is_any)) or (b.may('list', 'tuple') and b.is_any):
            # untyped operands: arithmetic gives a fresh number / array; `+` / `*` on sequences a fresh container
            r = models.ew_result(self, [a, b]).but(clock=clock)
            if isinstance(op, (ast.Add, ast.Mult)):
                e = join(self.elem_of(a) if not a.immutable else BOT, self.elem_of(b) if not b.immutable else BOT)
                r = join(r, self.new_list(node, e))
            return r
        return models.ew_result(self, [a, b]).but(clock=clock)

    def ev_Compare(self, e):
        left = self.ev(e.left)
        res = None
        for op, rn in zip(e.ops, e.comparators):
            right = self.ev(rn)
            r = self.compare1(op, left, right, e)
            res = r if res is None else self._and(res, r)
            left = right
        return res

    @staticmethod
    def _and(a, b):
        if a.has_const() and a.const is False:
            return a
        if b.has_const() and b.const is False:
            return b
        if a.has_const() and b.has_const():
            return const_av(bool(a.const and b.const))
        return join(a.but(const=NOCONST), b.but(const=NOCONST))

    def compare1(self, op, a, b, node):
        self.clock_use(a, node, 'a comparison')
        self.clock_use(b, node, 'a comparison')
        if isinstance(op, (ast.Is, ast.IsNot)):
            neg = isinstance(op, ast.IsNot)
            for x, y in ((a, b), (b, a)):
                if y.only('none'):
                    if x.only('none'):
                        return const_av(not neg)
                    if not x.may('none'):
                        return const_av(neg)
                    return BOOL
            if a.has_const() and b.has_const() and isinstance(a.const, bool) and isinstance(b.const, bool):
                return const_av((a.const is b.const) != neg)
            if a.has_const() and b.has_const() and (a.const is True or b.const is True or a.const is False or b.const is False):
                return const_av((a.const is b.const) != neg)
            if (b.has_const() and isinstance(b.const, bool) and not a.may('bool')) or \
                    (a.has_const() and isinstance(a.const, bool) and not b.may('bool')):
                return const_av(neg)
            return BOOL
        if isinstance(op, (ast.In, ast.NotIn)):
            if b.may('dict') or (b.is_any and b.org):
                self.dict_read(b, a, node, "'in' test")
            if a.has_const() and b.only('list', 'tuple') and b.items is not None and all(i.has_const() for i in b.items):
                r = a.const in [i.const for i in b.items]
                return const_av(r if isinstance(op, ast.In) else not r)
            return BOOL
        if a.has_const() and b.has_const() and type(op) in _CMP:
            try:
                if a.const is None or b.const is None or isinstance(a.const, type) or isinstance(b.const, type):
                    if isinstance(op, (ast.Eq, ast.NotEq)):
                        return const_av(_CMP[type(op)](a.const, b.const))
                else:
                    return const_av(bool(_CMP[type(op)](a.const, b.const)))
            except Exception:
                pass
        if a.immutable and b.immutable:
            # lower-bound reasoning:  d >= 2  =>  d == 0 is False ...
            return BOOL
        if (a.only('list', 'tuple', 'dict', 'str') or a.immutable) and (b.only('list', 'tuple', 'dict', 'str') or b.immutable):
            return BOOL
        r = models.ew_result(self, [a, b])
        if r.only('num'):
            return BOOL
        return AV(r.kinds - {'num'} | ({'bool'} if r.may('num') else set()), ndim=r.ndim)

    def ev_IfExp(self, e):
        t = self.ev(e.test)
        self.clock_use(t, e, 'a condition')
        tv = self.truth(t)
        if tv is True:
            return self.ev(e.body)
        if tv is False:
            return self.ev(e.orelse)
        s0 = self.state
        self.state = s0.copy()
        self.refine(e.test, True)
        a = self.ev(e.body)
        s1 = self.state
        self.state = s0.copy()
        self.refine(e.test, False)
        b = self.ev(e.orelse)
        self.state = s1.join(self.state)
        return join(a, b)

    # ---- comprehensions
    def _comp(self, e, eltfn):
        saved_env = dict(self.state.env)
        nonempty = True
        minlen = None

        def rec(i):
            nonlocal nonempty, minlen
            if i == len(e.generators):
                return eltfn()
            g = e.generators[i]
            it = self.ev(g.iter)
            el = self.iter_elem(it)
            ml = self.minlen_of(it)
            minlen = ml if minlen is None else minlen * ml
            if g.ifs:
                minlen = 0
            res = BOT
            for _ in range(3):
                self.assign(g.target, el, g.target)
                for c in g.ifs:
                    self.ev(c)
                new = join(res, rec(i + 1))
                if new == res:
                    break
                res = new
            return res
        v = rec(0)
        names = set()
        for g in e.generators:
            for n in ast.walk(g.target):
                if isinstance(n, ast.Name):
                    names.add(n.id)
        for n in names:
            if n in saved_env:
                self.state.env[n] = saved_env[n]
            else:
                self.state.env.pop(n, None)
        return v, (minlen or 0)

    def ev_ListComp(self, e):
        v, ml = self._comp(e, lambda: self.ev(e.elt))
        r = self.new_list(e, v, minlen=ml)
        if v.only('num', 'bool'):
            r = r.but(ndim=1)
        return r

    def ev_SetComp(self, e):
        v, ml = self._comp(e, lambda: self.ev(e.elt))
        return self.new_list(e, v, kind='set')

    def ev_GeneratorExp(self, e):
        v, ml = self._comp(e, lambda: self.ev(e.elt))
        return AV(['tuple'], elem=v, minlen=ml, cls='iter')

    def ev_DictComp(self, e):
        v, ml = self._comp(e, lambda: (self.ev(e.key), self.ev(e.value))[1])
        return self.new_list(e, v, kind='dict')

    # ---- attributes
    def ev_Attribute(self, e):
        base = self.ev(e.value)
        return self.getattr_(base, e.attr, e)

    def getattr_(self, base, attr, node):
        parts = []
        libs = [t for t in base.fn if t[0] == 'lib']
        if libs and base.only('func', 'type'):
            for t in libs:
                parts.append(self.lib_attr(t[1], attr, node))
            return joins(parts)
        if base.may('obj') and base.cls and base.cls.startswith('teneva:'):
            parts.append(self.obj_attr(base, attr, node))
            if base.only('obj'):
                return joins(parts)
        if attr in models.ARR_ATTR and (base.may('arr', 'num') or base.is_any):
            rule, fn = models.ARR_ATTR[attr]
            models.USED.add(f'.{attr} [{rule}]')
            parts.append(fn(self, base))
            if attr in ('real', 'imag') and base.may('num'):
                parts.append(NUM)
            if base.only('arr', 'num', 'bool'):
                return joins(parts)
        if base.may('obj') and base.cls == 'numpy.poly':
            parts.append(AV(['arr', 'num', 'func']))
            return joins(parts)
        if base.may('obj') and base.cls == 'exception':
            return FRESHANY
        if base.is_any or base.may('obj'):
            # attribute of an untyped object: anything reachable from it
            parts.append(AV(ALLK, org=[o if is_site(o) else (o if o.startswith(('S:', 'G:')) else 'E:' + o[2:]) for o in base.org],
                            via=base.via))
            if not base.org:
                parts.append(FRESHANY)
            return joins(parts)
        if parts:
            return joins(parts)
        self.unsupported(node, f'attribute .{attr} of a value of kind {sorted(base.kinds)}')
        return FRESHANY

    def lib_attr(self, dotted, attr, node):
        full = f'{dotted}.{attr}'
        if dotted == 'teneva':
            r = self.A.pkg.resolve_export(attr)
            if r is None:
                self.unknown(node, f'teneva.{attr} is not exported by teneva/__init__.py')
                return FRESHANY.but(via=['unknown-callee'])
            if r[0] == 'func':
                return AV(['func'], fn=[('tf', r[1].key)])
            return AV(['type'], fn=[('cls', r[1], r[2])])
        if full in models.LIBATTR:
            return models.LIBATTR[full]
        if full.startswith('numpy.random.') and full not in models.RNG_OK:
            self.event('rng', 'global', attr, node,
                       f'{src(node)} refers to the global NumPy generator (numpy.random.{attr})')
            return AV(['func'], fn=[('globalrng', full)])
        if dotted == 'random' and attr not in ('Random', 'SystemRandom'):
            self.event('rng', 'global', attr, node, f'{src(node)} refers to the global generator of the stdlib random module')
            return AV(['func'], fn=[('globalrng', full)])
        root = full.split('.')[0]
        if root not in models.KNOWN_ROOTS:
            self.event('unknown', None, 'name', node,
                       f'{src(node)}: module {root} is outside the modelled libraries (ambient state / unknown effects)', soft=True)
        return AV(['func'], fn=[('lib', full)])

    # ---- subscripts
    def ev_Subscript(self, e):
        base = self.ev(e.value)
        return self.subscript(base, e.slice, e)

    def index_parts(self, sl):
        """-> list of (tag, AV): tag in int / slice / none / ellipsis / fancy / unknown"""
        elts = sl.elts if isinstance(sl, ast.Tuple) else [sl]
        out = []
        for p in elts:
            if isinstance(p, ast.Slice):
                self.ev(p)
                out.append(('slice', SLICE))
                continue
            v = self.ev(p)
            if v.has_const() and v.const is None:
                out.append(('none', v))
            elif v.has_const() and v.const is Ellipsis:
                out.append(('ellipsis', v))
            elif v.only('num', 'bool'):
                out.append(('int', v))
            elif v.only('slice'):
                out.append(('slice', v))
            elif v.only('arr', 'list') or (v.only('arr', 'list', 'tuple') and v.cls in ('range', 'iter')) or (v.only('tuple') and v.cls == 'range'):
                out.append(('fancy', v))
            elif v.only('arr', 'list', 'num', 'bool'):
                out.append(('intfancy', v))
            else:
                out.append(('unknown', v))
        return out

    def subscript(self, base, sl, node):
        parts = self.index_parts(sl)
        if not isinstance(sl, ast.Tuple) and parts[0][0] == 'unknown' and parts[0][1].only('tuple'):
            parts = [('unknown', parts[0][1])]
        res = []
        tags = [t for t, _ in parts]
        single = len(parts) == 1
        key = parts[0][1] if single else AV(['tuple'])
        if base.may('str'):
            res.append(STR)
        if base.may('dict'):
            self.dict_read(base, key, node, 'subscript')
            res.append(self.elem_of(base.but(kinds=['dict'], items=None, elem=None)))
        if base.may('tuple') or base.may('list'):
            sub = base.but(kinds=base.kinds & {'tuple', 'list'})
            if single and tags[0] == 'int':
                c = key.const if key.has_const() else None
                if sub.items is not None and sub.elem is None and isinstance(c, int) and -len(sub.items) <= c < len(sub.items):
                    res.append(sub.items[c])
                else:
                    res.append(self.elem_of(sub))
            elif single and tags[0] == 'slice':
                res.append(self.slice_seq(sub, sl, node))
            else:
                res.append(self.elem_of(sub))
                if single and tags[0] != 'int':
                    res.append(self.slice_seq(sub, sl, node))
        if base.may('arr') or (base.is_any and not base.only('obj')):
            res.append(self.subscript_arr(base, parts, node))
        if base.may('obj') and base.cls and base.cls.startswith('teneva:'):
            res.append(self.call_method_contract(base, '__getitem__', [key], {}, node))
        elif base.may('obj') and base.cls in ('numpy.index', ):
            res.append(arr(None))
        elif base.may('obj') or base.is_any:
            res.append(self.elem_of(base.but(kinds=['obj'])))
            if not base.org:
                res.append(FRESHANY)
        libs = [t for t in base.fn if t[0] == 'lib']
        for t in libs:
            if t[1] in ('numpy.r_', 'numpy.c_'):
                models.USED.add(f'{t[1]}[...] [fresh]')
                res.append(arr(None))
            elif t[1] in ('numpy.s_', 'numpy.index_exp'):
                res.append(SLICE)
            elif t[1] == 'numpy.ix_':
                res.append(AV(['tuple'], elem=arr(None)))
        r = joins(res)
        if r.bot:
            return NUM if base.only('num', 'bool') else FRESHANY
        return r

    def slice_seq(self, sub, sl, node):
        """list / tuple slice: a new sequence holding the same elements"""
        e = self.elem_of(sub)
        ml = sub.minlen
        if isinstance(sl, ast.Slice):
            def c(x):
                if x is None:
                    return None
                v = self.ev(x)
                return v.const if (v.has_const() and isinstance(v.const, int)) else '?'
            lo, up, st = c(sl.lower), c(sl.upper), c(sl.step)
            if st in (None, 1, -1):
                if lo is None and up is None:
                    pass
                elif up is None and isinstance(lo, int) and lo >= 0:
                    ml = max(0, ml - lo)
                elif lo is None and isinstance(up, int) and up < 0:
                    ml = max(0, ml + up)
                elif lo is None and isinstance(up, int) and up >= 0:
                    ml = min(ml, up)
                else:
                    ml = 0
            else:
                ml = 0
            if sub.only('tuple') and sub.items is not None and sub.elem is None and all(isinstance(x, int) or x is None for x in (lo, up, st)):
                its = sub.items[slice(lo, up, st)]
                return AV(['tuple'], items=its, minlen=len(its))
        else:
            ml = 0
        if sub.only('tuple'):
            return AV(['tuple'], elem=e, minlen=ml)
        r = self.new_list(node, e, minlen=ml, tag='slice')
        return r if sub.only('list') else join(r, AV(['tuple'], elem=e, minlen=ml))

    def subscript_arr(self, base, parts, node):
        tags = [t for t, _ in parts]
        nint = tags.count('int')
        nnone = tags.count('none')
        nd = base.ndim
        ext = self._ext(base.org)
        objelem = self.elem_of(base.but(kinds=['arr'])) if base.objarr else BOT
        definite_fancy = 'fancy' in tags
        maybe_fancy = 'intfancy' in tags
        unknown = 'unknown' in tags
        out = []
        if definite_fancy and not unknown:
            models.USED.add('A[index array / list / mask] (fancy indexing) [fresh]')
            fnd = None
            fcs = [v for t, v in parts if t == 'fancy']
            if nd is not None and len(fcs) == 1 and fcs[0].ndim == 1 and 'ellipsis' not in tags:
                fnd = nd - nint + nnone
            r = AV(['arr'], ndim=fnd)
            if base.objarr:
                r = self.new_objarr(node, objelem)
            out.append(r)
            if base.objarr and nd is not None and len(parts) >= nd and 'slice' not in tags:
                out.append(objelem)
            return joins(out)
        # basic indexing (possibly joined with the fancy outcome below)
        models.USED.add('A[int / slice / None / ...] (basic indexing) [view-of(recv)]')
        scalar_possible = True
        rnd = None
        if nd is not None:
            if 'ellipsis' in tags or 'slice' in tags:
                rnd = nd - nint + nnone - tags.count('intfancy')
                scalar_possible = False
                if rnd < 0:
                    rnd = None
            else:
                rnd = nd - nint + nnone
                scalar_possible = (rnd <= 0 and nnone == 0)
                if maybe_fancy or unknown:
                    scalar_possible = (nd - len(parts) + nnone) <= 0 and nnone == 0
                    rnd = None
        definitely_scalar = (nd is not None and 'ellipsis' not in tags and 'slice' not in tags and nnone == 0
                             and not maybe_fancy and not unknown and nint >= nd)
        if definitely_scalar:
            return join(NUM.but(clock=base.clock), objelem) if base.objarr else NUM.but(clock=base.clock)
        v = AV(['arr'], org=base.org, ndim=rnd if not (maybe_fancy or unknown) else None, objarr=base.objarr,
               via=base.via | ({'basic indexing'} if ext else set()))
        if maybe_fancy and not unknown:
            # every index is an integer or an index array: integer -> number or view, array -> copy
            allidx = all(t in ('int', 'intfancy') for t in tags)
            if nd is not None and allidx and len(parts) >= nd:
                out.append(join(NUM, AV(['arr'])))       # scalar or fancy copy: never a view
                if base.objarr:
                    out.append(objelem)
                return joins(out)
            out.append(AV(['arr']))
        out.append(v)
        if 'ellipsis' in tags or 'slice' in tags or nnone:
            scalar_possible = False
        if scalar_possible:
            out.append(NUM)
        if base.objarr:
            out.append(objelem)
        return joins(out)
