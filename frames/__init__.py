"""frames — modular, contract-based alias / mutation / effect analysis of the real teneva source (DESIGN.md 1.3).

  domain.py     typed abstract values (kinds, origins, ndim, constants, generator provenance), type descriptors
  extract.py    reads $VERIF_REPO/teneva with `ast` on every run (functions, classes, import tables, module state)
  state.py      abstract state: environment + abstract heap (allocation sites) + must-written dict keys; events
  expr.py / stmt.py / calls.py / interp.py   flow-sensitive abstract interpreter of one function x contract case
  models.py     alias / effect rules of NumPy / SciPy / stdlib callables (assumption A-NP)
  contract.py   contract / case classes; the declarations are in /verif/contracts/frames_contracts.py
  analysis.py   obligations for C09 / C10, results(), meta(), run(U, prop), command line
  spotcheck.py  executes the alias rules on real NumPy arrays of several layouts
  selftest.py   catalogue of property-breaking and harmless edits with the expected verdicts
"""
