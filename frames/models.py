"""frames.models — alias / effect rules of the NumPy / SciPy / stdlib callables used by teneva (assumption A-NP).

Every entry states ONE rule (the `rule` string is what the spot-check and the evidence quote):

  fresh              result shares memory with no argument
  view-of(k)         result is a view of argument k (shares its buffer)
  may-view-of(k)     result may or may not share the buffer of argument k (treated as sharing)
  elem-of(k)         result is (or contains references to) elements stored in container k
  writes(k)          overwrites the buffer / contents of argument k
  draws(recv)        consumes random numbers from the receiver generator
  reads-global-rng   touches the process-wide NumPy generator
  entropy            seeds from the operating system
  reads-clock        reads the wall clock
  io                 prints / reads / writes files

Synonyms (np.dot / np.matmul / `@`;  np.copy / .copy();  np.transpose / .T / .transpose();  hstack / concatenate)
map to the same rule, so harmless rewrites keep the analysis inside its supported subset.
Keyword effects handled uniformly for every library callable: `out=` (writes(out), result is out),
`overwrite_a / overwrite_b / overwrite_x = True` (writes that positional argument).
"""
import builtins as _b
from frames.domain import (AV, BOT, NUM, BOOL, STR, NONE, FRESHANY, TYPE, ALLK, NOCONST, IMMUT, num, arr, const_av,
                           join, joins)

USED = set()          # model names used in the current run (for the evidence)


class Model:
    def __init__(self, name, rule, fn, note=''):
        self.name, self.rule, self.fn, self.note = name, rule, fn, note


FUNCS = {}      # canonical dotted name -> Model
METHODS = {}    # method name -> list of (receiver kinds, Model)
ATTRS = {}      # attribute name on arrays etc. -> (receiver kinds, rule, fn)
LIBATTR = {}    # canonical dotted name of a library constant / type -> AV


def F(names, rule, fn, note=''):
    for n in names.split():
        FUNCS[n] = Model(n, rule, fn, note)


def M(names, kinds, rule, fn, note=''):
    for n in names.split():
        METHODS.setdefault(n, []).append((frozenset(kinds.split('|')), Model('.' + n, rule, fn, note)))


# ------------------------------------------------------------------------------------------------
# helpers.  Handler signature: fn(cx, node, args, kw) -> AV ; for methods fn(cx, node, recv, args, kw).
# `cx` is the interpreter (see frames.interp.Interp): cx.elem_of, cx.new_list, cx.write_buf, cx.write_cont ...

def arg(args, kw, i, name=None, default=None):
    if i is not None and i < len(args):
        return args[i]
    if name is not None and name in kw:
        return kw[name]
    return default


def kconst(kw, name, default=NOCONST):
    v = kw.get(name)
    if v is None:
        return default
    return v.const


def shape_ndim(cx, s):
    """ndim of an array created with shape argument s."""
    if s is None:
        return None
    if s.only('num', 'bool'):
        return 1
    if s.only('tuple', 'list') and s.items is not None and s.elem is None:
        return len(s.items)
    if s.only('list') and s.lo is not None:
        return s.lo
    if s.only('tuple', 'list'):
        n = cx.static_len(s)
        return n
    return None


def is_obj_dtype(kw, args=(), pos=None):
    d = kw.get('dtype')
    if d is None and pos is not None and pos < len(args):
        d = args[pos]
    return d is not None and d.const is object


def maybe_obj_dtype(kw, args=(), pos=None):
    d = kw.get('dtype')
    if d is None and pos is not None and pos < len(args):
        d = args[pos]
    if d is None:
        return False
    if d.const is NOCONST:
        return not d.only('type') or True
    return d.const is object


def elementwise(*idx):
    """ufunc-like: num in -> num out, array in -> fresh array."""
    def fn(cx, node, args, kw):
        xs = [a for a in args] + [v for k, v in kw.items() if k not in ('out', 'where', 'dtype', 'axis')]
        return ew_result(cx, xs)
    return fn


def ew_result(cx, xs):
    if xs and all(x.only('num', 'bool', 'none') for x in xs):
        return NUM
    nd = None
    known = True
    anyarr = False
    for x in xs:
        if x.may('arr', 'list', 'tuple') or x.is_any:
            anyarr = True
            if x.ndim is None:
                known = False
            else:
                nd = x.ndim if nd is None else max(nd, x.ndim)
        elif not x.immutable:
            known = False
    definite = any(x.only('arr') or x.only('arr', 'list', 'tuple') for x in xs)
    kinds = ['arr'] if definite else ['arr', 'num']
    clock = any(x.clock for x in xs)
    return AV(kinds, ndim=nd if (known and anyarr) else None, clock=clock)


def fresh_arr(ndim_fn=None):
    def fn(cx, node, args, kw):
        nd = ndim_fn(cx, args, kw) if ndim_fn else None
        return arr(nd)
    return fn


def same_ndim(i=0):
    return lambda cx, args, kw: args[i].ndim if i < len(args) else None


def reduction(cx, node, args, kw, recv=None):
    """sum / max / min / mean / prod / any / all / argmax ...: a number without axis, a fresh array with axis."""
    x = recv if recv is not None else arg(args, kw, 0, 'a', BOT)
    ax = arg(args, kw, 1 if recv is None else 0, 'axis')
    res = NUM
    if ax is not None and ax.const is not None:
        nd = x.ndim - 1 if (x.ndim is not None and ax.only('num')) else None
        if nd == 0:
            res = NUM
        else:
            res = AV(['arr'] if (x.ndim is not None and x.ndim >= 2) else ['arr', 'num'], ndim=nd)
    elif x.ndim is None and not x.only('arr', 'list', 'tuple', 'num', 'bool'):
        res = AV(['num', 'arr'])
    if x.objarr:
        # reductions over object arrays / lists of objects may hand back one of the elements
        e = cx.elem_of(x)
        if not e.immutable:
            res = join(res, cx.as_fresh_unless_shared(e))
    return res


def view_of(i=0, ndim_fn=None, label=None):
    def fn(cx, node, args, kw):
        x = arg(args, kw, i, 'a', BOT)
        return cx.view(x, ndim_fn(cx, x, args, kw) if ndim_fn else None, label or cx.callname(node))
    return fn


def may_view_of(i=0, ndim_fn=None, label=None, argname='a'):
    def fn(cx, node, args, kw):
        x = arg(args, kw, i, argname, BOT)
        return cx.view(x, ndim_fn(cx, x, args, kw) if ndim_fn else None, label or cx.callname(node), may=True)
    return fn


def reshape_ndim(start):
    def fn(cx, x, args, kw):
        rest = args[start:]
        if 'shape' in kw or 'newshape' in kw:
            rest = [kw.get('shape', kw.get('newshape'))]
        if not rest:
            return None
        if len(rest) == 1:
            return shape_ndim(cx, rest[0])
        if all(r.only('num', 'bool') for r in rest):
            return len(rest)
        return None
    return fn


def tuple_of(*parts):
    def fn(cx, node, args, kw):
        return AV(['tuple'], items=[p if isinstance(p, AV) else p(cx, node, args, kw) for p in parts],
                  minlen=len(parts))
    return fn


# ------------------------------------------------------------------------------------------------
# numpy: creation (fresh)

def _create(cx, node, args, kw):
    nd = shape_ndim(cx, arg(args, kw, 0, 'shape'))
    if is_obj_dtype(kw, args, None) or (len(args) >= 2 and args[1].const is object):
        return cx.new_objarr(node, BOT, ndim=nd)
    return arr(nd)


F('numpy.zeros numpy.ones numpy.empty', 'fresh', _create)
F('numpy.full', 'fresh', _create)
F('numpy.eye numpy.identity', 'fresh', lambda cx, n, a, k: arr(2))
F('numpy.arange numpy.linspace numpy.logspace', 'fresh', lambda cx, n, a, k: arr(1))
F('numpy.zeros_like numpy.ones_like numpy.empty_like numpy.full_like', 'fresh',
  lambda cx, n, a, k: arr(a[0].ndim if a else None))


def _np_array(cx, node, args, kw):
    x = arg(args, kw, 0, 'object', BOT)
    cp = kconst(kw, 'copy', True)
    nd = x.ndim
    if nd is None and x.only('list', 'tuple'):
        e = cx.elem_of(x)
        if e.only('num', 'bool'):
            nd = 1
        elif e.only('list', 'tuple') and cx.elem_of(e).only('num', 'bool'):
            nd = 2
    if x.only('num', 'bool'):
        nd = 0
    if is_obj_dtype(kw):
        # an object array keeps REFERENCES to the (nested) elements of its argument
        e = cx.deep_elems(x)
        return cx.new_objarr(node, e, ndim=None)
    if cp is True:
        return arr(nd)
    # copy=False / copy=None / unknown flag: behaves like asarray
    return cx.view(x, nd, 'np.array(copy=False)', may=True, arraylike=True)


F('numpy.array', 'fresh (copy=True default) | may-view-of(0) with copy=False/None | elem-of(0) with dtype=object',
  _np_array)


def _asarray(cx, node, args, kw):
    x = arg(args, kw, 0, 'a', BOT)
    if is_obj_dtype(kw):
        return join(cx.view(x, x.ndim, cx.callname(node), may=True, arraylike=True),
                    cx.new_objarr(node, cx.deep_elems(x), ndim=None))
    return cx.view(x, x.ndim if not x.only('num', 'bool') else 0, cx.callname(node), may=True, arraylike=True)


F('numpy.asarray numpy.asanyarray numpy.ascontiguousarray numpy.asfortranarray numpy.atleast_1d numpy.atleast_2d '
  'numpy.require', 'may-view-of(0)', _asarray)
F('numpy.copy', 'fresh', lambda cx, n, a, k: cx.copy_of(arg(a, k, 0, 'a', BOT), n))

# numpy: shape manipulation
F('numpy.reshape', 'may-view-of(0)', may_view_of(0, reshape_ndim(1)))
F('numpy.ravel', 'may-view-of(0)', may_view_of(0, lambda cx, x, a, k: 1))
F('numpy.squeeze', 'view-of(0)', view_of(0))
F('numpy.transpose numpy.swapaxes numpy.moveaxis numpy.rollaxis', 'view-of(0)', view_of(0, lambda cx, x, a, k: x.ndim))
F('numpy.flipud numpy.fliplr numpy.flip numpy.rot90', 'view-of(0)', view_of(0, lambda cx, x, a, k: x.ndim))
F('numpy.expand_dims', 'view-of(0)', view_of(0, lambda cx, x, a, k: None if x.ndim is None else x.ndim + 1))
F('numpy.broadcast_to', 'view-of(0)', view_of(0))
F('numpy.real numpy.imag', 'may-view-of(0)', may_view_of(0, lambda cx, x, a, k: x.ndim, argname='val'))


def _diag(cx, node, args, kw):
    x = arg(args, kw, 0, 'v', BOT)
    if x.ndim == 1 or x.only('list', 'tuple'):
        return arr(2)
    if x.ndim == 2:
        return cx.view(x, 1, 'np.diag')
    return cx.view(x, None, 'np.diag', may=True)


F('numpy.diag', 'fresh for 1-D input | view-of(0) for 2-D input', _diag)
F('numpy.diagonal', 'view-of(0)', view_of(0))

# numpy: fresh results
def _concat(cx, node, args, kw):
    e = cx.iter_elem(args[0]) if args else BOT
    nd = e.ndim if (e.only('arr') or e.only('arr', 'list', 'tuple')) else None
    if n_is(node, 'vstack') and nd is not None:
        nd = max(2, nd)
    if n_is(node, 'stack', 'dstack', 'column_stack', 'block'):
        nd = None
    return arr(nd)


F('numpy.concatenate numpy.hstack numpy.vstack numpy.stack numpy.dstack numpy.column_stack numpy.block', 'fresh',
  _concat)
def _einsum(cx, node, args, kw):
    nd = None
    if args and args[0].has_const() and isinstance(args[0].const, str):
        s = args[0].const.replace(' ', '')
        if '...' not in s:
            if '->' in s:
                nd = len(s.split('->')[1])
            else:
                ins = s.split(',')
                letters = ''.join(ins)
                nd = len([c for c in sorted(set(letters)) if letters.count(c) == 1])
    ops = [a for a in args[1:]] if (args and args[0].only('str')) else list(args)
    if len(ops) <= 1:
        # a single operand without summation is returned as a VIEW (transposition / diagonal / identity)
        x = ops[0] if ops else BOT
        return cx.view(x, nd, 'einsum of a single operand', may=True)
    return arr(nd) if nd != 0 else AV(['arr', 'num'], ndim=0)


F('numpy.einsum opt_einsum.contract', 'fresh with >= 2 operands | may-view-of(1) with a single operand', _einsum)
F('numpy.kron', 'fresh', lambda cx, n, a, k: arr(max(a[0].ndim, a[1].ndim) if (len(a) == 2 and a[0].ndim is not None and a[1].ndim is not None) else None))
F('numpy.outer', 'fresh', lambda cx, n, a, k: arr(2))
F('numpy.tensordot numpy.tile numpy.repeat numpy.cross', 'fresh', fresh_arr())


def _matmul(cx, node, args, kw):
    a, b = arg(args, kw, 0, 'a', BOT), arg(args, kw, 1, 'b', BOT)
    return cx.matmul(a, b)


F('numpy.dot numpy.matmul numpy.inner', 'fresh', _matmul)
F('numpy.abs numpy.absolute numpy.sqrt numpy.cos numpy.sin numpy.tan numpy.arccos numpy.arcsin numpy.exp numpy.log '
  'numpy.log2 numpy.log10 numpy.rint numpy.floor numpy.ceil numpy.sign numpy.isinf numpy.isnan numpy.isfinite '
  'numpy.maximum numpy.minimum numpy.power numpy.add numpy.subtract numpy.multiply numpy.divide numpy.conj '
  'numpy.square numpy.negative numpy.mod numpy.logical_and numpy.logical_or numpy.logical_not numpy.round '
  'numpy.around numpy.float_power numpy.arctan numpy.arctan2 numpy.cosh numpy.sinh numpy.tanh numpy.angle',
  'fresh', elementwise())
F('numpy.clip', 'fresh', lambda cx, n, a, k: ew_result(cx, a[:1]))
F('numpy.where', 'fresh', lambda cx, n, a, k: (AV(['tuple'], elem=arr(1), minlen=1) if len(a) == 1
                                               else ew_result(cx, a[1:] + a[:1]).but(kinds=['arr'])))
F('numpy.nonzero numpy.unravel_index', 'fresh', lambda cx, n, a, k: AV(['tuple'], elem=AV(['arr', 'num']), minlen=1))
F('numpy.ravel_multi_index', 'fresh', lambda cx, n, a, k: AV(['arr', 'num']))
F('numpy.divmod', 'fresh', lambda cx, n, a, k: AV(['tuple'], items=[ew_result(cx, a), ew_result(cx, a)], minlen=2))
F('numpy.cumsum numpy.cumprod', 'fresh', fresh_arr())
F('numpy.argsort numpy.sort numpy.unique numpy.searchsorted numpy.interp numpy.polyder numpy.polyval numpy.diff '
  'numpy.roll numpy.delete numpy.insert numpy.append numpy.take numpy.choose numpy.trapz numpy.gradient '
  'numpy.triu numpy.tril numpy.histogram numpy.bincount numpy.digitize numpy.convolve numpy.polyfit numpy.polymul',
  'fresh', lambda cx, n, a, k: AV(['arr', 'num']) if n_is(n, 'searchsorted', 'interp', 'polyval')
  else arr(a[0].ndim if (a and n_is(n, 'argsort', 'sort', 'roll')) else None))
F('numpy.meshgrid', 'fresh', lambda cx, n, a, k: cx.new_list(n, arr(None), tag='meshgrid', kind='tuple'))
F('numpy.sum numpy.max numpy.min numpy.amax numpy.amin numpy.mean numpy.prod numpy.std numpy.var numpy.median '
  'numpy.any numpy.all numpy.argmax numpy.argmin numpy.trace numpy.count_nonzero numpy.nanmax numpy.nanmin '
  'numpy.linalg.norm numpy.linalg.det numpy.linalg.cond numpy.linalg.matrix_rank', 'fresh', reduction)
F('numpy.isscalar numpy.allclose numpy.array_equal numpy.ndim numpy.size', 'fresh', lambda cx, n, a, k: NUM)
F('numpy.shape', 'fresh', lambda cx, n, a, k: AV(['tuple'], elem=NUM))
F('numpy.shares_memory numpy.may_share_memory', 'fresh', lambda cx, n, a, k: BOOL)


def n_is(node, *names):
    import ast
    f = node.func
    nm = f.attr if isinstance(f, ast.Attribute) else getattr(f, 'id', '')
    return nm in names


# numpy.linalg / fft / polynomial
F('numpy.linalg.qr', 'fresh', tuple_of(arr(2), arr(2)))
F('numpy.linalg.eigh numpy.linalg.eig', 'fresh', tuple_of(arr(1), arr(2)))
F('numpy.linalg.svd', 'fresh', lambda cx, n, a, k: (AV(['tuple'], items=[arr(2), arr(1), arr(2)], minlen=3)
                                                    if kconst(k, 'compute_uv', True) is True else arr(1)))
F('numpy.linalg.solve numpy.linalg.inv numpy.linalg.pinv numpy.linalg.cholesky numpy.linalg.matrix_power',
  'fresh', fresh_arr())
F('numpy.linalg.lstsq', 'fresh', tuple_of(arr(), arr(), NUM, arr(1)))
F('numpy.fft.fft numpy.fft.ifft numpy.fft.rfft numpy.fft.irfft numpy.fft.fft2 numpy.fft.ifft2', 'fresh',
  lambda cx, n, a, k: arr(a[0].ndim if a else None))
F('numpy.polynomial.chebyshev.cheb2poly numpy.polynomial.chebyshev.poly2cheb numpy.polynomial.polynomial.polyroots '
  'numpy.polynomial.polynomial.polyval numpy.polynomial.chebyshev.chebval numpy.polynomial.chebyshev.chebroots '
  'numpy.polynomial.polynomial.polyder numpy.polynomial.polynomial.polyint', 'fresh',
  lambda cx, n, a, k: AV(['arr', 'num']))


def _poly_ctor(cx, node, args, kw):
    x = arg(args, kw, 0, 'coef', BOT)
    return AV(['obj'], org=[o for o in x.org] if x.may('arr') or x.is_any else [], cls='numpy.poly',
              via=x.via | {cx.callname(node)} if x.org else ())


F('numpy.polynomial.chebyshev.Chebyshev numpy.polynomial.polynomial.Polynomial numpy.polynomial.Chebyshev '
  'numpy.polynomial.Polynomial numpy.poly1d', 'may-view-of(0)', _poly_ctor,
  note='series object; may keep a reference to the coefficient array')

# scipy
F('scipy.linalg.rq scipy.linalg.qr', 'fresh; writes(0) iff overwrite_a', tuple_of(arr(2), arr(2)))
F('scipy.linalg.lu', 'fresh; writes(0) iff overwrite_a', tuple_of(arr(2), arr(2), arr(2)))
F('scipy.linalg.lstsq', 'fresh; writes(0) iff overwrite_a; writes(1) iff overwrite_b',
  tuple_of(arr(), AV(['arr', 'num']), NUM, AV(['arr', 'none'], ndim=1)))
F('scipy.linalg.solve_triangular scipy.linalg.solve', 'fresh; writes(1) iff overwrite_b', fresh_arr())
F('scipy.linalg.svd', 'fresh; writes(0) iff overwrite_a', tuple_of(arr(2), arr(1), arr(2)))
F('scipy.linalg.eigh', 'fresh; writes(0) iff overwrite_a', tuple_of(arr(1), arr(2)))
F('scipy.linalg.toeplitz scipy.linalg.inv scipy.linalg.pinv scipy.linalg.expm scipy.linalg.block_diag '
  'scipy.linalg.hankel scipy.linalg.circulant', 'fresh', fresh_arr(lambda cx, a, k: 2))
F('scipy.linalg.norm', 'fresh', reduction)
F('scipy.fftpack.dct scipy.fftpack.dst scipy.fftpack.idct scipy.fftpack.idst scipy.fft.dct scipy.fft.dst '
  'scipy.fft.idct scipy.fft.idst', 'fresh; writes(0) iff overwrite_x',
  lambda cx, n, a, k: arr(a[0].ndim if a else None))
OVERWRITE = {'overwrite_a': (0, 'a'), 'overwrite_b': (1, 'b'), 'overwrite_x': (0, 'x')}

# numpy.random
LIBATTR['numpy.random.Generator'] = TYPE
LIBATTR['numpy.random.BitGenerator'] = TYPE
LIBATTR['numpy.random.SeedSequence'] = TYPE
RNG_OK = {'numpy.random.default_rng', 'numpy.random.Generator', 'numpy.random.BitGenerator',
          'numpy.random.SeedSequence', 'numpy.random.PCG64', 'numpy.random.Philox', 'numpy.random.MT19937'}


def _default_rng(cx, node, args, kw):
    s = arg(args, kw, 0, 'seed')
    return cx.make_generator(s, node, cx.callname(node))


F('numpy.random.default_rng', 'entropy iff seed is None; otherwise generator derived from its argument', _default_rng)

# library constants and types
for _n in 'pi e inf nan euler_gamma'.split():
    LIBATTR['numpy.' + _n] = NUM
LIBATTR['numpy.newaxis'] = NONE
for _n in ('int8 int16 int32 int64 uint8 uint16 uint32 uint64 float16 float32 float64 complex64 complex128 bool_ '
           'integer floating number').split():
    import numpy as _np
    LIBATTR['numpy.' + _n] = AV(['type'], const=getattr(_np, _n, None) or _n)
LIBATTR['numpy.ndarray'] = AV(['type'], const=__import__('numpy').ndarray)
LIBATTR['numpy.polynomial.Polynomial'] = AV(['type'], fn=[('lib', 'numpy.polynomial.Polynomial')])
LIBATTR['numpy.polynomial.Chebyshev'] = AV(['type'], fn=[('lib', 'numpy.polynomial.Chebyshev')])
LIBATTR['pickle.HIGHEST_PROTOCOL'] = NUM

# ------------------------------------------------------------------------------------------------
# stdlib / builtins

def _len(cx, node, args, kw):
    x = args[0] if args else BOT
    n = cx.static_len(x)
    if n is not None:
        return num(n)
    return num(lo=x.minlen if x.minlen else 0)


F('builtins.len', 'fresh', _len)
F('builtins.int builtins.float builtins.abs builtins.round builtins.bool builtins.complex builtins.ord '
  'builtins.hash builtins.id builtins.pow', 'fresh',
  lambda cx, n, a, k: (ew_result(cx, a[:1]) if (a and not a[0].immutable and n_is(n, 'abs', 'round', 'pow'))
                       else AV(['num'], clock=any(x.clock for x in a))))
F('builtins.str builtins.repr builtins.format builtins.chr', 'fresh', lambda cx, n, a, k: STR)
F('builtins.isinstance', 'fresh', lambda cx, n, a, k: cx.isinstance_(a[0], a[1]) if len(a) == 2 else BOOL)
F('builtins.callable builtins.hasattr builtins.issubclass', 'fresh', lambda cx, n, a, k: BOOL)
F('builtins.print', 'io', lambda cx, n, a, k: (cx.effect_io('print', n), NONE)[1])
F('builtins.type', 'fresh', lambda cx, n, a, k: TYPE)


def _range(cx, node, args, kw):
    nonempty = False
    c = [a.const if (a.has_const() and isinstance(a.const, int)) else None for a in args]
    lo = [a.lo for a in args]
    if len(args) == 1:
        nonempty = lo[0] is not None and lo[0] >= 1
        first = 0
    elif len(args) >= 2:
        step = c[2] if len(args) == 3 else 1
        if step is not None and step > 0:
            nonempty = c[0] is not None and lo[1] is not None and lo[1] > c[0]
        elif step is not None and step < 0:
            nonempty = lo[0] is not None and c[1] is not None and lo[0] > c[1]
    elem_lo = None
    if len(args) == 1:
        elem_lo = 0
    elif len(args) >= 2 and c[0] is not None and (len(args) == 2 or (c[2] or 0) > 0):
        elem_lo = c[0]
    return AV(['tuple'], elem=num(lo=elem_lo), minlen=1 if nonempty else 0, cls='range')


F('builtins.range', 'fresh', _range)


def _enumerate(cx, node, args, kw):
    x = args[0] if args else BOT
    return AV(['tuple'], elem=AV(['tuple'], items=[NUM, cx.iter_elem(x)], minlen=2), minlen=cx.minlen_of(x),
              cls='iter')


def _zip(cx, node, args, kw):
    if not args:
        return AV(['tuple'], elem=BOT, cls='iter')
    return AV(['tuple'], elem=AV(['tuple'], items=[cx.iter_elem(x) for x in args], minlen=len(args)),
              minlen=min(cx.minlen_of(x) for x in args), cls='iter')


F('builtins.enumerate', 'elem-of(0)', _enumerate)
F('builtins.zip', 'elem-of(*)', _zip)
F('builtins.reversed builtins.iter', 'elem-of(0)',
  lambda cx, n, a, k: AV(['tuple'], elem=cx.iter_elem(a[0]), minlen=cx.minlen_of(a[0]), cls='iter'))
F('builtins.next', 'elem-of(0)', lambda cx, n, a, k: joins([cx.iter_elem(a[0])] + a[1:]))
F('itertools.product', 'elem-of(*)',
  lambda cx, n, a, k: AV(['tuple'], elem=AV(['tuple'], elem=joins(cx.iter_elem(x) for x in a)), cls='iter',
                         minlen=min([cx.minlen_of(x) for x in a] or [0])))
F('itertools.chain itertools.cycle itertools.islice', 'elem-of(*)',
  lambda cx, n, a, k: AV(['tuple'], elem=joins(cx.iter_elem(x) for x in a), cls='iter'))
F('itertools.permutations itertools.combinations', 'elem-of(0)',
  lambda cx, n, a, k: AV(['tuple'], elem=AV(['tuple'], elem=cx.iter_elem(a[0])), cls='iter'))


def _list(cx, node, args, kw):
    if not args:
        return cx.new_list(node, BOT)
    x = args[0]
    return cx.new_list(node, cx.iter_elem(x), minlen=cx.minlen_of(x))


F('builtins.list', 'fresh container; elem-of(0)', _list)
F('builtins.tuple', 'elem-of(0)',
  lambda cx, n, a, k: (a[0] if (a and a[0].only('tuple') and a[0].cls is None)
                       else AV(['tuple'], elem=cx.iter_elem(a[0]) if a else BOT, minlen=cx.minlen_of(a[0]) if a else 0)))
F('builtins.set builtins.frozenset', 'fresh container; elem-of(0)',
  lambda cx, n, a, k: cx.new_list(n, cx.iter_elem(a[0]) if a else BOT, kind='set'))
F('builtins.sorted', 'fresh container; elem-of(0)',
  lambda cx, n, a, k: cx.new_list(n, cx.iter_elem(a[0]) if a else BOT, minlen=cx.minlen_of(a[0]) if a else 0))


def _dict(cx, node, args, kw):
    e = BOT
    for a in args:
        if a.may('dict'):
            e = join(e, cx.elem_of(a))
        else:
            p = cx.iter_elem(a)       # iterable of pairs
            e = join(e, cx.elem_of(p))
    for v in kw.values():
        e = join(e, v)
    d = cx.new_list(node, e, kind='dict')
    cx.mark_written(d, [k for k in kw], node)
    return d


F('builtins.dict', 'fresh container; elem-of(args)', _dict)


def _minmax(cx, node, args, kw):
    if len(args) == 1:
        e = cx.iter_elem(args[0])
        return e if not e.bot else NUM
    r = joins(args)
    if 'default' in kw:
        r = join(r, kw['default'])
    return r


F('builtins.min builtins.max', 'elem-of(args)', _minmax)


def _sum(cx, node, args, kw):
    e = cx.iter_elem(args[0]) if args else BOT
    start = arg(args, kw, 1, 'start', BOT)
    if (e.immutable or e.bot) and (start.immutable or start.bot):
        return NUM
    if e.only('arr', 'num', 'bool') and not e.objarr and (start.bot or start.immutable):
        return AV(['arr', 'num'])
    if e.only('obj', 'num') and e.cls == 'numpy.poly':
        return AV(['obj', 'num'], cls='numpy.poly')
    # lists / tuples are concatenated: the result is a new container holding the same elements
    inner = join(cx.elem_of(e), cx.elem_of(start) if not start.bot else BOT)
    r = cx.new_list(node, inner)
    return r.but(kinds=ALLK)


F('builtins.sum', 'fresh for numbers and arrays; elem-of(elem-of(0)) for containers', _sum)
F('builtins.any builtins.all', 'fresh', lambda cx, n, a, k: BOOL)


def _reduce(cx, node, args, kw):
    f, it = args[0], args[1]
    acc = args[2] if len(args) > 2 else cx.iter_elem(it)
    e = cx.iter_elem(it)
    for _ in range(3):
        new = join(acc, cx.call_value(f, [acc, e], {}, node))
        if new == acc:
            break
        acc = new
    return acc


F('functools.reduce', 'result of repeated application of argument 0', _reduce)
F('builtins.map', 'result of application of argument 0',
  lambda cx, n, a, k: AV(['tuple'], elem=cx.call_value(a[0], [cx.iter_elem(x) for x in a[1:]], {}, n), cls='iter'))
F('builtins.filter', 'elem-of(1)', lambda cx, n, a, k: AV(['tuple'], elem=cx.iter_elem(a[1]), cls='iter'))
F('builtins.divmod', 'fresh', lambda cx, n, a, k: AV(['tuple'], items=[NUM, NUM], minlen=2))
F('builtins.getattr', 'unknown', None)
F('builtins.open', 'io', lambda cx, n, a, k: (cx.effect_io('open', n), AV(['obj'], cls='file'))[1])
F('pickle.load pickle.loads', 'io; fresh', lambda cx, n, a, k: (cx.effect_io('pickle.load', n), FRESHANY)[1])
F('pickle.dump pickle.dumps', 'io', lambda cx, n, a, k: (cx.effect_io('pickle.dump', n), NONE)[1])
F('time.perf_counter time.time time.monotonic time.process_time', 'reads-clock',
  lambda cx, n, a, k: (cx.effect_clock(n), AV(['num'], clock=True))[1])
F('copy.copy', 'fresh container; elem-of(0)', lambda cx, n, a, k: cx.copy_of(a[0], n))
F('copy.deepcopy', 'fresh', lambda cx, n, a, k: cx.deep_fresh(a[0], n))
for _e in ('ValueError NotImplementedError TypeError KeyError IndexError AssertionError Exception RuntimeError '
           'AttributeError ZeroDivisionError StopIteration ArithmeticError OverflowError').split():
    F('builtins.' + _e, 'fresh', lambda cx, n, a, k: AV(['obj'], cls='exception'))
    LIBATTR['builtins.' + _e] = AV(['type'], fn=[('lib', 'builtins.' + _e)])
for _t, _k in (('int', int), ('float', float), ('str', str), ('list', list), ('tuple', tuple), ('dict', dict),
               ('bool', bool), ('object', object), ('set', set), ('complex', complex)):
    LIBATTR['builtins.' + _t] = AV(['type'], const=_k, fn=[('lib', 'builtins.' + _t)])
LIBATTR['builtins.min'] = AV(['func'], fn=[('lib', 'builtins.min')], const=min)
LIBATTR['builtins.max'] = AV(['func'], fn=[('lib', 'builtins.max')], const=max)
LIBATTR['builtins.object'] = AV(['type'], const=object)
LIBATTR['builtins.True'] = const_av(True)
LIBATTR['builtins.False'] = const_av(False)
LIBATTR['builtins.None'] = NONE
LIBATTR['builtins.Ellipsis'] = const_av(Ellipsis)
LIBATTR['builtins.__name__'] = STR

BUILTIN_NAMES = set(dir(_b))
KNOWN_ROOTS = {'numpy', 'scipy', 'opt_einsum', 'itertools', 'functools', 'pickle', 'time', 'copy', 'builtins', 'teneva',
               'numba', 'math', 'warnings'}

# ------------------------------------------------------------------------------------------------
# methods.  Handler: fn(cx, node, recv, args, kw) -> AV

def mfresh(ndim_same=False, kinds=('arr',)):
    def fn(cx, node, recv, args, kw):
        return AV(kinds, ndim=recv.ndim if ndim_same else None)
    return fn


M('copy', 'arr|list|dict|set', 'fresh (containers: new container, same elements)',
  lambda cx, n, r, a, k: cx.copy_of(r, n))
M('astype', 'arr|num', 'fresh',
  lambda cx, n, r, a, k: (arr(r.ndim) if kconst(k, 'copy', True) is True else cx.view(r, r.ndim, '.astype(copy=False)', may=True)))
M('flatten', 'arr', 'fresh', lambda cx, n, r, a, k: cx.copy_of(r.but(ndim=1), n))
M('tolist', 'arr|num', 'fresh', lambda cx, n, r, a, k: cx.new_list(n, cx.elem_of(r) if r.objarr else AV(['num', 'list'])))
M('sum max min mean prod std var any all argmax argmin trace ptp', 'arr|num', 'fresh',
  lambda cx, n, r, a, k: reduction(cx, n, a, k, recv=r))
M('item', 'arr|num', 'fresh (object arrays: elem-of(recv))',
  lambda cx, n, r, a, k: join(AV(['num'], clock=r.clock), cx.elem_of(r)) if r.objarr else AV(['num'], clock=r.clock))
M('dot', 'arr|num', 'fresh', lambda cx, n, r, a, k: cx.matmul(r, a[0] if a else BOT))
M('conj conjugate round cumsum cumprod clip argsort nonzero repeat searchsorted', 'arr|num', 'fresh',
  lambda cx, n, r, a, k: AV(['arr', 'num'] if not r.only('arr') else ['arr'], ndim=r.ndim if n_is(n, 'conj', 'conjugate', 'round', 'clip', 'argsort') else None))
M('reshape', 'arr|num', 'may-view-of(recv)',
  lambda cx, n, r, a, k: cx.view(r, reshape_ndim(0)(cx, r, a, k), '.reshape', may=True))
M('ravel', 'arr|num', 'may-view-of(recv)', lambda cx, n, r, a, k: cx.view(r, 1, '.ravel', may=True))
M('squeeze', 'arr|num', 'view-of(recv)', lambda cx, n, r, a, k: cx.view(r, None, '.squeeze'))
M('transpose swapaxes', 'arr|num', 'view-of(recv)', lambda cx, n, r, a, k: cx.view(r, r.ndim, '.' + n.func.attr))
M('view', 'arr', 'view-of(recv)', lambda cx, n, r, a, k: cx.view(r, r.ndim, '.view'))
M('diagonal', 'arr', 'view-of(recv)', lambda cx, n, r, a, k: cx.view(r, None, '.diagonal'))
M('sort fill resize put itemset partition setfield byteswap', 'arr', 'writes(recv)',
  lambda cx, n, r, a, k: (cx.write_buf(r, n, f'.{n.func.attr}() overwrites'), NONE)[1])


def _list_add(cx, node, recv, args, kw):
    m = node.func.attr
    if m == 'append':
        v = args[0] if args else BOT
    elif m == 'insert':
        v = args[1] if len(args) > 1 else BOT
    else:  # extend
        v = cx.iter_elem(args[0]) if args else BOT
    cx.write_cont(recv, node, f'.{m}() changes the element list of')
    cx.store_elem(recv, v, node)
    return NONE


M('append extend insert', 'list', 'writes(recv) [container]; stores argument', _list_add)
M('add', 'set', 'writes(recv) [container]; stores argument',
  lambda cx, n, r, a, k: (cx.write_cont(r, n, '.add() changes'), cx.store_elem(r, a[0] if a else BOT, n), NONE)[2])


def _cont_remove(cx, node, recv, args, kw):
    m = node.func.attr
    cx.write_cont(recv, node, f'.{m}() changes the element list of')
    # `d.pop(key, default)` as a statement only REMOVES the key: the old value flows nowhere and a missing key is not an error,
    # so nothing is read from an earlier call (C10); every other use of pop reads the entry
    discards = m == 'pop' and len(args) > 1 and getattr(node, '_result_unused', False)
    if recv.may('dict') and not discards:
        cx.dict_read(recv, args[0] if args else None, node, f'.{m}()')
    if m in ('pop', 'popitem'):
        r = cx.elem_of(recv)
        if len(args) > 1:
            r = join(r, args[1])
        return r
    return NONE


M('pop remove clear popitem discard', 'list|dict|set', 'writes(recv) [container]; elem-of(recv)', _cont_remove)
M('reverse', 'list', 'writes(recv) [container]',
  lambda cx, n, r, a, k: (cx.write_cont(r, n, '.reverse() reorders'), NONE)[1])
M('sort', 'list', 'writes(recv) [container]',
  lambda cx, n, r, a, k: (cx.write_cont(r, n, '.sort() reorders'), NONE)[1])
M('index count', 'list|tuple|str', 'fresh', lambda cx, n, r, a, k: NUM)


def _dict_update(cx, node, recv, args, kw):
    cx.write_cont(recv, node, '.update() writes')
    keys = [k for k in kw]
    exact = True
    for a in args:
        cx.store_elem(recv, cx.elem_of(a), node)
        ks = cx.dict_keys_of(a)
        if ks is None:
            exact = False
        else:
            keys += ks
    for v in kw.values():
        cx.store_elem(recv, v, node)
    cx.mark_written(recv, keys, node)
    return NONE


M('update', 'dict', 'writes(recv) [container]; stores the values of the argument', _dict_update)


def _dict_setdefault(cx, node, recv, args, kw):
    cx.dict_read(recv, args[0] if args else None, node, '.setdefault()')
    cx.write_cont(recv, node, '.setdefault() may write')
    if len(args) > 1:
        cx.store_elem(recv, args[1], node)
    return join(cx.elem_of(recv), args[1] if len(args) > 1 else NONE)


M('setdefault', 'dict', 'reads key, then writes(recv) [container]', _dict_setdefault)
M('get', 'dict', 'elem-of(recv)',
  lambda cx, n, r, a, k: (cx.dict_read(r, a[0] if a else None, n, '.get()'),
                          join(cx.elem_of(r), a[1] if len(a) > 1 else NONE))[1])
M('keys', 'dict', 'fresh', lambda cx, n, r, a, k: (cx.dict_read(r, None, n, '.keys()'),
                                                   AV(['tuple'], elem=cx.key_av(r), cls='iter'))[1])
M('values', 'dict', 'elem-of(recv)', lambda cx, n, r, a, k: (cx.dict_read(r, None, n, '.values()'),
                                                             AV(['tuple'], elem=cx.elem_of(r), cls='iter'))[1])
M('items', 'dict', 'elem-of(recv)',
  lambda cx, n, r, a, k: (cx.dict_read(r, None, n, '.items()'),
                          AV(['tuple'], elem=AV(['tuple'], items=[cx.key_av(r), cx.elem_of(r)], minlen=2),
                             cls='iter'))[1])
M('startswith endswith isdigit isalpha', 'str', 'fresh', lambda cx, n, r, a, k: BOOL)
M('join format split strip lower upper replace rstrip lstrip encode decode zfill ljust rjust', 'str', 'fresh',
  lambda cx, n, r, a, k: STR if n.func.attr != 'split' else cx.new_list(n, STR))
M('is_integer bit_length conjugate', 'num', 'fresh', lambda cx, n, r, a, k: NUM)

DRAWS = ('normal uniform choice permutation integers random standard_normal exponential poisson binomial beta gamma '
         'multivariate_normal bytes permuted rand randn randint random_sample standard_cauchy laplace lognormal')


def _draw(cx, node, recv, args, kw):
    cx.effect_draw(recv, node)
    m = node.func.attr
    if m == 'choice':
        x = args[0] if args else BOT
        sz = arg(args, kw, 1, 'size')
        # choice(array) returns copies of elements; for object arrays it returns the elements themselves
        if sz is None or sz.const is None:
            r = NUM
        else:
            r = AV(['arr'], ndim=shape_ndim(cx, sz))
        if x.objarr or x.may('list'):
            e = cx.iter_elem(x)
            if not e.immutable:
                r = join(r, e)
        return r
    if m in ('permutation', 'permuted'):
        return arr(args[0].ndim if (args and args[0].may('arr')) else 1)
    sz = kw.get('size')
    if sz is None and m in ('normal', 'uniform') and len(args) >= 3:
        sz = args[2]
    if sz is None and m in ('random', 'standard_normal', 'integers') and len(args) >= 1 and m != 'integers':
        sz = args[0]
    if sz is None:
        return AV(['num', 'arr']) if args else NUM
    if sz.const is None:
        return NUM
    nd = shape_ndim(cx, sz)
    return arr(nd)


M(DRAWS, 'gen', 'draws(recv); fresh', _draw)
M('shuffle', 'gen', 'draws(recv); writes(0)',
  lambda cx, n, r, a, k: (cx.effect_draw(r, n), cx.write_shuffle(a[0] if a else BOT, n), NONE)[2])
M('spawn', 'gen', 'generator derived from recv',
  lambda cx, n, r, a, k: cx.new_list(n, AV(['gen'], gen=r.gen)))
# numpy polynomial series objects
M('convert integ deriv roots trim truncate cutdeg linspace', 'obj', 'fresh',
  lambda cx, n, r, a, k: (AV(['obj'], cls='numpy.poly') if n.func.attr in ('convert', 'integ', 'deriv', 'trim', 'truncate', 'cutdeg')
                          else AV(['arr', 'tuple'], elem=arr(1))), note='numpy.polynomial series methods')
M('read readline readlines', 'obj', 'io; fresh', lambda cx, n, r, a, k: (cx.effect_io('file.read', n), FRESHANY)[1])
M('write close flush', 'obj', 'io', lambda cx, n, r, a, k: (cx.effect_io('file.write', n), NONE)[1])
M('__enter__', 'obj', 'view-of(recv)', lambda cx, n, r, a, k: r)

# attributes
ARR_ATTR = {
    'T': ('view-of(recv)', lambda cx, r: cx.view(r, r.ndim, '.T')),
    'real': ('may-view-of(recv)', lambda cx, r: cx.view(r, r.ndim, '.real', may=True)),
    'imag': ('may-view-of(recv)', lambda cx, r: cx.view(r, r.ndim, '.imag', may=True)),
    'flat': ('view-of(recv)', lambda cx, r: cx.view(r, 1, '.flat')),
    'shape': ('fresh', lambda cx, r: (AV(['tuple'], minlen=r.ndim, items=[num(lo=0)] * r.ndim)
                                      if (r.ndim is not None and r.only('arr')) else AV(['tuple'], elem=num(lo=0)))),
    'size': ('fresh', lambda cx, r: num(lo=0)),
    'ndim': ('fresh', lambda cx, r: num(r.ndim) if (r.ndim is not None and r.only('arr')) else num(lo=0)),
    'dtype': ('fresh', lambda cx, r: TYPE),
    'nbytes': ('fresh', lambda cx, r: NUM),
    'itemsize': ('fresh', lambda cx, r: NUM),
    'base': ('view-of(recv)', lambda cx, r: join(NONE, cx.view(r, None, '.base'))),
}
