"""frames.extract — reads the real source of $VERIF_REPO/teneva with `ast` on every run (DESIGN.md 1.1).

Nothing of the repository is copied into /verif: functions are addressed as `<module>.<name>` or
`<module>.<Class>.<method>`; `teneva.<name>` is resolved through the import table of teneva/__init__.py.
"""
import ast, hashlib, os, warnings


def repo_root():
    return os.environ.get('VERIF_REPO', '/repo')


class FuncInfo:
    def __init__(self, module, qual, node, src, cls=None, path=''):
        self.module, self.qual, self.node, self.cls, self.path = module, qual, node, cls, path
        self.name = node.name
        self.key = f'{module}.{qual}'
        self.text = ast.get_source_segment(src, node) or ''
        self.lines = (node.lineno, node.end_lineno)
        self.sha = hashlib.sha256(self.text.encode()).hexdigest()
        a = node.args
        self.params = [p.arg for p in a.posonlyargs + a.args]
        self.kwonly = [p.arg for p in a.kwonlyargs]
        self.vararg = a.vararg.arg if a.vararg else None
        self.kwarg = a.kwarg.arg if a.kwarg else None
        nd = len(a.defaults)
        self.defaults = dict(zip(self.params[len(self.params) - nd:], a.defaults))
        for p, d in zip(self.kwonly, a.kw_defaults):
            if d is not None:
                self.defaults[p] = d
        self.is_property = any(isinstance(d, ast.Name) and d.id == 'property' for d in node.decorator_list)
        self.decorators = [ast.unparse(d) for d in node.decorator_list]
        body = list(node.body)
        if body and isinstance(body[0], ast.Expr) and isinstance(body[0].value, ast.Constant) \
                and isinstance(body[0].value.value, str):
            body = body[1:]
        self.body = body

    @property
    def all_params(self):
        return self.params + self.kwonly

    def where(self, lineno=None):
        return f'teneva/{self.module}.py:{lineno if lineno is not None else self.lines[0]}'

    def describe(self):
        return {'function': f'teneva/{self.module}.py:{self.qual}', 'lines': list(self.lines), 'sha256': self.sha,
                'sha256_16': self.sha[:16]}


class ModuleInfo:
    def __init__(self, name, path):
        self.name, self.path = name, path
        self.src = open(path).read()
        with warnings.catch_warnings():
            warnings.simplefilter('ignore')
            self.tree = ast.parse(self.src)
        self.imports = {}      # local name -> canonical dotted name ('np' -> 'numpy', 'tpc' -> 'time.perf_counter')
        self.funcs = {}        # bare name -> FuncInfo
        self.classes = {}      # class name -> {method name -> FuncInfo}
        self.globals = {}      # module-level assigned name -> (lineno, value node or None, mutable?)
        self._scan(self.tree.body)

    def _scan(self, body):
        for n in body:
            if isinstance(n, ast.Import):
                for a in n.names:
                    self.imports[a.asname or a.name.split('.')[0]] = a.name if a.asname else a.name.split('.')[0]
            elif isinstance(n, ast.ImportFrom):
                base = ('.' * n.level) + (n.module or '')
                for a in n.names:
                    self.imports[a.asname or a.name] = f'{base}.{a.name}' if base else a.name
            elif isinstance(n, ast.FunctionDef):
                self.funcs[n.name] = FuncInfo(self.name, n.name, n, self.src, path=self.path)
            elif isinstance(n, ast.ClassDef):
                ms = {}
                for m in n.body:
                    if isinstance(m, ast.FunctionDef):
                        ms[m.name] = FuncInfo(self.name, f'{n.name}.{m.name}', m, self.src, cls=n.name, path=self.path)
                    elif isinstance(m, (ast.Assign, ast.AnnAssign)):
                        for t in (m.targets if isinstance(m, ast.Assign) else [m.target]):
                            if isinstance(t, ast.Name):
                                self.globals[f'{n.name}.{t.id}'] = (m.lineno, m.value, not _is_immutable_literal(m.value))
                self.classes[n.name] = ms
            elif isinstance(n, (ast.Assign, ast.AnnAssign, ast.AugAssign)):
                targets = n.targets if isinstance(n, ast.Assign) else [n.target]
                for t in targets:
                    for nm in _target_names(t):
                        old = self.globals.get(nm)
                        mut = not _is_immutable_literal(n.value) or (old[2] if old else False)
                        self.globals[nm] = (n.lineno, n.value, mut)
            elif isinstance(n, (ast.Try, ast.If, ast.With, ast.For, ast.While)):
                for fld in ('body', 'orelse', 'finalbody'):
                    self._scan(getattr(n, fld, []) or [])
                for h in getattr(n, 'handlers', []) or []:
                    self._scan(h.body)


def _target_names(t):
    if isinstance(t, ast.Name):
        return [t.id]
    if isinstance(t, (ast.Tuple, ast.List)):
        out = []
        for e in t.elts:
            out += _target_names(e)
        return out
    if isinstance(t, ast.Starred):
        return _target_names(t.value)
    return []


def _is_immutable_literal(v):
    if v is None:
        return True
    if isinstance(v, ast.Constant):
        return True
    if isinstance(v, ast.UnaryOp) and isinstance(v.operand, ast.Constant):
        return True
    if isinstance(v, ast.Tuple):
        return all(_is_immutable_literal(e) for e in v.elts)
    return False


class Package:
    def __init__(self, root=None):
        self.root = root or repo_root()
        self.dir = os.path.join(self.root, 'teneva')
        self.modules = {}
        for f in sorted(os.listdir(self.dir)):
            if f.endswith('.py'):
                self.modules[f[:-3]] = ModuleInfo(f[:-3], os.path.join(self.dir, f))
        self.exports = {}
        init = self.modules.get('__init__')
        if init is not None:
            for n in init.tree.body:
                if isinstance(n, ast.ImportFrom) and n.level == 1 and n.module:
                    for a in n.names:
                        self.exports[a.asname or a.name] = (n.module, a.name)

    def functions(self):
        """All function definitions (module-level functions and class methods), excluding __init__.py."""
        out = []
        for mname, m in self.modules.items():
            if mname == '__init__':
                continue
            out += list(m.funcs.values())
            for cname, ms in m.classes.items():
                out += list(ms.values())
        return out

    def lookup(self, key):
        """'module.name' or 'module.Class.method' -> FuncInfo or None."""
        parts = key.split('.')
        m = self.modules.get(parts[0])
        if m is None:
            return None
        if len(parts) == 2:
            return m.funcs.get(parts[1])
        if len(parts) == 3:
            return m.classes.get(parts[1], {}).get(parts[2])
        return None

    def resolve_export(self, name):
        """teneva.<name> -> ('func', FuncInfo) | ('class', module, clsname) | None"""
        t = self.exports.get(name)
        if t is None:
            return None
        mod, nm = t
        m = self.modules.get(mod)
        if m is None:
            return None
        if nm in m.funcs:
            return ('func', m.funcs[nm])
        if nm in m.classes:
            return ('class', mod, nm)
        return None

    def is_public(self, fi):
        if fi.cls is None:
            return any(v == (fi.module, fi.name) for k, v in self.exports.items() if not k.startswith('_'))
        pub_cls = any(v == (fi.module, fi.cls) for v in self.exports.values())
        return pub_cls and (not fi.name.startswith('_') or fi.name in ('__init__', '__call__', '__getitem__'))
