"""frames.contract — declared frame / effect contracts (the data lives in /verif/contracts/frames_contracts.py).

A contract belongs to one function `module.name` / `module.Class.method` of the package and has one or more
CASES.  A case fixes parameter kinds (type descriptors, see frames.domain) and literal values of flags, and states

  returns      descriptor of the result; `~p` marks the ONLY parameters the result may alias
  modifies     {param: 'cont' | 'buf' | 'any'}  — the only arguments the function may change
               (cont: element list / keys / attributes;  buf: ndarray contents)
  stores       {param: descriptor}  what is stored into a modified container (default: fresh values)
  retains      parameters an object keeps references to (constructors)
  dict_reads   {param: keys}  keys of a dict argument that may be read before the function writes them
  rng          subset of {'seed','param','self'}: where random draws may come from ('seed' = generator derived
               from the seed parameter, 'param' = generator passed in, 'self' = generator stored on the instance);
               plus 'global-default:<p>' for a documented default argument that refers to numpy.random
  seeded       the function takes a seed (parameter `seed_param`) that callers must supply from their own seed
  clock_params parameters that carry a wall-clock value
  io           the function performs file I/O on purpose

Callers use ONLY this declaration (selected by the kinds / literal flags they pass); the body is checked against
it once per case.
"""
from frames.domain import parse_spec, NOCONST

_INHERIT = ('params', 'flags', 'returns', 'modifies', 'stores', 'retains', 'dict_reads', 'rng', 'seed_param',
            'clock_params', 'io', 'licence', 'service', 'aliases_ok', 'ndim_from')


class Case:
    def __init__(self, name='', params=None, flags=None, returns=None, modifies=None, stores=None, retains=(),
                 dict_reads=None, rng=(), seed_param=None, clock_params=(), io=False, licence='', service=False,
                 aliases_ok=None, ndim_from=None):
        self.name = name
        self.params = dict(params or {})
        self.flags = dict(flags or {})
        self.returns = returns
        self.modifies = dict(modifies or {})
        self.stores = dict(stores or {})
        self.retains = tuple(retains)
        self.dict_reads = {k: tuple(v) for k, v in (dict_reads or {}).items()}
        self.rng = frozenset(rng)
        self.seed_param = seed_param
        self.clock_params = tuple(clock_params)
        self.io = io
        self.licence = licence
        self.service = service
        self.aliases_ok = aliases_ok
        self.ndim_from = ndim_from          # parameter holding the shape of the returned array

    def result_aliases(self):
        if self.returns is None:
            return set()
        out = set()
        for a in parse_spec(self.returns).aliases():
            a = a[:-2] if a.endswith('[]') else a
            out.add(a.split('.')[0])
        return out

    def but_returns(self, r):
        c = Case.__new__(Case)
        c.__dict__.update(self.__dict__)
        c.returns = r
        return c

    def describe(self):
        d = {'case': self.name or 'default'}
        if self.flags:
            d['flags'] = {k: repr(v) for k, v in self.flags.items()}
        if self.params:
            d['params'] = dict(self.params)
        d['returns'] = self.returns or 'fresh'
        d['result_aliases'] = sorted(self.result_aliases())
        d['modifies'] = dict(self.modifies)
        if self.retains:
            d['retains'] = list(self.retains)
        if self.dict_reads:
            d['dict_reads'] = {k: list(v) for k, v in self.dict_reads.items()}
        d['rng'] = sorted(self.rng)
        if self.licence:
            d['licence'] = self.licence
        if self.service:
            d['service_case'] = True
        return d


class Contract:
    def __init__(self, key, cases=None, excluded=None, excluded_flags=None, declared=True, note='', **base):
        self.key = key
        self.excluded = excluded
        self.excluded_flags = dict(excluded_flags or {})      # service flag values outside the verified surface
        self.declared = declared
        self.note = note
        seeded = base.pop('seeded', False)
        if seeded and 'seed_param' not in base:
            base['seed_param'] = 'seed'
        if seeded and 'rng' not in base:
            base['rng'] = ('seed',)
        self.base = base
        self.cases = []
        for c in (cases or [{}]):
            kw = {}
            for f in _INHERIT:
                if f in base:
                    kw[f] = base[f]
            for f, v in c.items():
                if f in ('params', 'flags', 'modifies', 'stores', 'dict_reads') and f in kw and isinstance(v, dict):
                    m = dict(kw[f])
                    m.update(v)
                    kw[f] = m
                else:
                    kw[f] = v
            if kw.get('seeded'):
                kw.pop('seeded')
                kw.setdefault('seed_param', 'seed')
                kw.setdefault('rng', ('seed',))
            kw.pop('seeded', None)
            self.cases.append(Case(**kw))

    def deviations(self):
        out = []
        for c in self.cases:
            d = {}
            if c.modifies:
                d['modifies'] = dict(c.modifies)
            if c.result_aliases():
                d['result_aliases'] = sorted(c.result_aliases())
            if c.retains:
                d['retains'] = list(c.retains)
            if any(r.startswith('global') for r in c.rng):
                d['rng'] = sorted(c.rng)
            if d:
                d['case'] = c.name or 'default'
                d['licence'] = c.licence
                d['service_case'] = c.service
                out.append(d)
        return out


def case(name='', **kw):
    kw['name'] = name
    return kw
