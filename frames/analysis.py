"""frames.analysis — obligations of the frame / effect checker (properties C09 and C10).

Usage
    PYTHONPATH=/verif:/verif/.deps /venv/bin/python -m frames.analysis [C09|C10] [--meta] [--only <substr>]
prints one line per obligation:  status kind id detail.   VERIF_REPO selects the tree (default /repo).

Every function of $VERIF_REPO/teneva is analysed against its DECLARED contract (contracts/frames_contracts.py),
once per contract case; calls to other teneva functions use the callee's declaration only.
status: proved (summary within the contract) / failed (exceeds it: a violation, with file:line and the flow) /
unsupported (depends on an unknown callable or an unsupported construct: undecided).
"""
import json, os, sys, time, traceback
from frames import extract, models
from frames.domain import (AV, BOT, ALLK, NOCONST, parse_spec, spec_kinds, root_param, describe_origin, is_site)
from frames.interp import Interp
from frames.contract import Contract, Case

ASSUMPTIONS = {
    'A-NP': 'alias / effect rules of NumPy / SciPy / stdlib callables as stated in frames/models.py '
            '(spot-checked by frames/spotcheck.py against the installed NumPy)',
    'A-CB': 'user callbacks (f, cb, func, basis_func, fh, ones_func, kind) neither write, retain nor return their '
            'arguments and do not touch the global NumPy generator unless documented (rand_custom default f)',
    'A-PY': 'no monkey-patching of teneva / numpy attributes; numbers given as scalars behave like Python int / float '
            'in isinstance tests; exceptions leave the state of the last completed statement',
    'A-TYPES': 'arguments have the kinds named in the contract case (TT-tensor = list of >= 2 three-dimensional '
               'ndarrays; index / point sets = array-likes of the stated rank); undocumented service flags keep the '
               'values fixed in the case (listed under excluded_service_flags)',
    'A-D2': 'a TT-tensor argument has at least two cores (len(Y) >= 2), used for loop non-emptiness',
    'A-DICT': 'user-supplied info / cache dictionaries hold numbers, strings, None (no arrays that alias other arguments)',
}


class Analysis:
    def __init__(self, root=None):
        t0 = time.time()
        import contracts.frames_contracts as FC
        self.FC = FC
        self.pkg = extract.Package(root)
        self.contracts = dict(FC.CONTRACTS)
        self.attrs = FC.CLASS_ATTRS
        self.ptypes = FC.DEFAULT_PARAM_TYPES
        self.summaries = {}        # (key, case name) -> Summary
        self.obls = {'C09': [], 'C10': []}
        self.undeclared = []
        models.USED.clear()
        self._run()
        self.seconds = time.time() - t0

    # ---- lookups used by the interpreter
    def contract(self, key):
        c = self.contracts.get(key)
        if c is None:
            fi = self.pkg.lookup(key)
            if fi is None:
                return None
            seeded = any(self.default_param_type(p) == 'seed' for p in fi.all_params)
            c = Contract(key, declared=False, seeded=seeded)
            self.contracts[key] = c
            self.undeclared.append(key)
        return c

    def default_param_type(self, p):
        return self.ptypes.get(p)

    def class_attrs(self, cls):
        return self.attrs.get(cls, {})

    # ---- driver
    def _run(self):
        self.functions = sorted(self.pkg.functions(), key=lambda f: (f.module, f.lines[0]))
        for fi in self.functions:
            ct = self.contract(fi.key)
            if ct.excluded:
                continue
            for case in ct.cases:
                it = Interp(self, fi, case)
                try:
                    S = it.run()
                except Exception as ex:      # an analysis crash is an undecided obligation, never a verdict
                    from frames.interp import Summary
                    S = Summary()
                    S.crashed = f'{type(ex).__name__}: {ex} @ {traceback.format_exc().strip().splitlines()[-3:]}'
                    S.events = it.events
                self.summaries[(fi.key, case.name)] = S
                self._c09(fi, ct, case, S)
            self._c10(fi, ct)
        self._module_state()
        self._stale_contracts()

    def _add(self, prop, oid, kind, fi, status, detail, where):
        self.obls[prop].append({'id': oid, 'kind': kind, 'func': fi.key if fi else '', 'status': status,
                                'detail': detail, 'where': where})

    @staticmethod
    def _oid(prop, fi, case, kind):
        c = f'[{case.name}]' if (case is not None and case.name) else ''
        return f'frames.{prop}.{fi.module}.{fi.qual}{c}.{kind}'

    @staticmethod
    def _taint(S):
        """events that make every obligation of the function undecided"""
        if S.crashed:
            return [f'analysis error: {S.crashed}']
        return [f'{e.text} (line {e.lineno})' for e in S.events if e.kind == 'unknown' and e.how in ('construct', 'name', 'type')]

    # ---- C09
    def _c09(self, fi, ct, case, S):
        where0 = fi.where()
        taint = self._taint(S)
        # modifies
        hard, soft = [], []
        for e in S.events:
            if e.kind != 'write' or e.origin is None or e.origin.startswith('G:'):
                continue
            p = root_param(e.origin)
            if p is None:
                continue
            if p == 'self' and fi.name == '__init__':
                continue                         # a constructor initialises the object it creates
            decl = case.modifies.get(p)
            ok = decl == 'any' or (decl is not None and decl == e.how)
            if ok:
                continue
            msg = f'{fi.where(e.lineno)}: {e.text} {describe_origin(e.origin)}' + \
                  (f' [{e.how}]' if e.how != 'any' else '') + \
                  (f'; declared modifies = {case.modifies or "{}"}')
            (soft if e.soft else hard).append((e.lineno, msg))
        self._emit('C09', fi, case, 'modifies', hard, soft, taint,
                   f'writes only {case.modifies}' if case.modifies else 'modifies no argument')
        # result aliases
        allowed = case.result_aliases()
        hard, soft = [], []
        for ln, text, v, orgs, vias in S.returns:
            for o in sorted(orgs):
                p = root_param(o)
                if o.startswith('G:'):
                    hard.append((ln, f'{fi.where(ln)}: `{text}` returns a value that may alias {describe_origin(o)}'))
                    continue
                if p is None or p in allowed:
                    continue
                if p == 'self' and fi.name == '__init__':
                    continue
                via = sorted(x for x in vias if x and x != 'unknown-callee')
                msg = (f'{fi.where(ln)}: `{text}` returns a value that may alias {describe_origin(o)}'
                       + (f' via {", ".join(via)}' if via else '')
                       + f'; declared result-aliases = {sorted(allowed) or "{}"}')
                (soft if 'unknown-callee' in vias else hard).append((ln, msg))
        self._emit('C09', fi, case, 'result-aliases', hard, soft, taint,
                   f'result aliases only {sorted(allowed)}' if allowed else 'result aliases no argument')
        # result type (soundness of the modular use of `returns` by callers)
        bad = []
        if case.returns is not None and not S.crashed:
            spec = parse_spec(case.returns)
            for ln, text, v, orgs, vias in S.returns:
                why = conforms(v, spec, fresh=not orgs)
                if why:
                    bad.append((ln, f'{fi.where(ln)}: `{text}` computes {v!r}, not covered by the declared result '
                                    f'descriptor {case.returns!r} ({why})'))
        if case.returns is not None:
            self._emit('C09', fi, case, 'result-type', [], bad, taint, f'result fits {case.returns!r}')
        # retained references (methods)
        if fi.cls:
            hard = []
            for e in S.events:
                if e.kind == 'retain':
                    p = root_param(e.origin)
                    if p not in case.retains:
                        hard.append((e.lineno, f'{fi.where(e.lineno)}: {e.text}; declared retains = {list(case.retains) or "{}"}'))
            self._emit('C09', fi, case, 'retains', hard, [], taint,
                       f'keeps references only to {list(case.retains)}' if case.retains else 'keeps no reference to an argument')

    def _emit(self, prop, fi, case, kind, hard, soft, taint, okmsg):
        oid = self._oid(prop, fi, case, kind)
        if hard:
            hard.sort()
            d = hard[0][1] + (f'  (+{len(hard) - 1} more: ' + ' | '.join(m for _, m in hard[1:4]) + ')' if len(hard) > 1 else '')
            self._add(prop, oid, kind, fi, 'failed', d, d.split(': ')[0])
        elif soft or taint:
            items = [m for _, m in sorted(soft)] + list(taint)
            d = items[0] + (f'  (+{len(items) - 1} more)' if len(items) > 1 else '')
            self._add(prop, oid, kind, fi, 'unsupported', d, fi.where())
        else:
            self._add(prop, oid, kind, fi, 'proved', okmsg, fi.where())

    # ---- C10
    def _c10(self, fi, ct):
        Ss = [(c, self.summaries[(fi.key, c.name)]) for c in ct.cases]
        taint = []
        for c, S in Ss:
            taint += self._taint(S)
        # rng
        hard, soft = [], []
        declared = set()
        for c, S in Ss:
            declared |= set(c.rng)
            for e in S.events:
                if e.kind != 'rng':
                    continue
                tag = e.origin
                where = fi.where(e.lineno)
                if tag == 'global':
                    if e.how and e.how.startswith('default:') and f'global-{e.how}' in c.rng:
                        continue
                    hard.append((e.lineno, f'{where}: {e.text}'))
                elif tag == 'entropy':
                    hard.append((e.lineno, f'{where}: {e.text}'))
                elif tag == 'unknown':
                    (soft if e.soft else hard).append((e.lineno, f'{where}: {e.text}'))
                else:
                    cls = {'seed': 'seed', 'const': 'seed', 'param': 'param', 'attr': 'self'}.get(tag, tag)
                    if cls == 'seed' and 'seed' not in c.rng and c.seed_param is None and tag == 'const':
                        continue
                    if cls not in c.rng:
                        hard.append((e.lineno, f'{where}: {e.text}; declared rng = {sorted(c.rng) or "none"}'))
        drng = sorted(declared)
        self._emit('C10', fi, None, 'rng', dedup(hard), dedup(soft), taint,
                   f'random draws only from {drng}; no use of the global generator, no entropy' if drng
                   else 'no random draw, no use of the global generator')
        # default dict / dict reads
        tracked = {}
        for c, S in Ss:
            tracked.update(S.tracked)
        if tracked:
            hard = []
            for c, S in Ss:
                writes = {root_param(e.origin) for e in S.events if e.kind == 'write' and e.origin and not e.soft}
                for e in S.events:
                    if e.kind != 'dictread':
                        continue
                    p = root_param(e.origin)
                    allowed = c.dict_reads.get(p, ())
                    mutable_default = p in fi.defaults and not _immutable_default(fi.defaults[p])
                    if ('*' in allowed or e.how in allowed) and not (mutable_default and p in writes):
                        continue
                    extra = ' (a shared default dictionary carries state from earlier calls)' if mutable_default else ''
                    hard.append((e.lineno, f'{fi.where(e.lineno)}: {e.text}{extra}; declared reads-before-write = '
                                           f'{ {k: list(v) for k, v in c.dict_reads.items()} or "{}"}'))
            self._emit('C10', fi, None, 'default-dict-read-before-write', dedup(hard), [], taint,
                       'every key of a dict argument is written before it is read'
                       if not any(c.dict_reads for c, _ in Ss) else
                       f'reads before write only the declared keys {[{k: list(v) for k, v in c.dict_reads.items()} for c, _ in Ss][0]}')
        # clock
        if any(e.kind in ('clockread', 'clock') for c, S in Ss for e in S.events) or any(c.clock_params for c, _ in Ss):
            hard = [(e.lineno, f'{fi.where(e.lineno)}: {e.text}') for c, S in Ss for e in S.events if e.kind == 'clock']
            self._emit('C10', fi, None, 'clock', dedup(hard), [], taint, "the wall clock flows only into info['t']")
        # io
        ios = [(c, e) for c, S in Ss for e in S.events if e.kind == 'io' and e.how != 'print']
        if ios or any(c.io for c, _ in Ss):
            hard = [(e.lineno, f'{fi.where(e.lineno)}: {e.text}; no file I/O declared') for c, e in ios if not c.io]
            self._emit('C10', fi, None, 'io', dedup(hard), [], taint, 'file I/O only where declared (fpath)')

    def _module_state(self):
        for mname, m in sorted(self.pkg.modules.items()):
            if mname == '__init__':
                continue
            hard = []
            for fi in self.functions:
                if fi.module != mname:
                    continue
                ct = self.contracts.get(fi.key)
                if ct is None or ct.excluded:
                    continue
                for c in ct.cases:
                    S = self.summaries.get((fi.key, c.name))
                    if S is None:
                        continue
                    for e in S.events:
                        if e.kind == 'gstate':
                            mut = (e.data or {}).get('mutable', True)
                            if e.how == 'write' or mut:
                                hard.append((e.lineno, f'{fi.where(e.lineno)}: in {fi.qual}: {e.text}'))
                        elif e.kind == 'write' and e.origin and e.origin.startswith('G:'):
                            hard.append((e.lineno, f'{fi.where(e.lineno)}: in {fi.qual}: {e.text} {describe_origin(e.origin)}'))
            # a memoising decorator IS module-level mutable state: the result object of one call is kept and handed out again, so
            # what a later call returns depends on what the caller did to an earlier result (and on the call history)
            for fi in self.functions:
                if fi.module != mname:
                    continue
                for dec in getattr(fi, 'decorators', []) or []:
                    base = dec.split('(')[0].strip()
                    if base.split('.')[-1] in ('lru_cache', 'cache', 'cached_property', 'memoize', 'memoized'):
                        hard.append((fi.lines[0], f'{fi.where()}: {fi.qual} is decorated with @{dec}: results are '
                                                                  f'retained between calls (hidden module-level cache of mutable objects)'))
            mut = sorted(n for n, (ln, v, isms) in m.globals.items() if isms)
            oid = f'frames.C10.{mname}.module-state'
            hard = dedup(hard)
            if hard:
                d = hard[0][1] + (f'  (+{len(hard) - 1} more)' if len(hard) > 1 else '')
                self._add('C10', oid, 'module-state', None, 'failed', d, d.split(': ')[0])
            else:
                self._add('C10', oid, 'module-state', None, 'proved',
                          'no function reads or writes module-level mutable state'
                          + (f' (module-level mutable names never touched: {mut})' if mut else ''),
                          f'teneva/{mname}.py:1')

    def _stale_contracts(self):
        """A declared contract whose function no longer exists is reported (undecided), never silently dropped."""
        for key, ct in sorted(self.contracts.items()):
            if ct.declared and self.pkg.lookup(key) is None:
                for prop in ('C09', 'C10'):
                    self._add(prop, f'frames.{prop}.{key}.contract-target', 'contract-target', None, 'unsupported',
                              f'declared contract for {key}, but the function is not in the tree', '')

    def unreached(self):
        """statements no contract case reaches (pruned by the fixed service flags or dead): listed, not verified"""
        import ast
        out = {}
        for fi in self.functions:
            ct = self.contracts[fi.key]
            if ct.excluded:
                continue
            seen = set()
            for c in ct.cases:
                S = self.summaries.get((fi.key, c.name))
                if S is not None:
                    seen |= S.visited
            miss = []
            for st in fi.body:
                for n in ast.walk(st):
                    if isinstance(n, ast.stmt) and id(n) not in seen:
                        miss.append(n.lineno)
            if miss:
                out[fi.key] = sorted(set(miss))
        return out

    # ---- reporting
    def meta(self):
        funcs = []
        for fi in self.functions:
            ct = self.contracts[fi.key]
            d = fi.describe()
            d['public'] = self.pkg.is_public(fi)
            d['declared'] = ct.declared
            if ct.excluded:
                d['excluded'] = ct.excluded
            else:
                d['cases'] = [c.describe() for c in ct.cases]
            if ct.excluded_flags:
                d['excluded_service_flags'] = {k: repr(v) for k, v in ct.excluded_flags.items()}
            funcs.append(d)
        dev = {k: c.deviations() for k, c in sorted(self.contracts.items()) if c.deviations()}
        return {
            'repo': self.pkg.root,
            'functions': funcs,
            'n_functions': len(self.functions),
            'n_function_cases': len(self.summaries),
            'models_used': sorted(models.USED),
            'assumptions': ASSUMPTIONS,
            'excluded_service_flags': {k: {p: repr(v) for p, v in c.excluded_flags.items()}
                                       for k, c in sorted(self.contracts.items()) if c.excluded_flags},
            'excluded_functions': {k: c.excluded for k, c in sorted(self.contracts.items()) if c.excluded},
            'declared_deviations': dev,
            'functions_with_default_contract': sorted(self.undeclared),
            'unreached_statements': self.unreached(),
            'callbacks_assumed_pure': sorted({f'{k[0]}:{p}' for k, S in self.summaries.items() for p in S.callbacks}),
            'seconds': round(self.seconds, 2),
        }


def _immutable_default(d):
    import ast
    return isinstance(d, ast.Constant) or (isinstance(d, ast.Tuple) and not d.elts)


def dedup(items):
    seen, out = set(), []
    for ln, m in sorted(items):
        if m not in seen:
            seen.add(m)
            out.append((ln, m))
    return out


def conforms(v, spec, fresh=False):
    """'' if the computed value v is covered by the declared descriptor, else a reason.

    A declared `num` tolerates a computed fresh ndarray (0-d / 1-element results of harmless rewrites): a caller
    that indexes with such a value assumes a basic index (view) where NumPy would copy, which is the safe side."""
    if v.bot:
        return ''
    if fresh and v.may('arr') and not v.objarr:
        sk = spec_kinds(spec) if (spec.alts or spec.name not in (None, 'any', 'fresh')) else ALLK
        if 'num' in sk and 'arr' not in sk and not v.is_any:
            v = v.but(kinds=(v.kinds - {'arr'}) | {'num'}, ndim=None)
    if spec.alts:
        # each kind of v must be admitted by some alternative
        kinds = set()
        for a in spec.alts:
            kinds |= spec_kinds(a)
        extra = v.kinds - kinds
        if v.is_any and kinds != ALLK:
            return 'kinds unknown'
        return f'kinds {sorted(extra)} not declared' if extra and not v.is_any else ''
    n = spec.name
    if n is None or n in ('any', 'fresh'):
        return ''
    want = spec_kinds(spec)
    if v.is_any:
        return 'kinds unknown'
    extra = v.kinds - want
    if extra:
        return f'kinds {sorted(extra)} not declared'
    if spec.const is not NOCONST and not (v.has_const() and v.const == spec.const):
        return f'value is not the constant {spec.const!r}'
    if n == 'tuple' and spec.args:
        if v.items is None or len(v.items) != len(spec.args) or v.elem is not None:
            return 'tuple layout unknown'
        for i, (iv, s) in enumerate(zip(v.items, spec.args)):
            w = conforms(iv, s, fresh)
            if w:
                return f'item {i}: {w}'
    if n in ('arr0', 'arr1', 'arr2', 'arr3', 'arr4') and v.ndim != int(n[3]):
        return f'ndim {v.ndim} is not {n[3]}'
    return ''


# ------------------------------------------------------------------------------------------------
_CACHE = {}


def get(root=None):
    root = root or extract.repo_root()
    if root not in _CACHE:
        _CACHE[root] = Analysis(root)
    return _CACHE[root]


def results(prop):
    return list(get().obls[prop])


def meta():
    return get().meta()


def run(U, prop):
    """Entry point of the units frames.C09 / frames.C10 (ttvc.units)."""
    A = get()
    for o in A.obls[prop]:
        U.direct(o['kind'], o['id'], o['status'], o['detail'], o['where'])
    if hasattr(U, 'add_meta'):
        m = A.meta()
        U.add_meta(functions=m['functions'], models_used=['frames: ' + x for x in m['models_used']],
                   frames={'assumptions': m['assumptions'], 'excluded_service_flags': m['excluded_service_flags'],
                           'excluded_functions': m['excluded_functions'],
                           'declared_deviations': m['declared_deviations'],
                           'unreached_statements': m['unreached_statements'],
                           'callbacks_assumed_pure': m['callbacks_assumed_pure'], 'seconds': m['seconds']})


def main(argv):
    props = [a for a in argv if a in ('C09', 'C10')] or ['C09', 'C10']
    only = None
    if '--only' in argv:
        only = argv[argv.index('--only') + 1]
    A = get()
    if '--meta' in argv:
        print(json.dumps(A.meta(), indent=1, default=str))
        return 0
    counts = {}
    for p in props:
        for o in A.obls[p]:
            if only and only not in o['id']:
                continue
            counts[o['status']] = counts.get(o['status'], 0) + 1
            if '--quiet' in argv and o['status'] == 'proved':
                continue
            print(o['status'], o['kind'], o['id'], o['detail'])
    print(f'# {sum(counts.values())} obligations: {counts}; {len(A.functions)} functions, '
          f'{len(A.summaries)} function x case analyses, {A.seconds:.2f} s, repo {A.pkg.root}', file=sys.stderr)
    return 1 if counts.get('failed') else (2 if counts.get('unsupported') else 0)


if __name__ == '__main__':
    sys.exit(main(sys.argv[1:]))
