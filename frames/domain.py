"""frames.domain — typed abstract values of the frame / alias / effect analysis (DESIGN.md section 1.3).

An abstract value (AV) describes every concrete value a variable may hold at a program point:

  kinds   which Python/NumPy sorts it may have: num bool none str slice (immutable, no buffer), arr (ndarray),
          list tuple dict set (containers), gen (numpy Generator), func (callable), obj (other object), type
  org     identities / buffers the value may BE or SHARE MEMORY WITH:
             P:<p>   the object passed as parameter p (for an ndarray: its buffer, for a list/dict: the container)
             E:<p>   anything reachable from parameter p through element access (cores of a TT list, nested lists)
             S:<a>   the state stored in attribute a of `self`
             G:<m>.<n>  a module-level object
             A:<line>:<col>[:k]   a container allocated in the analysed function (lists, dicts, object arrays)
          a numeric ndarray without origins is *fresh* (shares memory with nothing the caller can see)
  items / elem   contents of immutable containers (tuples, iterators) kept inline; contents of mutable containers
          live in the abstract heap (site -> AV), so that aliases between local names see each other's updates
  ndim    number of dimensions of an ndarray / array-like where known
  const   the concrete value for literal numbers / strings / booleans / None (used to prune branches on flags)
  lo      a lower bound for integers (len(Y) >= 2 ...), minlen a lower bound on the length of a sequence
  gen     provenance of a seed / Generator value: seed (derived from the seed parameter), param (generator passed
          in), attr (generator stored on self), const (literal integer seed), entropy, global, unknown
  fn      callable targets (teneva function, class, library function, closure, user callback)
  clock   value depends on the wall clock (tpc())
  via     names of the operations through which parameter origins flowed (for messages)
"""

NOCONST = type('NoConst', (), {'__repr__': lambda s: '?'})()

IMMUT = frozenset({'num', 'bool', 'none', 'str', 'slice', 'type'})
CONT = frozenset({'list', 'tuple', 'dict', 'set', 'obj'})
ALLK = frozenset({'num', 'bool', 'none', 'str', 'slice', 'type', 'arr', 'list', 'tuple', 'dict', 'set', 'gen',
                  'func', 'obj'})
FS = frozenset


class AV:
    __slots__ = ('kinds', 'org', 'items', 'elem', 'ndim', 'const', 'lo', 'minlen', 'gen', 'fn', 'cls', 'objarr',
                 'clock', 'via', '_key')

    def __init__(self, kinds=(), org=(), items=None, elem=None, ndim=None, const=NOCONST, lo=None, minlen=0,
                 gen=(), fn=(), cls=None, objarr=False, clock=False, via=()):
        self.kinds = FS(kinds)
        self.org = FS(org)
        self.items = tuple(items) if items is not None else None
        self.elem = elem
        self.ndim = ndim
        self.const = const
        self.lo = lo
        self.minlen = minlen
        self.gen = FS(gen)
        self.fn = FS(fn)
        self.cls = cls
        self.objarr = objarr
        self.clock = clock
        self.via = FS(via)
        self._key = None

    def key(self):
        if self._key is None:
            c = self.const
            ck = ('?',) if c is NOCONST else (type(c).__name__, repr(c))
            self._key = (self.kinds, self.org, None if self.items is None else tuple(i.key() for i in self.items),
                         None if self.elem is None else self.elem.key(), self.ndim, ck, self.lo, self.minlen,
                         self.gen, self.fn, self.cls, self.objarr, self.clock, self.via)
        return self._key

    def __eq__(self, o):
        return isinstance(o, AV) and self.key() == o.key()

    def __hash__(self):
        return hash(self.key())

    def but(self, **kw):
        d = {s: getattr(self, s) for s in self.__slots__ if s != '_key'}
        d.update(kw)
        return AV(**d)

    # ---- queries
    @property
    def bot(self):
        return not self.kinds

    def may(self, *ks):
        return bool(self.kinds & FS(ks))

    def only(self, *ks):
        return bool(self.kinds) and self.kinds <= FS(ks)

    @property
    def immutable(self):
        return self.kinds <= IMMUT

    @property
    def is_any(self):
        return len(self.kinds) >= len(ALLK) - 1

    def has_const(self):
        return self.const is not NOCONST

    def __repr__(self):
        b = '|'.join(sorted(self.kinds)) if not self.is_any else 'any'
        s = b
        if self.ndim is not None:
            s += f'{self.ndim}'
        if self.org:
            s += '@{' + ','.join(sorted(self.org)) + '}'
        if self.items is not None:
            s += '(' + ', '.join(map(repr, self.items)) + ')'
        if self.elem is not None:
            s += '<' + repr(self.elem) + '>'
        if self.const is not NOCONST:
            s += f'={self.const!r}'
        if self.gen:
            s += '%' + ','.join(sorted(self.gen))
        if self.fn:
            s += '&' + ','.join(sorted(str(f) for f in self.fn))
        return s


BOT = AV()
NUM = AV(['num'])
BOOL = AV(['bool'])
STR = AV(['str'])
NONE = AV(['none'], const=None)
SLICE = AV(['slice'])
FRESHANY = AV(ALLK)
TYPE = AV(['type'])


def num(const=NOCONST, lo=None):
    if const is not NOCONST and isinstance(const, int) and not isinstance(const, bool):
        lo = const
    return AV(['num'], const=const, lo=lo)


def const_av(v):
    if v is None:
        return NONE
    if isinstance(v, bool):
        return AV(['bool'], const=v)
    if isinstance(v, (int, float, complex)):
        return num(v)
    if isinstance(v, str):
        return AV(['str'], const=v)
    if v is Ellipsis:
        return AV(['slice'], const=Ellipsis)
    return AV(['obj'])


def arr(ndim=None, org=(), via=(), objarr=False):
    return AV(['arr'], org=org, ndim=ndim, via=via, objarr=objarr)


MAXDEPTH = 4


def _depth(a):
    d = 0
    if a.items:
        d = max([_depth(i) for i in a.items] + [0]) + 1
    if a.elem is not None:
        d = max(d, _depth(a.elem) + 1)
    return d


def flatten(a):
    """Collapse the inline structure of `a` to one level (used to bound nesting)."""
    parts = []
    if a.items:
        parts += list(a.items)
    if a.elem is not None:
        parts.append(a.elem)
    e = BOT
    for p in parts:
        q = flatten(p) if (p.items or p.elem is not None) else p
        e = join(e, q.but(items=None, elem=None))
        if q.elem is not None:
            e = join(e, q.elem)
    return a.but(items=None, elem=None if e.bot else e.but(items=None, elem=None))


def join(a, b):
    if a is b:
        return a
    if a.bot:
        return b
    if b.bot:
        return a
    if a.key() == b.key():
        return a
    items, elem = None, None
    if a.items is not None and b.items is not None and len(a.items) == len(b.items):
        items = tuple(join(x, y) for x, y in zip(a.items, b.items))
        elem = _j(a.elem, b.elem)
    else:
        e = _j(a.elem, b.elem)
        for src in (a, b):
            if src.items is not None:
                for it in src.items:
                    e = _j(e, it)
        elem = e
    ndim = a.ndim if a.ndim == b.ndim else None
    # ndim describes the ndarray component of a value: a side that cannot be an ndarray does not blur it
    if a.ndim is None and not a.may('arr') and b.ndim is not None:
        ndim = b.ndim
    if b.ndim is None and not b.may('arr') and a.ndim is not None:
        ndim = a.ndim
    const = a.const if (a.const is not NOCONST and b.const is not NOCONST and type(a.const) is type(b.const)
                        and a.const == b.const) else NOCONST
    lo = a.lo if a.lo == b.lo else None
    r = AV(a.kinds | b.kinds, a.org | b.org, items, elem, ndim, const, lo, min(a.minlen, b.minlen),
           a.gen | b.gen, a.fn | b.fn, a.cls if a.cls == b.cls else (a.cls or b.cls if not (a.cls and b.cls) else None),
           a.objarr or b.objarr, a.clock or b.clock, _via(a.via | b.via))
    if _depth(r) > MAXDEPTH:
        r = flatten(r)
    return r


def _via(v):
    if len(v) > 4:
        return FS(sorted(v)[:4])
    return v


def _j(x, y):
    if x is None:
        return y
    if y is None:
        return x
    return join(x, y)


def joins(avs):
    r = BOT
    for a in avs:
        r = join(r, a)
    return r


def deepen(o):
    """Origin of things reachable from origin o by element access."""
    if o.startswith('P:'):
        return 'E:' + o[2:]
    return o


def is_site(o):
    return o.startswith('A:')


def root_param(o):
    """Parameter name an origin belongs to (None for sites / globals)."""
    if o.startswith(('P:', 'E:', 'N:')):
        return o[2:]
    if o.startswith('S:'):
        return 'self'
    return None


def describe_origin(o):
    if o.startswith('P:'):
        return f'parameter {o[2:]}'
    if o.startswith('E:'):
        return f'elements of parameter {o[2:]}'
    if o.startswith('N:'):
        return f'a container nested in parameter {o[2:]}'
    if o.startswith('S:'):
        return f'self.{o[2:]}'
    if o.startswith('G:'):
        return f'module-level object {o[2:]}'
    return f'local container allocated at line {o.split(":")[1]}'


# ----------------------------------------------------------------------------------------------
# type descriptors  (used for parameter types, return types and attribute types in the contracts)
#
#   spec  := alt ('|' alt)*
#   alt   := NAME [ '(' spec (',' spec)* ')' ] [ '~' PARAM ['[]'] ]  |  '~' PARAM ['[]']
#   NAME  := num bool none str arr arr0..arr4 like like1 like2 list tuple dict tt gen seed cb func any obj:<cls>
#            objarr type fresh
#   '~p'  : the value may be (or be a view of) the object passed as parameter p;  '~p[]' : of elements of p

class Spec:
    __slots__ = ('name', 'args', 'alias', 'alts', 'const')

    def __init__(self, name=None, args=(), alias=None, alts=None, const=NOCONST):
        self.name, self.args, self.alias, self.alts, self.const = name, tuple(args), alias, alts, const

    def aliases(self):
        out = set()
        if self.alts:
            for a in self.alts:
                out |= a.aliases()
            return out
        if self.alias:
            out.add(self.alias)
        for a in self.args:
            out |= a.aliases()
        return out

    def __repr__(self):
        if self.alts:
            return '|'.join(map(repr, self.alts))
        s = self.name or ''
        if self.args:
            s += '(' + ','.join(map(repr, self.args)) + ')'
        if self.alias:
            s += '~' + self.alias
        if self.const is not NOCONST:
            s += f'={self.const!r}'
        return s


_SPEC_CACHE = {}


def parse_spec(text):
    if isinstance(text, Spec):
        return text
    if text in _SPEC_CACHE:
        return _SPEC_CACHE[text]
    toks, i, n = [], 0, len(text)
    while i < n:
        c = text[i]
        if c.isspace():
            i += 1
        elif c in '(),|~=':
            toks.append(c)
            i += 1
        elif c == '[' and text[i:i + 2] == '[]':
            toks.append('[]')
            i += 2
        else:
            j = i
            while j < n and (text[j].isalnum() or text[j] in '_.:-'):
                j += 1
            if j == i:
                raise ValueError(f'bad type descriptor {text!r}')
            toks.append(text[i:j])
            i = j
    pos = [0]

    def peek():
        return toks[pos[0]] if pos[0] < len(toks) else None

    def eat(t=None):
        tok = peek()
        if t is not None and tok != t:
            raise ValueError(f'bad type descriptor {text!r}: expected {t!r} at token {pos[0]}')
        pos[0] += 1
        return tok

    def alias_tail():
        eat('~')
        p = eat()
        if peek() == '[]':
            eat()
            p += '[]'
        return p

    def alt():
        if peek() == '~':
            return Spec(name=None, alias=alias_tail())
        name = eat()
        args = []
        if peek() == '(':
            eat('(')
            if peek() != ')':
                args.append(spec())
                while peek() == ',':
                    eat(',')
                    args.append(spec())
            eat(')')
        al = alias_tail() if peek() == '~' else None
        cst = NOCONST
        if peek() == '=':
            eat('=')
            v = eat()
            cst = {'True': True, 'False': False, 'None': None}.get(v, v)
            if isinstance(cst, str):
                try:
                    cst = int(cst)
                except ValueError:
                    pass
        return Spec(name, args, al, const=cst)

    def spec():
        alts = [alt()]
        while peek() == '|':
            eat('|')
            alts.append(alt())
        return alts[0] if len(alts) == 1 else Spec(alts=alts)

    s = spec()
    if peek() is not None:
        raise ValueError(f'bad type descriptor {text!r}: trailing {peek()!r}')
    _SPEC_CACHE[text] = s
    return s


_ARRND = {'arr': None, 'arr0': 0, 'arr1': 1, 'arr2': 2, 'arr3': 3, 'arr4': 4}
_LIKEND = {'like': None, 'like1': 1, 'like2': 2}


def spec_kinds(spec):
    """Kinds a descriptor admits (used for case selection and conformance checks)."""
    spec = parse_spec(spec)
    if spec.alts:
        k = FS()
        for a in spec.alts:
            k |= spec_kinds(a)
        return k
    n = spec.name
    if n is None:
        return ALLK
    if n in _ARRND or n == 'objarr':
        return FS({'arr'})
    if n in _LIKEND:
        return FS({'arr', 'list', 'tuple'})
    if n == 'tt':
        return FS({'list'})
    if n == 'seed':
        return FS({'none', 'num', 'gen'})
    if n in ('cb', 'func'):
        return FS({'func', 'type'})
    if n in ('any', 'fresh'):
        return ALLK
    if n.startswith('obj'):
        return FS({'obj'})
    if n in ALLK:
        return FS({n})
    raise ValueError(f'unknown type name {n!r}')


def param_av(spec, p, heap):
    """Abstract value of parameter p declared with descriptor `spec`; fills the heap entries P:p / N:p.

    Identities: P:p the object itself; N:p containers nested inside p; E:p ndarray buffers (or anything untyped)
    reachable inside p."""
    spec = parse_spec(spec)
    P, E, N = 'P:' + p, 'E:' + p, 'N:' + p

    def build(s, depth):
        buf = P if depth == 0 else E
        me = P if depth == 0 else N
        n = s.name
        if s.alts:
            return joins(build(a, depth) for a in s.alts)
        if s.const is not NOCONST:
            return const_av(s.const)
        if n in ('num', 'bool', 'str', 'none', 'slice', 'type'):
            return NONE if n == 'none' else AV([n])
        if n in _ARRND:
            return AV(['arr'], org=[buf], ndim=_ARRND[n])
        if n == 'objarr':
            e = build(s.args[0], depth + 1) if s.args else AV(ALLK, org=[E])
            _heap_join(heap, me, e)
            return AV(['arr'], org=[me], objarr=True)
        if n in _LIKEND:
            _heap_join(heap, me, AV(['num', 'list', 'tuple'], org=[N]))
            _heap_join(heap, N, AV(['num', 'list', 'tuple'], org=[N]))
            return AV(['arr', 'list', 'tuple'], org=[buf if buf == P else E, me], ndim=_LIKEND[n])
        if n == 'tt':
            _heap_join(heap, me, AV(['arr'], org=[E], ndim=3))
            return AV(['list'], org=[me], minlen=2)
        if n in ('list', 'set', 'dict'):
            e = build(s.args[0], depth + 1) if s.args else AV(ALLK, org=[E])
            _heap_join(heap, me, e)
            return AV([n], org=[me])
        if n == 'tuple':
            if s.args:
                return AV(['tuple'], items=[build(a, depth + 1) for a in s.args], minlen=len(s.args))
            return AV(['tuple'], elem=AV(ALLK, org=[E]))
        if n == 'gen':
            return AV(['gen'], gen=['param'])
        if n == 'seed':
            return AV(['none', 'num', 'gen'], gen=['seed'])
        if n in ('cb', 'func'):
            return AV(['func'], fn=[('cb', p)])
        if n == 'any':
            return AV(ALLK, org=[buf], fn=[('cb', p)])
        if n.startswith('obj'):
            return AV(['obj'], org=[me], cls=n[4:] or None)
        raise ValueError(f'type {n!r} not usable for a parameter')

    return build(spec, 0)


def _heap_join(heap, site, av):
    old = heap.get(site)
    heap[site] = av if old is None else join(old, av)
