"""frames.calls — calls: library models, declared contracts of teneva callees (modular), closures, callbacks."""
import ast
from frames.domain import (AV, BOT, NUM, BOOL, STR, NONE, FRESHANY, TYPE, ALLK, NOCONST, IMMUT, num, arr, const_av,
                           join, joins, is_site, root_param, describe_origin, parse_spec, spec_kinds, Spec)
from frames import models
from frames.state import src

GEN_OK = {'seed', 'param', 'attr', 'const'}


class Closure:
    def __init__(self, node, name, env_ref, interp):
        self.node, self.name, self.interp = node, name, interp
        a = node.args
        self.params = [p.arg for p in a.posonlyargs + a.args + a.kwonlyargs]
        self.defaults = {}
        nd = len(a.defaults)
        pos = [p.arg for p in a.posonlyargs + a.args]
        for p, d in zip(pos[len(pos) - nd:], a.defaults):
            self.defaults[p] = d
        bound = set(self.params)
        body = node.body if isinstance(node.body, list) else [node.body]
        for n in body:
            for x in ast.walk(n):
                if isinstance(x, ast.Name) and isinstance(x.ctx, ast.Store):
                    bound.add(x.id)
        self.free = set()
        for n in body:
            for x in ast.walk(n):
                if isinstance(x, ast.Name) and isinstance(x.ctx, ast.Load) and x.id not in bound:
                    self.free.add(x.id)
        self.escaped = False
        self.busy = False


class CallMixin:

    # ------------------------------------------------------------------ bookkeeping
    def event(self, kind, origin, how, node, text, soft=False, via=(), data=None):
        from frames.state import Event
        ln = getattr(node, 'lineno', None) or getattr(self.cur_stmt, 'lineno', 0)
        if via:
            ext = sorted(v for v in via if v)
            if ext:
                text += ' (via ' + ', '.join(ext) + ')'
        e = Event(kind, origin, how, ln, text, soft or self.soft_mode > 0, data)
        k = e.key()
        if k not in self._evkeys:
            self._evkeys.add(k)
            self.events.append(e)

    def unknown(self, node, text):
        self.event('unknown', None, None, node, text, soft=True)

    def unsupported(self, node, what):
        self.event('unknown', None, 'construct', node, f'unsupported construct: {what} in `{src(node, 60)}`', soft=True)

    def callname(self, node):
        f = node.func if isinstance(node, ast.Call) else node
        s = src(f, 60)
        return s

    def gstate_access(self, name, node, mode):
        ln, val, mut = self.mod.globals.get(name, (0, None, True))
        self.event('gstate', f'G:{self.mod.name}.{name}', mode, node,
                   f'{src(node, 60)} {"writes" if mode == "write" else "reads"} module-level name {name} '
                   f'(defined at teneva/{self.mod.name}.py:{ln}, {"mutable" if mut else "constant"})',
                   data={'mutable': mut})

    def effect_io(self, what, node):
        self.event('io', None, what, node, f'{src(node, 60)} performs I/O ({what})')

    def effect_clock(self, node):
        self.event('clockread', None, None, node, f'{src(node, 60)} reads the wall clock')

    def clock_use(self, a, node, where):
        if a is not None and a.clock:
            self.event('clock', None, 'use', node, f'a clock-dependent value flows into {where}: {src(node, 60)}')

    def clock_store(self, node, key):
        self.event('clock', None, 'store', node,
                   f"a clock-dependent value is stored somewhere other than info['t']: {src(node, 60)}")

    # ------------------------------------------------------------------ generators
    def make_generator(self, s, node, name):
        if s is None or (s.has_const() and s.const is None) or s.only('none'):
            self.event('rng', 'entropy', name, node,
                       f'{src(node, 60)} creates a generator seeded from OS entropy (no seed passed)')
            return AV(['gen'], gen=['entropy'])
        if s.gen:
            g = set(s.gen)
        elif s.has_const() and isinstance(s.const, int):
            g = {'const'}
        else:
            g = {'unknown'}
        return AV(['gen'], gen=g)

    def effect_draw(self, recv, node):
        g = set(recv.gen)
        if not recv.may('gen') and not recv.is_any:
            return
        if not g:
            g = {'unknown'}
        for tag in g:
            if tag in ('global', 'entropy'):
                self.event('rng', tag, 'draw', node, f'{src(node, 70)} draws from a generator that is '
                           f'{"the global NumPy generator" if tag == "global" else "seeded from OS entropy"}')
            elif tag == 'unknown':
                self.event('rng', 'unknown', 'draw', node,
                           f'{src(node, 70)} draws from a generator of unknown provenance', soft=True)
            else:
                self.event('rng', tag, 'draw', node, f'{src(node, 70)} draws from a generator derived from {tag}')

    def check_seed_arg(self, callee, a, node, pname='seed'):
        """a: abstract value passed for the seed / generator parameter of a seeded callee (None if omitted)."""
        if a is None or a.only('none') or (a.has_const() and a.const is None):
            self.event('rng', 'entropy', 'call', node,
                       f'{src(node, 70)} calls the seeded function {callee} without a seed (fresh OS entropy)')
            return
        g = set(a.gen)
        if not g:
            g = {'const'} if (a.has_const() and isinstance(a.const, int)) else {'unknown'}
        for tag in g:
            if tag in ('global', 'entropy'):
                self.event('rng', tag, 'call', node, f'{src(node, 70)} passes a {tag} generator to {callee}')
            elif tag == 'unknown':
                self.event('rng', 'unknown', 'call', node,
                           f'{src(node, 70)} passes a {pname} of unknown provenance to the seeded function {callee}', soft=True)
            else:
                self.event('rng', tag, 'call', node, f'{src(node, 70)} passes a {pname} derived from {tag} to {callee}')

    # ------------------------------------------------------------------ types
    def type_kinds(self, t):
        """kinds matched by isinstance(x, t)"""
        import numpy as np
        if t.only('tuple') and t.items is not None:
            out = set()
            for i in t.items:
                k = self.type_kinds(i)
                if k is None:
                    return None
                out |= k
            return out
        if not t.has_const():
            return None
        c = t.const
        table = {int: {'num', 'bool'}, float: {'num'}, complex: {'num'}, bool: {'bool'}, str: {'str'},
                 list: {'list'}, tuple: {'tuple'}, dict: {'dict'}, set: {'set'}, np.ndarray: {'arr'}}
        if c in table:
            return table[c]
        if isinstance(c, type) and issubclass(c, np.generic):
            return {'num'}
        return None

    def isinstance_(self, x, t):
        tk = self.type_kinds(t)
        if tk is None or x.bot:
            return BOOL
        if x.kinds <= tk:
            return const_av(True)
        if not (x.kinds & tk):
            return const_av(False)
        return BOOL

    # ------------------------------------------------------------------ closures
    def make_closure(self, node, name):
        c = Closure(node, name, None, self)
        c.captured = {n: self.state.env[n] for n in c.free if n in self.state.env}
        cid = f'{name}@{node.lineno}:{node.col_offset}'
        self.closures[cid] = c
        return AV(['func'], fn=[('closure', cid)])

    def closure_orgs(self, cid, seen):
        c = self.closures.get(cid)
        out = set()
        if c is None or self.state is None:
            return out
        key = 'closure:' + cid
        if key in seen:
            return out
        seen.add(key)
        for n in c.free:
            v = self.state.env.get(n, getattr(c, 'captured', {}).get(n))
            if v is not None:
                out |= self.deep_orgs(v, seen)
        return out

    def call_closure(self, cid, args, kw, node, escape=False):
        c = self.closures.get(cid)
        if c is None or c.busy:
            return FRESHANY
        c.busy = True
        saved_env = self.state.env
        env = dict(saved_env)
        for n, v in getattr(c, 'captured', {}).items():
            env.setdefault(n, v)             # variables of an enclosing activation that has already returned
        for i, p in enumerate(c.params):
            if i < len(args):
                env[p] = args[i]
            elif p in kw:
                env[p] = kw[p]
            elif p in c.defaults:
                env[p] = self.ev(c.defaults[p])
            else:
                env[p] = FRESHANY
        self.state.env = env
        self.frames.append([])
        saved_loops, self.loops = self.loops, []
        saved_stmt = self.cur_stmt
        if isinstance(c.node, ast.Lambda):
            res = self.ev(c.node.body)
        else:
            body = c.node.body
            self.block(body)
            rets = self.frames[-1]
            res = NONE if self.state is not None else BOT
            st = self.state
            for v, s, n in rets:
                res = join(res, v)
                st = s if st is None else st.join(s)
            self.state = st
        self.frames.pop()
        self.loops = saved_loops
        self.cur_stmt = saved_stmt
        if self.state is not None:
            self.state.env = {k: v for k, v in self.state.env.items() if k in saved_env}
            for k, v in saved_env.items():
                self.state.env.setdefault(k, v)
        c.busy = False
        return res

    def escape_value(self, v, node):
        """A closure handed to other code is analysed once with unknown (fresh) arguments."""
        for t in v.fn:
            if t[0] == 'closure':
                c = self.closures.get(t[1])
                if c is not None and not c.escaped:
                    c.escaped = True
                    self.call_closure(t[1], [], {}, node, escape=True)

    # ------------------------------------------------------------------ calls
    def ev_Call(self, e):
        f = e.func
        recv = None
        mname = None
        if isinstance(f, ast.Attribute):
            base = self.ev(f.value)
            libs = [t for t in base.fn if t[0] == 'lib']
            if libs and base.only('func', 'type'):
                fav = self.getattr_(base, f.attr, f)
            elif base.fn and any(t[0] == 'globalrng' for t in base.fn):
                fav = base
            else:
                recv, mname = base, f.attr
                fav = None
        else:
            fav = self.ev(f)
        args, kw, starred = [], {}, False
        for a in e.args:
            if isinstance(a, ast.Starred):
                args.append(('*', self.ev(a.value)))
                starred = True
            else:
                args.append(self.ev(a))
        for k in e.keywords:
            if k.arg is None:
                self.ev(k.value)
                kw['**'] = FRESHANY
            else:
                kw[k.arg] = self.ev(k.value)
        if self.state is None:
            return BOT
        if recv is not None:
            return self.call_method(recv, mname, self._flat(args), kw, e)
        return self.call_value(fav, args, kw, e)

    def _flat(self, args):
        out = []
        for a in args:
            if isinstance(a, tuple):
                el = self.iter_elem(a[1])
                n = self.static_len(a[1])
                if n is not None and a[1].items is not None:
                    out += list(a[1].items)
                else:
                    out += [el, el, el]
            else:
                out.append(a)
        return out

    def call_value(self, fav, args, kw, node):
        res = []
        handled = False
        for t in sorted(fav.fn, key=str):
            handled = True
            if t[0] == 'lib':
                res.append(self.call_lib(t[1], self._flat(args), kw, node))
            elif t[0] == 'globalrng':
                nm = t[1]
                self.event('rng', 'global', 'call', node,
                           f'{src(node, 70)} reads and writes the global NumPy generator ({nm})')
                fa = self._flat(args)
                if nm.endswith('.shuffle') and fa:
                    self.write_shuffle(fa[0], node)
                    res.append(NONE)
                elif nm.endswith(('.seed', '.set_state')):
                    res.append(NONE)
                else:
                    res.append(AV(['arr', 'num']))
            elif t[0] == 'tf':
                res.append(self.call_teneva(t[1], args, kw, node))
            elif t[0] == 'cls':
                res.append(self.call_class(t[1], t[2], args, kw, node))
            elif t[0] == 'closure':
                res.append(self.call_closure(t[1], self._flat(args), kw, node))
            elif t[0] == 'cb':
                res.append(self.call_callback(t[1], self._flat(args), kw, node))
            elif t[0] == 'bound':                # method object taken from an instance of a teneva class
                res.append(self.call_teneva(f'{t[1]}.{t[2]}', list(args), kw, node,
                                            recv=AV(['obj'], org=['P:self'] if self.self_cls == t[1] else [], cls='teneva:' + t[1])))
        if fav.may('obj') and fav.cls and fav.cls.startswith('teneva:'):
            handled = True
            res.append(self.call_method_contract(fav, '__call__', self._flat(args), kw, node))
        elif fav.may('obj') and fav.cls == 'numpy.poly':
            handled = True
            res.append(AV(['num', 'arr']))
        if fav.has_const() and isinstance(fav.const, type) and not fav.fn:
            handled = True
            res.append(NUM if fav.const in (int, float, bool, complex) else FRESHANY)
        if not handled:
            if fav.only('none'):
                return BOT
            res.append(self.call_unknown(src(node.func if isinstance(node, ast.Call) else node, 50),
                                         self._flat(args), kw, node))
        return joins(res)

    def call_callback(self, p, args, kw, node):
        """User callback (A-CB): neither writes nor retains nor returns its arguments."""
        self.assumptions.add('A-CB')
        self.callbacks_used.add(p)
        for a in list(args) + list(kw.values()):
            self.escape_value(a, node)
        return FRESHANY

    def call_unknown(self, name, args, kw, node, recv=None):
        self.unknown(node, f'call of a callable without a model or contract: {name}')
        orgs = set()
        vals = list(args) + list(kw.values()) + ([recv] if recv is not None else [])
        for a in vals:
            if isinstance(a, AV):
                d = self.deep_orgs(a)
                orgs |= d
                self.escape_value(a, node)
        for o in sorted(orgs):
            self.event('write', o, 'any', node, f'{name}(...) is unknown and may modify', soft=True)
        self.event('rng', 'unknown', 'call', node, f'{name}(...) is unknown and may use the global generator', soft=True)
        return AV(ALLK, org=orgs, via=['unknown-callee'])

    # ---- library
    def call_lib(self, dotted, args, kw, node):
        # uniform keyword effects
        if dotted.startswith('numpy.random.') and dotted not in models.RNG_OK:
            self.event('rng', 'global', 'call', node, f'{src(node, 70)} reads and writes the global NumPy generator')
            return AV(['arr', 'num'])
        m = models.FUNCS.get(dotted)
        if m is None or m.fn is None:
            if dotted.startswith('builtins.') and dotted[9:] in ('exit', 'quit', 'input', 'eval', 'exec', 'globals',
                                                                  'locals', 'vars', 'setattr', 'delattr', '__import__'):
                return self.call_unknown(dotted, args, kw, node)
            return self.call_unknown(dotted, args, kw, node)
        models.USED.add(f'{dotted} [{m.rule}]')
        for k, (pos, alt) in models.OVERWRITE.items():
            if k in kw and 'overwrite' in m.rule:
                v = kw[k]
                if not (v.has_const() and v.const is False):
                    target = args[pos] if pos < len(args) else kw.get(alt)
                    if target is not None:
                        hard = v.has_const() and v.const is True
                        self.write_buf(target, node,
                                       f'{src(node, 70)} with {k}={"True" if hard else "<not False>"} may overwrite',
                                       soft=False)
        r = m.fn(self, node, args, kw)
        if 'out' in kw and not kw['out'].only('none') and (dotted.startswith(('numpy.', 'opt_einsum.', 'scipy.'))):
            o = kw['out']
            self.write_buf(o, node, f'{src(node, 70)} writes its result into out=')
            return o
        if any(isinstance(a, AV) and a.clock for a in args) and r.immutable and not r.clock:
            r = r.but(clock=True)
        for a in args:
            if isinstance(a, AV) and a.fn:
                self.escape_value(a, node)
        return r

    # ---- methods
    def call_method(self, recv, m, args, kw, node):
        if recv.bot:
            return BOT
        res = []
        handled = False
        if recv.may('obj') and recv.cls and recv.cls.startswith('teneva:'):
            handled = True
            res.append(self.call_method_contract(recv, m, args, kw, node))
            if recv.only('obj'):
                return joins(res)
        for kinds, model in models.METHODS.get(m, []):
            if recv.kinds & kinds or recv.is_any:
                if 'obj' in kinds and recv.may('obj') and recv.cls and recv.cls.startswith('teneva:') and not recv.is_any:
                    continue
                handled = True
                models.USED.add(f'{model.name} on {"|".join(sorted(kinds))} [{model.rule}]')
                sub = recv if recv.is_any else recv.but(kinds=recv.kinds & kinds)
                if 'gen' in kinds and recv.is_any and not recv.gen and m != 'shuffle' and m in ('choice', 'random', 'normal', 'uniform'):
                    pass
                r = model.fn(self, node, sub, args, kw)
                if 'out' in kw:
                    self.write_buf(kw['out'], node, f'{src(node, 70)} writes its result into out=')
                    r = kw['out']
                res.append(r)
        if not handled:
            res.append(self.call_unknown(f'<{"|".join(sorted(recv.kinds)) if not recv.is_any else "object"}>.{m}',
                                         args, kw, node, recv=recv))
        return joins(res)

    # ---- teneva callees: declared contracts
    def bind_args(self, fi, args, kw, node, skip_self=False):
        """-> dict param -> AV (None when the argument is omitted and the default is not a literal)."""
        params = [p for p in fi.params if not (skip_self and p == 'self')]
        bound = {}
        i = 0
        star_tail = None
        for a in args:
            if isinstance(a, tuple):
                items = a[1].items if (a[1].items is not None and a[1].elem is None) else None
                if items is not None:
                    for it in items:
                        if i < len(params):
                            bound[params[i]] = it
                            i += 1
                else:
                    star_tail = self.iter_elem(a[1])
                    for p in params[i:]:
                        bound[p] = star_tail
                continue
            if star_tail is not None:
                for p in params[i:]:
                    bound[p] = join(bound[p], a)
                continue
            if i < len(params):
                bound[params[i]] = a
                i += 1
            elif fi.vararg:
                bound.setdefault('*' + fi.vararg, []).append(a)
            else:
                self.unknown(node, f'too many positional arguments for {fi.key}')
        for k, v in kw.items():
            if k == '**':
                continue
            if k in fi.all_params:
                bound[k] = v
            elif not fi.kwarg:
                self.unknown(node, f'{fi.key} has no parameter {k!r}')
        omitted = set()
        for p in fi.all_params:
            if p in bound or (skip_self and p == 'self'):
                continue
            omitted.add(p)
            d = fi.defaults.get(p)
            if d is None:
                bound[p] = None
            elif isinstance(d, ast.Constant):
                bound[p] = const_av(d.value)
            elif isinstance(d, ast.UnaryOp) and isinstance(d.operand, ast.Constant) and isinstance(d.op, ast.USub):
                bound[p] = const_av(-d.operand.value)
            elif isinstance(d, ast.Dict) and not d.keys:
                bound[p] = AV(['dict'], org=[f'A:default:{fi.key}.{p}'])
            else:
                bound[p] = FRESHANY
        return bound, omitted

    def select_cases(self, ct, bound):
        out = []
        for case in ct.cases:
            ok = True
            for p, val in case.flags.items():
                a = bound.get(p)
                if a is None:
                    continue
                if a.has_const():
                    if not (a.const == val and type(a.const) is type(val)) and not (a.const is None and val is None):
                        if not (isinstance(val, (int, float)) and not isinstance(val, bool) and isinstance(a.const, (int, float)) and not isinstance(a.const, bool) and a.const == val):
                            ok = False
                            break
                elif val is None and not a.may('none'):
                    ok = False
                    break
                elif val is not None and a.only('none'):
                    ok = False
                    break
            if not ok:
                continue
            for p, spec in case.params.items():
                a = bound.get(p)
                if a is None or a.bot:
                    continue
                if not (a.kinds & spec_kinds(spec)):
                    ok = False
                    break
            if ok:
                out.append(case)
        return out

    def call_teneva(self, key, args, kw, node, recv=None):
        A = self.A
        fi = A.pkg.lookup(key)
        ct = A.contract(key)
        if fi is None or ct is None:
            return self.call_unknown(key, self._flat(args), kw, node)
        self.callees_used.add(key)
        bound, omitted = self.bind_args(fi, args, kw, node, skip_self=recv is not None)
        if recv is not None:
            bound['self'] = recv
        if ct.excluded:
            self.unknown(node, f'{key} is excluded from the analysis ({ct.excluded})')
            return self.call_unknown(key, self._flat(args), kw, node)
        cases = self.select_cases(ct, bound)
        if not cases:
            self.unknown(node, f'{src(node, 70)}: no declared contract case of {key} admits these arguments '
                               f'(declared: {", ".join(c.name or "default" for c in ct.cases)})')
            return self.call_unknown(key, self._flat(args), kw, node)
        res = []
        for case in cases:
            res.append(self.apply_case(fi, ct, case, bound, omitted, node))
        return joins(res)

    def apply_case(self, fi, ct, case, bound, omitted, node):
        label = f'{fi.key}[{case.name}]' if case.name else fi.key
        # effects on arguments
        for p, how in case.modifies.items():
            a = bound.get(p)
            if a is None or p in omitted:
                continue
            text = f'{src(node, 70)}: callee {label} is declared to modify its argument {p}, which is'
            if how in ('cont', 'any'):
                self.write_cont(a, node, text)
                st = case.stores.get(p)
                sv = self.instantiate(parse_spec(st), bound, label) if st else FRESHANY
                if a.may('list', 'dict', 'set', 'obj') or a.objarr or a.is_any:
                    self.store_elem(a, sv, node)
            if how in ('buf', 'any'):
                if a.may('arr') or a.is_any:
                    self.write_buf(a, node, text)
                if a.may('list', 'tuple', 'dict') or a.objarr:
                    e = self.elem_of(a)
                    self.write_buf(e, node, text)
        # default-dict discipline: keys the callee reads before writing them
        for p, keys in case.dict_reads.items():
            a = bound.get(p)
            if a is None or p in omitted:
                continue
            for k in keys:
                self.dict_read(a, const_av(k) if k != '*' else None, node, f'callee {label}')
        # randomness
        if case.seed_param:
            sp = case.seed_param
            self.check_seed_arg(label, None if sp in omitted else bound.get(sp), node, sp)
        # clock
        for p, a in bound.items():
            if isinstance(a, AV) and a.clock and p not in case.clock_params:
                self.event('clock', None, 'call', node, f'{src(node, 70)} passes a clock-dependent value to {label}({p}=...)')
        # closures handed to the callee are executed there
        for p, a in bound.items():
            if isinstance(a, AV) and a.fn:
                self.escape_value(a, node)
        # result
        if case.returns is None:
            r = FRESHANY
        else:
            r = self.instantiate(parse_spec(case.returns), bound, label, node)
            if case.ndim_from and r.only('arr'):
                sh = bound.get(case.ndim_from)
                nd = models.shape_ndim(self, sh) if sh is not None else None
                if nd is not None:
                    r = r.but(ndim=nd)
        if case.retains:
            orgs = set()
            for p in case.retains:
                a = bound.get(p)
                if a is not None:
                    orgs |= {o for o in self.deep_orgs(a)}
            if orgs and r.may('obj'):
                s = self.new_site(node, 'obj')
                self.state.heap[s] = join(self.state.heap.get(s, BOT), AV(ALLK, org=orgs, via=[f'{label} keeps a reference']))
                r = r.but(org=r.org | {s})
        return r

    def instantiate(self, spec, bound, label, node=None):
        """Abstract value described by a return-type descriptor in the caller's context."""
        if spec.alts:
            return joins(self.instantiate(a, bound, label, node) for a in spec.alts)
        n = spec.name
        base = BOT
        if spec.const is not NOCONST:
            base = const_av(spec.const)
        elif n is None:
            base = BOT
        elif n in ('num', 'bool', 'str', 'slice', 'type'):
            base = AV([n])
        elif n == 'none':
            base = NONE
        elif n in ('arr', 'arr0', 'arr1', 'arr2', 'arr3', 'arr4'):
            base = arr({'arr': None}.get(n, int(n[3:]) if len(n) > 3 else None))
        elif n == 'objarr':
            e = self.instantiate(spec.args[0], bound, label, node) if spec.args else FRESHANY
            base = self.new_objarr(node or self.cur_stmt, e)
        elif n == 'tt':
            base = self.new_list(node or self.cur_stmt, arr(3), minlen=2, tag='ret:' + label)
        elif n in ('list', 'set', 'dict'):
            e = self.instantiate(spec.args[0], bound, label, node) if spec.args else FRESHANY
            base = self.new_list(node or self.cur_stmt, e, tag=f'ret{id(spec) % 997}:' + label, kind=n)
        elif n == 'tuple':
            if spec.args:
                base = AV(['tuple'], items=[self.instantiate(a, bound, label, node) for a in spec.args], minlen=len(spec.args))
            else:
                base = AV(['tuple'], elem=FRESHANY)
        elif n == 'gen':
            base = AV(['gen'], gen=['unknown'])
        elif n in ('any', 'fresh'):
            base = FRESHANY
        elif n in ('func', 'cb'):
            base = AV(['func'], fn=[('cb', 'result of ' + label)])
        elif n.startswith('obj'):
            cls = n[4:]
            base = AV(['obj'], cls=('teneva:' + cls) if cls and not cls.startswith('numpy') else (cls or None))
        elif n in ('like', 'like1', 'like2'):
            base = AV(['arr'], ndim={'like': None, 'like1': 1, 'like2': 2}[n])
        else:
            raise ValueError(f'bad return descriptor {spec!r} in contract of {label}')
        if spec.alias:
            p = spec.alias
            deep = p.endswith('[]')
            p = p[:-2] if deep else p
            if '.' in p:                     # '~self.attr': the state stored in that attribute
                o = bound.get(p.split('.')[0])
                a = self.obj_attr(o, p.split('.', 1)[1], node) if (o is not None and o.cls and o.cls.startswith('teneva:')) else o
            else:
                    a = bound.get(p)
            if a is None and n == 'gen':
                a = NONE                      # generator parameter omitted: seeded from OS entropy
            if a is not None and not a.bot:
                if deep:
                    a = self.elem_of(a)
                if n is None:
                    al = a
                elif n.startswith('arr'):
                    al = self.view(a, base.ndim, label, may=True) if (a.may('arr') or a.is_any) else BOT
                    if a.gen:
                        al = al
                elif n == 'gen':
                    al = self.make_generator(a, node or self.cur_stmt, label)
                    base = BOT
                else:
                    al = a
                if not al.bot and self._ext(self.deep_orgs(al)) and label not in al.via:
                    al = al.but(via=al.via | {label})
                base = join(base, al)
        return base

    # ---- classes and methods of teneva
    def call_class(self, mod, cname, args, kw, node):
        key = f'{mod}.{cname}.__init__'
        fi = self.A.pkg.lookup(key)
        obj = AV(['obj'], cls=f'teneva:{mod}.{cname}')
        if fi is None:
            return obj
        ct = self.A.contract(key)
        if ct is None:
            return self.call_unknown(key, self._flat(args), kw, node)
        s = self.new_site(node, 'obj')
        self.state.heap.setdefault(s, BOT)
        obj = obj.but(org=[s])
        self.callees_used.add(key)
        bound, omitted = self.bind_args(fi, args, kw, node, skip_self=True)
        bound['self'] = obj
        cases = self.select_cases(ct, bound)
        if not cases:
            self.unknown(node, f'no declared contract case of {key} admits these arguments')
            return self.call_unknown(key, self._flat(args), kw, node)
        for case in cases:
            c2 = case
            saved = c2.returns
            r = self.apply_case(fi, ct, case.but_returns(f'obj:{mod}.{cname}'), bound, omitted, node)
            obj = join(obj, r.but(cls=f'teneva:{mod}.{cname}'))
        return obj

    def call_method_contract(self, recv, m, args, kw, node):
        cls = recv.cls[len('teneva:'):]
        key = f'{cls}.{m}'
        fi = self.A.pkg.lookup(key)
        if fi is None:
            return self.call_unknown(key, args, kw, node, recv=recv)
        return self.call_teneva(key, list(args), kw, node, recv=recv)

    def obj_attr(self, base, attr, node):
        """attribute of an instance of a teneva class: property -> contract of the getter; data -> declared type"""
        cls = base.cls[len('teneva:'):]
        mod, cname = cls.split('.')
        fi = self.A.pkg.lookup(f'{cls}.{attr}')
        if fi is not None and fi.is_property:
            return self.call_teneva(f'{cls}.{attr}', [], {}, node, recv=base)
        if fi is not None:
            return AV(['func'], fn=[('bound', cls, attr)])
        is_self = 'P:self' in base.org
        if is_self:
            k = 'self.' + attr
            if k in self.state.env:
                return self.state.env[k]
        spec = self.A.class_attrs(cls).get(attr)
        if spec is None:
            if is_self:
                return AV(ALLK, org=['S:' + attr])
            return AV(ALLK, org=base.org, via=base.via)
        from frames.domain import param_av
        if is_self:
            return self.self_attr_av(attr, spec)
        # attribute of another instance: its state is whatever the object may reach
        v = param_av(spec, '\0', {})
        reach = self.deep_orgs(base)
        return self._retag2(v, reach)

    def self_attr_av(self, attr, spec):
        """declared value of self.<attr>; installs the heap entries S:<attr> / S:<attr>[] on first use"""
        from frames.domain import param_av
        tmp = {}
        v = param_av(spec, '\0', tmp)
        m = {'P:\0': 'S:' + attr, 'E:\0': 'S:' + attr + '[]'}

        def fix(a):
            if a is None:
                return None
            return a.but(org={m.get(o, o) for o in a.org}, gen={'attr' if g == 'param' else g for g in a.gen},
                         items=[fix(i) for i in a.items] if a.items is not None else None, elem=fix(a.elem),
                         fn=[t for t in a.fn if t[0] != 'cb'])
        if not type(self)._has_any(parse_spec(spec)):
            self.typed_origins |= {'S:' + attr, 'S:' + attr + '[]'}
        for site, hv in tmp.items():
            s2 = m.get(site, site)
            if s2 not in self.state.heap:
                self.state.heap[s2] = fix(hv)
        return fix(v)

    def _retag2(self, v, reach):
        def fix(a):
            if a is None:
                return None
            return a.but(org=set(reach) if a.org else (), gen={'attr' if g == 'param' else g for g in a.gen},
                         items=[fix(i) for i in a.items] if a.items is not None else None, elem=fix(a.elem),
                         fn=[t for t in a.fn if t[0] != 'cb'])
        return fix(v)

    def check_attr_type(self, attr, v, node):
        if not self.self_cls:
            return
        spec = self.A.class_attrs(self.self_cls).get(attr)
        if spec is None:
            return
        want = spec_kinds(spec)
        if v.bot or v.is_any:
            return
        if not (v.kinds <= want):
            self.event('unknown', None, None, node,
                       f'{src(node, 60)}: value of kinds {sorted(v.kinds)} does not fit the declared attribute type '
                       f'{spec!r} of self.{attr}', soft=True)
            self.events[-1].how = 'type'
        if 'gen' in want and v.may('gen'):
            bad = set(v.gen) - GEN_OK
            for b in bad:
                if b != 'unknown':
                    self.event('rng', b, 'attr', node, f'{src(node, 60)} stores a {b} generator in self.{attr}')
