"""frames.state — abstract state (environment + abstract heap + must-written dict keys), events, and the value
helpers shared by the interpreter and the model table."""
import ast
from frames.domain import (AV, BOT, NUM, BOOL, STR, NONE, FRESHANY, TYPE, ALLK, NOCONST, IMMUT, CONT, num, arr,
                           const_av, join, joins, deepen, is_site, root_param, describe_origin)


class State:
    __slots__ = ('env', 'heap', 'written')

    def __init__(self, env=None, heap=None, written=None):
        self.env = env if env is not None else {}
        self.heap = heap if heap is not None else {}
        self.written = written if written is not None else {}      # origin -> frozenset of keys definitely written

    def copy(self):
        return State(dict(self.env), dict(self.heap), dict(self.written))

    def join(self, o):
        if o is None:
            return self.copy()
        env = dict(self.env)
        for k, v in o.env.items():
            env[k] = join(env[k], v) if k in env else v
        heap = dict(self.heap)
        for k, v in o.heap.items():
            heap[k] = join(heap[k], v) if k in heap else v
        written = {}
        for k in set(self.written) & set(o.written):
            written[k] = self.written[k] & o.written[k]
        return State(env, heap, written)

    def same(self, o):
        return o is not None and self.env == o.env and self.heap == o.heap and self.written == o.written


def sjoin(a, b):
    if a is None:
        return b.copy() if b is not None else None
    if b is None:
        return a
    return a.join(b)


class Event:
    __slots__ = ('kind', 'origin', 'how', 'lineno', 'text', 'soft', 'data')

    def __init__(self, kind, origin=None, how=None, lineno=0, text='', soft=False, data=None):
        self.kind, self.origin, self.how, self.lineno, self.text, self.soft, self.data = \
            kind, origin, how, lineno, text, soft, data

    def key(self):
        return (self.kind, self.origin, self.how, self.lineno, self.soft, str(self.data))

    def __repr__(self):
        return f'<{self.kind} {self.origin} {self.how} L{self.lineno} {"soft " if self.soft else ""}{self.text}>'


def src(node, limit=90):
    try:
        s = ast.unparse(node)
    except Exception:
        s = type(node).__name__
    s = ' '.join(s.split())
    return s if len(s) <= limit else s[:limit - 3] + '...'


class ValueOps:
    """Mixin: operations on abstract values that need the heap (self.state) and the event log (self.event)."""

    # ---- allocation
    def new_site(self, node, tag=''):
        base = f'A:{getattr(node, "lineno", 0)}:{getattr(node, "col_offset", 0)}'
        if tag:
            base += ':' + tag
        return base

    def new_list(self, node, elem, minlen=0, tag='', kind='list'):
        s = self.new_site(node, tag or kind)
        old = self.state.heap.get(s)
        self.state.heap[s] = elem if old is None else join(old, elem)
        if kind == 'tuple':
            return AV(['tuple'], elem=elem, minlen=minlen)
        return AV([kind], org=[s], minlen=minlen)

    def new_objarr(self, node, elem, ndim=None):
        s = self.new_site(node, 'objarr')
        old = self.state.heap.get(s)
        self.state.heap[s] = elem if old is None else join(old, elem)
        return AV(['arr'], org=[s], ndim=ndim, objarr=True)

    # ---- heap access
    def heap_get(self, o):
        h = self.state.heap.get(o)
        if h is not None:
            return h
        if o.startswith(('P:', 'E:', 'S:', 'G:')) and o not in self.typed_origins:
            return AV(ALLK, org=[deepen(o)], fn=[('cb', root_param(o) or o)])
        return BOT

    def elem_of(self, av, keys=False):
        """Join of everything obtainable from `av` by ONE element access / iteration step."""
        if av.bot:
            return BOT
        parts = []
        if av.items is not None:
            parts += list(av.items)
        if av.elem is not None:
            parts.append(av.elem)
        if av.may('str'):
            parts.append(STR)
        if av.may('arr') and not av.objarr:
            if av.ndim == 1 or av.ndim == 0:
                parts.append(NUM)
            elif av.ndim is not None:
                parts.append(AV(['arr'], org=av.org, ndim=av.ndim - 1, via=av.via | ({'iteration'} if self._ext(av.org) else set())))
            else:
                parts.append(AV(['arr', 'num'], org=av.org, via=av.via | ({'iteration'} if self._ext(av.org) else set())))
        if av.may('dict') and keys:
            parts.append(self.key_av(av))
            if av.only('dict'):
                return joins(parts)
        if av.may('list', 'tuple', 'dict', 'set', 'obj') or av.objarr:
            for o in av.org:
                parts.append(self.heap_get(o))
            if av.objarr and av.ndim is not None and av.ndim >= 2:
                parts.append(av)         # a row of a 2-D object array is again an object array on the same site
        if av.is_any and not av.org and av.items is None and av.elem is None:
            parts.append(FRESHANY)
        return joins(parts)

    def iter_elem(self, av):
        return self.elem_of(av, keys=True)

    def key_av(self, av):
        return AV(['num', 'str', 'tuple'], elem=NUM)

    @staticmethod
    def _ext(org):
        return any(not is_site(o) for o in org)

    def minlen_of(self, av):
        return av.minlen or 0

    def static_len(self, av):
        if av.items is not None and av.only('tuple', 'list') and av.elem is None:
            return len(av.items)
        return None

    def deep_orgs(self, av, seen=None, depth=0):
        """All external origins (P:/E:/S:/G:) reachable from av, with sites followed through the heap."""
        out = set()
        if av is None or av.bot:
            return out
        if seen is None:
            seen = set()
        for o in av.org:
            if is_site(o):
                if o not in seen:
                    seen.add(o)
                    h = self.state.heap.get(o)
                    if h is not None:
                        out |= self.deep_orgs(h, seen, depth + 1)
            else:
                out.add(o)
                if (av.may('list', 'tuple', 'dict', 'set', 'obj') or av.objarr):
                    h = self.state.heap.get(o)
                    if h is not None and o not in seen:
                        seen.add(o)
                        out |= self.deep_orgs(h, seen, depth + 1)
                    elif h is None and o not in self.typed_origins:
                        out.add(deepen(o))
        if av.items is not None:
            for i in av.items:
                out |= self.deep_orgs(i, seen, depth + 1)
        if av.elem is not None:
            out |= self.deep_orgs(av.elem, seen, depth + 1)
        for t in av.fn:
            if t[0] == 'closure':
                out |= self.closure_orgs(t[1], seen)
        return out

    def deep_vias(self, av, seen=None):
        out = set(av.via)
        seen = seen if seen is not None else set()
        for o in av.org:
            if o not in seen:
                seen.add(o)
                h = self.state.heap.get(o)
                if h is not None:
                    out |= self.deep_vias(h, seen)
        for i in (av.items or ()):
            out |= self.deep_vias(i, seen)
        if av.elem is not None:
            out |= self.deep_vias(av.elem, seen)
        return out

    def deep_elems(self, av, depth=0):
        """Leaves of nested lists / tuples (what np.array(nested, dtype=object) stores)."""
        e = self.iter_elem(av)
        if depth < 3 and e.may('list', 'tuple') and not e.bot:
            inner = self.deep_elems(e.but(kinds=e.kinds & {'list', 'tuple'}), depth + 1)
            rest = e.kinds - {'list', 'tuple'}
            return join(inner, e.but(kinds=rest, items=None, elem=None) if rest else BOT)
        return e

    # ---- derived values
    def view(self, x, ndim, label, may=False, arraylike=False):
        if x.bot:
            return arr(ndim)
        ext = self._ext(x.org)
        if x.may('arr') or x.is_any or x.may('obj'):
            via = x.via | ({label} if ext else set())
            r = AV(['arr'], org=x.org, ndim=ndim, objarr=x.objarr, via=via, clock=x.clock)
            if x.only('arr') or x.is_any:
                return r
            return join(r, arr(ndim))
        return AV(['arr'], ndim=ndim, clock=x.clock)

    def copy_of(self, av, node):
        if av.bot:
            return BOT
        if av.only('arr', 'num', 'bool') and not av.objarr:
            return AV(['arr'], ndim=av.ndim) if av.may('arr') else NUM
        kinds = (av.kinds - IMMUT) or av.kinds
        e = self.elem_of(av)
        if av.may('arr') and not av.objarr and not av.may('list', 'dict', 'set', 'obj', 'tuple'):
            return AV(['arr'], ndim=av.ndim)
        s = self.new_site(node, 'copy')
        old = self.state.heap.get(s)
        self.state.heap[s] = e if old is None else join(old, e)
        return AV(kinds, org=[s], ndim=av.ndim, objarr=av.objarr, minlen=av.minlen)

    def deep_fresh(self, av, node):
        return AV(av.kinds, ndim=av.ndim, minlen=av.minlen)

    def as_fresh_unless_shared(self, e):
        return e

    def matmul(self, a, b):
        if a.only('num', 'bool') and b.only('num', 'bool'):
            return NUM
        nd = None
        if a.ndim is not None and b.ndim is not None:
            if a.ndim == 1 and b.ndim == 1:
                return NUM
            if a.ndim == 1:
                nd = b.ndim - 1
            elif b.ndim == 1:
                nd = a.ndim - 1
            else:
                nd = max(a.ndim, b.ndim)
        big = (a.ndim is not None and a.ndim >= 2 and a.only('arr')) or (b.ndim is not None and b.ndim >= 2 and b.only('arr'))
        return AV(['arr'] if (nd or big) else ['arr', 'num'], ndim=nd)

    # ---- effects on values
    def write_buf(self, av, node, text, soft=False):
        """The buffer of an ndarray value is overwritten."""
        if av.bot or av.immutable:
            return
        for o in av.org:
            if not is_site(o):
                self.event('write', o, 'buf', node, text, soft=soft, via=av.via)

    def write_cont(self, av, node, text, soft=False):
        """A container (list / dict / object) is changed."""
        if av.bot or av.immutable:
            return
        for o in av.org:
            if not is_site(o):
                self.event('write', o, 'cont', node, text, soft=soft, via=av.via)
            if o in self.state.written and False:
                pass

    def write_shuffle(self, x, node):
        if x.may('arr') or x.is_any:
            self.write_buf(x, node, 'shuffle() permutes in place')
        if x.may('list'):
            self.write_cont(x, node, 'shuffle() permutes in place')

    def store_elem(self, recv, v, node):
        """v becomes reachable from container recv (weak update of every site recv may denote)."""
        if v is None or v.bot:
            return
        for o in recv.org:
            old = self.state.heap.get(o)
            if old is None and not is_site(o):
                old = self.heap_get(o)
            self.state.heap[o] = v if old is None else join(old, v)
            if not is_site(o) and o.startswith('S:'):
                ext = {x for x in self.deep_orgs(v) if x.startswith(('P:', 'E:', 'N:')) and root_param(x) != 'self'}
                for x in ext:
                    self.event('retain', x, 'attr', node, f'stores a reference to {describe_origin(x)} in self.{o[2:]}')

    # ---- dict key tracking (default-dict discipline)
    def tracked(self, o):
        return o in self.tracked_dicts

    def mark_written(self, recv, keys, node):
        if len(recv.org) != 1:
            return
        (o,) = tuple(recv.org)
        cur = self.state.written.get(o, frozenset())
        self.state.written[o] = cur | frozenset(k for k in keys if isinstance(k, (str, int)))

    def dict_keys_of(self, av):
        """constant keys of a dict literal value (recorded at creation), or None"""
        if len(av.org) == 1:
            (o,) = tuple(av.org)
            if is_site(o) and o in self.literal_keys:
                return list(self.literal_keys[o])
        return None

    def dict_read(self, recv, key, node, how):
        if not recv.may('dict') and not recv.is_any:
            return
        for o in recv.org:
            if not self.tracked(o):
                continue
            k = key.const if (key is not None and key.has_const()) else '*'
            if k != '*' and k in self.state.written.get(o, frozenset()):
                continue
            self.event('dictread', o, k, node, f'{how} reads key {k!r} of {describe_origin(o)} before it is written in this call')
