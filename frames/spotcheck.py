"""frames.spotcheck — executes the real NumPy / SciPy operations behind the alias rules of frames/models.py on small
arrays of C-order, Fortran-order and strided layouts and compares `np.shares_memory` with the rule:

    fresh            must never share memory with the argument
    view-of(k)       must always share
    may-view-of(k)   unconstrained (both outcomes are recorded)
    writes(k) / not  the argument must (not) change

    PYTHONPATH=/verif /venv/bin/python -m frames.spotcheck        prints failures and a summary
    spotcheck.run() -> list of (rule, ok, detail)                  ok is True / False / None (no sample for the rule)
"""
import sys
import numpy as np
import scipy as sp
import scipy.linalg
from scipy.fftpack import dct, dst


def layouts(shape=(4, 3, 2)):
    n = int(np.prod(shape))
    base = np.arange(1., n + 1).reshape(shape)
    out = {'C': np.ascontiguousarray(base), 'F': np.asfortranarray(base)}
    big = np.arange(1., 8 * n + 1).reshape(tuple(2 * s for s in shape))
    out['strided'] = big[tuple(slice(None, None, 2) for _ in shape)]
    out['transposed'] = np.ascontiguousarray(base.transpose(2, 1, 0)).transpose(2, 1, 0)
    return out


def sq(a):
    """a well conditioned square matrix derived from a (for linalg samples)"""
    m = a.reshape(a.shape[0], -1)[:3, :3] if a.ndim > 2 else a[:3, :3]
    return m


# name -> (rule, function of one array returning the result whose sharing is tested, optional ndim of the sample)
A3 = 3
S = {}


def add(names, rule, fn, nd=3):
    for n in names.split():
        S[n] = (rule, fn, nd)


# --- fresh
add('arith:+', 'fresh', lambda a: a + 1)
add('arith:*', 'fresh', lambda a: a * 2.)
add('arith:unary-', 'fresh', lambda a: -a)
add('arith:@', 'fresh', lambda a: a @ a.T, 2)
add('numpy.dot', 'fresh', lambda a: np.dot(a, a.T), 2)
add('numpy.matmul', 'fresh', lambda a: np.matmul(a, a.T), 2)
add('numpy.concatenate', 'fresh', lambda a: np.concatenate([a], axis=0))
add('numpy.concatenate:2', 'fresh', lambda a: np.concatenate([a, a], axis=2))
add('numpy.hstack', 'fresh', lambda a: np.hstack([a]))
add('numpy.vstack', 'fresh', lambda a: np.vstack([a]))
add('numpy.stack', 'fresh', lambda a: np.stack([a]))
add('numpy.kron', 'fresh', lambda a: np.kron(a, np.ones((1, 1))), 2)
add('numpy.kron:ones', 'fresh', lambda a: np.kron(np.ones((1, 1)), a), 2)
add('numpy.outer', 'fresh', lambda a: np.outer(a[:, 0], np.ones(1)), 2)
add('numpy.einsum', 'fresh', lambda a: np.einsum('ijk,k->ij', a, np.ones(a.shape[2])))
add('numpy.einsum:outer', 'fresh', lambda a: np.einsum('ijk,l->ijkl', a, np.ones(1))[..., 0])
add('numpy.einsum:ones', 'fresh', lambda a: np.einsum('l,ijk->ijk', np.ones(1), a))
add('opt_einsum.contract', 'fresh', lambda a: __import__('opt_einsum').contract('ijk,k->ij', a, np.ones(a.shape[2])))
add('opt_einsum.contract:ones', 'fresh', lambda a: __import__('opt_einsum').contract('l,ijk->ijk', np.ones(1), a))
add('numpy.einsum:single', 'may-view-of(0)', lambda a: np.einsum('ijk->ijk', a))
add('numpy.tensordot', 'fresh', lambda a: np.tensordot(np.ones((1, 1)), a[None], 1)[0])
add('numpy.tensordot:identity', 'fresh', lambda a: np.tensordot(a, np.eye(a.shape[-1]), 1))
add('numpy.tile', 'fresh', lambda a: np.tile(a, 1))
add('numpy.repeat', 'fresh', lambda a: np.repeat(a, 1, axis=0))
add('numpy.copy', 'fresh', lambda a: np.copy(a))
add('.copy', 'fresh', lambda a: a.copy())
add('.flatten', 'fresh', lambda a: a.flatten())
add('.astype', 'fresh', lambda a: a.astype(float))
add('numpy.array', 'fresh', lambda a: np.array(a))
add('numpy.array:dtype', 'fresh', lambda a: np.array(a, dtype=float))
add('numpy.abs', 'fresh', lambda a: np.abs(a))
add('numpy.sqrt', 'fresh', lambda a: np.sqrt(a))
add('numpy.maximum', 'fresh', lambda a: np.maximum(a, 0))
add('numpy.clip', 'fresh', lambda a: np.clip(a, 0, 1e9))
add('numpy.rint', 'fresh', lambda a: np.rint(a))
add('numpy.cos', 'fresh', lambda a: np.cos(a))
add('numpy.cumsum', 'fresh', lambda a: np.cumsum(a, axis=0))
add('numpy.sum:axis', 'fresh', lambda a: np.sum(a, axis=1))
add('numpy.sum:axis-size1', 'fresh', lambda a: np.sum(a[:, :1], axis=1))
add('numpy.max:axis', 'fresh', lambda a: np.max(a, axis=0))
add('numpy.mean:axis', 'fresh', lambda a: np.mean(a, axis=0))
add('numpy.where', 'fresh', lambda a: np.where(a > 0, a, 0.))
add('numpy.sort', 'fresh', lambda a: np.sort(a, axis=0))
add('numpy.unique', 'fresh', lambda a: np.unique(a))
add('numpy.interp', 'fresh', lambda a: np.interp(a[:, 0], a[:, 0], a[:, 0]), 2)
add('numpy.diag:1d', 'fresh', lambda a: np.diag(a[:, 0]), 2)
add('numpy.linalg.qr', 'fresh', lambda a: np.linalg.qr(a)[0], 2)
add('numpy.linalg.qr:R', 'fresh', lambda a: np.linalg.qr(a)[1], 2)
add('numpy.linalg.svd', 'fresh', lambda a: np.linalg.svd(a, full_matrices=False)[0], 2)
add('numpy.linalg.eigh', 'fresh', lambda a: np.linalg.eigh(sq(a) @ sq(a).T)[1], 2)
add('numpy.linalg.solve', 'fresh', lambda a: np.linalg.solve(np.eye(a.shape[0]), a), 2)
add('numpy.linalg.lstsq', 'fresh', lambda a: np.linalg.lstsq(np.eye(a.shape[0]), a, rcond=-1)[0], 2)
add('scipy.linalg.rq', 'fresh', lambda a: sp.linalg.rq(a, mode='economic', check_finite=False)[1], 2)
add('scipy.linalg.lu', 'fresh', lambda a: sp.linalg.lu(a, check_finite=False)[2], 2)
add('scipy.linalg.lstsq', 'fresh', lambda a: sp.linalg.lstsq(np.eye(a.shape[0]), a, overwrite_a=False, overwrite_b=False)[0], 2)
add('scipy.linalg.solve_triangular', 'fresh', lambda a: sp.linalg.solve_triangular(np.eye(a.shape[0]), a, check_finite=False), 2)
add('scipy.linalg.toeplitz', 'fresh', lambda a: sp.linalg.toeplitz(a[:, 0]), 2)
add('scipy.fftpack.dct', 'fresh', lambda a: dct(a, 1, axis=1))
add('scipy.fftpack.dst', 'fresh', lambda a: dst(a, 1, axis=1))
add('numpy.fft.fft', 'fresh', lambda a: np.fft.fft(a, axis=0))
S['A[index array / list / mask] (fancy indexing)'] = ('fresh', lambda a: a[:, [0, 1]], 3)
S['A[int / slice / None / ...] (basic indexing)'] = ('view-of(0)', lambda a: a[0, ..., None], 3)
S['numpy.r_[...]'] = ('fresh', lambda a: np.r_[-np.inf, a[:, 0]], 2)
S['.dot'] = ('fresh', lambda a: a.dot(np.eye(a.shape[1])), 2)
S['.dot:vector'] = ('fresh', lambda a: a.dot(a[0]), 2)
S['.normal'] = ('fresh', lambda a: np.random.default_rng(0).normal(a, 1.), 3)
S['.uniform'] = ('fresh', lambda a: np.random.default_rng(0).uniform(a, a + 1), 3)
S['.choice'] = ('fresh', lambda a: np.random.default_rng(0).choice(a[:, 0, 0], 2), 3)
S['.permutation'] = ('fresh', lambda a: np.random.default_rng(0).permutation(a), 3)
S['numpy.full'] = ('fresh', lambda a: np.full(a.shape, a[0, 0]), 2)
S['numpy.polyder'] = ('fresh', lambda a: np.polyder(a[:, 0]), 2)
S['numpy.searchsorted'] = ('fresh', lambda a: np.searchsorted(a[:, 0], a[:, 0]), 2)
S['numpy.ravel_multi_index'] = ('fresh', lambda a: np.ravel_multi_index(np.zeros((2, 3), dtype=int), [2, 2], order='F'), 2)
S['numpy.unravel_index'] = ('fresh', lambda a: np.unravel_index(np.arange(3), [2, 2], order='F')[0], 2)
S['.item'] = ('fresh', lambda a: a[:1, :1].item(), 2)
add('index:fancy-list', 'fresh', lambda a: a[[0, 1]])
add('index:fancy-array', 'fresh', lambda a: a[np.arange(a.shape[0])])
add('index:fancy-all', 'fresh', lambda a: a[:, np.arange(a.shape[1])])
add('index:bool-mask', 'fresh', lambda a: a[a > -1])
add('index:range', 'fresh', lambda a: a[range(2), range(2)], 2)
add('index:where[0]', 'fresh', lambda a: a[np.where(a[:, 0] > 0)[0]], 2)
add('Generator.choice', 'fresh', lambda a: np.random.default_rng(0).choice(a.reshape(-1), 3))
add('Generator.permutation', 'fresh', lambda a: np.random.default_rng(0).permutation(a))
add('builtins.sum', 'fresh', lambda a: sum([a]))
add('numpy.r_', 'fresh', lambda a: np.r_[a[:, 0]], 2)
# --- views
add('index:basic-slice', 'view-of(0)', lambda a: a[1:])
add('index:basic-int', 'view-of(0)', lambda a: a[0])
add('index:basic-none', 'view-of(0)', lambda a: a[:, None])
add('index:basic-ellipsis', 'view-of(0)', lambda a: a[..., 0])
add('index:basic-step', 'view-of(0)', lambda a: a[::2])
add('.T', 'view-of(0)', lambda a: a.T)
add('numpy.transpose', 'view-of(0)', lambda a: np.transpose(a))
add('.transpose', 'view-of(0)', lambda a: a.transpose())
add('numpy.swapaxes', 'view-of(0)', lambda a: np.swapaxes(a, 0, 1))
add('numpy.flipud', 'view-of(0)', lambda a: np.flipud(a))
add('numpy.fliplr', 'view-of(0)', lambda a: np.fliplr(a))
add('numpy.diag:2d', 'view-of(0)', lambda a: np.diag(a), 2)
add('numpy.squeeze', 'view-of(0)', lambda a: np.squeeze(a[:1]))
add('numpy.expand_dims', 'view-of(0)', lambda a: np.expand_dims(a, 0))
add('iteration', 'view-of(0)', lambda a: next(iter(a)))
# --- may-view
add('numpy.reshape', 'may-view-of(0)', lambda a: np.reshape(a, (a.shape[0], -1)))
add('numpy.reshape:F', 'may-view-of(0)', lambda a: np.reshape(a, (a.shape[0], -1), order='F'))
add('.reshape', 'may-view-of(0)', lambda a: a.reshape(-1))
add('.reshape:F', 'may-view-of(0)', lambda a: a.reshape(-1, order='F'))
add('numpy.ravel', 'may-view-of(0)', lambda a: np.ravel(a))
add('numpy.asarray', 'may-view-of(0)', lambda a: np.asarray(a))
add('numpy.asarray:dtype=int', 'may-view-of(0)', lambda a: np.asarray(a, dtype=int))
add('numpy.asanyarray', 'may-view-of(0)', lambda a: np.asanyarray(a, dtype=float))
add('numpy.array:copy=None', 'may-view-of(0)', lambda a: np.array(a, copy=None))
add('.real', 'may-view-of(0)', lambda a: a.real)
add('numpy.real', 'may-view-of(0)', lambda a: np.real(a))
add('.astype:copy=False', 'may-view-of(0)', lambda a: a.astype(float, copy=False))

# effects: (name, rule, function(a) performing the call, expects change of a?)
E = [
    ('out=', 'writes(out)', lambda a: np.abs(-a, out=a), None),     # result identical values; checked by identity below
    ('A[...] = x', 'writes(recv)', lambda a: a.__setitem__(Ellipsis, 0.), True),
    ('A += 1', 'writes(recv)', lambda a: a.__iadd__(1.), True),
    ('.sort()', 'writes(recv)', lambda a: (a.__setitem__(Ellipsis, -a), a.sort(axis=0)), True),
    ('.fill()', 'writes(recv)', lambda a: a.fill(0.), True),
    ('Generator.shuffle', 'writes(0)', lambda a: [np.random.default_rng(k).shuffle(a) for k in range(5)], True),
    ('scipy.linalg.lstsq(overwrite_b=False)', 'no write', lambda a: sp.linalg.lstsq(np.eye(a.shape[0]) * 2, a.reshape(a.shape[0], -1), overwrite_a=False, overwrite_b=False), False),
    ('scipy.linalg.lu(default)', 'no write', lambda a: sp.linalg.lu(a.reshape(a.shape[0], -1), check_finite=False), False),
    ('scipy.linalg.solve_triangular(default)', 'no write', lambda a: sp.linalg.solve_triangular(np.eye(a.shape[0]) * 2, a.reshape(a.shape[0], -1), check_finite=False), False),
    ('scipy.linalg.rq(default)', 'no write', lambda a: sp.linalg.rq(a.reshape(a.shape[0], -1), mode='economic', check_finite=False), False),
    ('numpy.linalg.qr', 'no write', lambda a: np.linalg.qr(a.reshape(a.shape[0], -1)), False),
    ('numpy.linalg.svd', 'no write', lambda a: np.linalg.svd(a.reshape(a.shape[0], -1), full_matrices=False), False),
    ('scipy.fftpack.dct(default)', 'no write', lambda a: dct(a, 1, axis=1), False),
    ('numpy.unique', 'no write', lambda a: np.unique(a, axis=0), False),
]


def _auto(u, nm, rule):
    """rules without a hand-written sample: call the NumPy function / method generically on each layout"""
    fails, seen = [], []
    for lname, a in layouts().items():
        try:
            if nm.startswith('.'):
                attr = getattr(a, nm[1:])
                r = attr() if callable(attr) else attr
            else:
                f = np
                for part in nm.split('.')[1:]:
                    f = getattr(f, part)
                try:
                    r = f(a)
                except Exception:
                    try:
                        r = f(a, a)
                    except Exception:
                        r = f(3)              # creation functions take a shape, not an array
        except Exception as ex:
            return (u, None, f'no executable sample for this rule ({type(ex).__name__})')
        rs = r if isinstance(r, (tuple, list)) else [r]
        shares = any(isinstance(x, np.ndarray) and np.shares_memory(x, a) for x in rs)
        seen.append(f'{lname}:{"shares" if shares else "fresh"}')
        if 'fresh' in rule and 'view' not in rule and shares:
            fails.append(f'{lname}: result shares memory with the argument')
    return (u, not fails, '; '.join(fails) if fails else 'generic call: ' + ' '.join(seen))


def run():
    out = []
    for name, (rule, fn, nd) in sorted(S.items()):
        outcomes, fails = [], []
        for lname, a0 in layouts().items():
            a = a0 if nd == 3 else a0[:, :, 0]
            try:
                r = fn(a)
            except Exception as ex:
                fails.append(f'{lname}: raised {type(ex).__name__}: {ex}')
                continue
            shares = bool(np.shares_memory(r, a)) if isinstance(r, np.ndarray) else False
            outcomes.append(f'{lname}:{"shares" if shares else "fresh"}')
            if rule == 'fresh' and shares:
                fails.append(f'{lname}: result shares memory with the argument')
            if rule.startswith('view-of') and not shares:
                fails.append(f'{lname}: result does not share memory with the argument')
        out.append((f'{name} [{rule}]', not fails, '; '.join(fails) if fails else ' '.join(outcomes)))
    for name, rule, fn, changes in E:
        fails = []
        for lname, a0 in layouts().items():
            a = np.array(a0, order='K', copy=True) if lname in ('C', 'F') else a0
            before = a.copy()
            try:
                fn(a)
            except Exception as ex:
                fails.append(f'{lname}: raised {type(ex).__name__}: {ex}')
                continue
            changed = not np.array_equal(before, a)
            if changes is True and not changed:
                fails.append(f'{lname}: argument unchanged')
            if changes is False and changed:
                fails.append(f'{lname}: argument was modified')
        out.append((f'{name} [{rule}]', not fails, '; '.join(fails)))
    # rules used by the last analysis without an executable sample
    try:
        from frames import models
        have = {n.split(':')[0] for n in S} | {n for n, _, _, _ in E}
        for u in sorted(models.USED):
            nm = u.split(' [')[0].split(' on ')[0]
            rule = u.split(' [')[-1].rstrip(']')
            if nm in ('.convert', '.integ', '.roots', '.keys', '.startswith', 'pickle.load'):
                continue                       # not array operations (series objects, dict, str, file)
            if any(k in rule for k in ('fresh', 'view')) and nm not in have and not nm.startswith('builtins.'):
                out.append(_auto(u, nm, rule))
    except Exception:
        pass
    return out


def main():
    res = run()
    bad = [r for r in res if r[1] is False]
    for r in res:
        if r[1] is False or '-v' in sys.argv:
            print('FAIL' if r[1] is False else ('ok  ' if r[1] else 'n/a '), r[0], '--', r[2])
    print(f'# spot-check: {sum(1 for r in res if r[1])} rules agree with NumPy {np.__version__} / SciPy {sp.__version__}, '
          f'{len(bad)} disagree, {sum(1 for r in res if r[1] is None)} without sample')
    return 1 if bad else 0


if __name__ == '__main__':
    sys.exit(main())
