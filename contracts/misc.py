"""Sidecar contracts for the helpers around grids, explicit / random constructors and samplers
(C18: grid_prep_opt, grid_flat;  C19: matrix_delta, poly, rand*;  C14 / C10: sample_rand, sample_square).
Model-table entries: ttvc/mx_misc.py."""
import z3
from ttvc.units import unit
from ttvc.symex import VOpt, VStr, VRec, VSeq, VArr, VFunc, VTuple, VRef, VList, VSym, NONE, Z
from ttvc import models as M, theory as T, rnd as R, mx_misc as X
from contracts import spec as S

IA = z3.ArraySort(z3.IntSort(), z3.IntSort())
RA = z3.ArraySort(z3.IntSort(), z3.RealSort())
kk = z3.Int('kk')
tt = z3.Int('tt')


def trunc(x):
    """int(x) for a real x: truncation toward zero."""
    return z3.If(x >= 0, z3.ToInt(x), -z3.ToInt(-x))


# ----------------------------------------------------------------------------------------------
# grid.grid_prep_opt  (C18: "scalar and per-dimension options are interchangeable")
#
# Covered: None -> None; a number -> ValueError iff d is None or d <= 0, otherwise the length-d vector whose every element is
# kind(opt); a list / array -> the vector of the same length with the elements kind(opt[k]) (no exception: the length check
# against d is the business of grid_prep_opts, unit grid.grid_prep_opts.*); with reps: the (reps, d) matrix whose every row is
# that vector.  Not covered: dtype / rounding of float(opt) (A-REAL), 0-d / 2-D array arguments, bool arguments.

def _elem(v, k):
    """Element k of the returned option as a real number (1-D vector, or any row of the repeated matrix)."""
    return M.to_real(v.t[k])


def _prep_opt_case(U, okind, kind, with_reps):
    fn = U.func('grid', 'grid_prep_opt')
    ex = U.executor(fn)
    st = U.state()
    d = S.opt_int('d')
    L = z3.Int('len_opt')
    reps = z3.Int('reps')
    oarr = z3.Const('opt', RA)
    pre = []
    if okind == 'float':
        opt = z3.Real('opt')
        want = lambda k: opt if kind == 'float' else z3.ToReal(trunc(opt))
    elif okind == 'int':
        opt = z3.Int('opt')
        want = lambda k: z3.ToReal(opt)
    elif okind == 'list':
        opt = st.alloc(VSeq(oarr, L, lambda t: t, tag='real'))
        pre.append(L >= 0)
        want = lambda k: oarr[k] if kind == 'float' else z3.ToReal(trunc(oarr[k]))
    else:
        opt = X.rvec(L, oarr)
        pre.append(L >= 0)
        want = lambda k: oarr[k] if kind == 'float' else z3.ToReal(trunc(oarr[k]))
    if with_reps:
        pre.append(reps >= 0)
    st.vars.update(opt=opt, d=d, kind=X.TypeFn(kind), reps=reps if with_reps else NONE)
    res = U.run(ex, st, pre=pre)
    U.cover('precondition-satisfiable', U.pre)
    scalar = okind in ('float', 'int')
    bad = z3.Or(d.isnone, d.val <= 0) if scalar else z3.BoolVal(False)
    n = d.val if scalar else L
    if scalar:
        U.cover('accepting-case-reachable', U.pre + [z3.Not(bad)])
        U.cover('rejecting-case-reachable', U.pre + [bad])
    for p, o in res:
        if o.kind == 'raise':
            U.raise_iff('raises-only-for-a-number-without-a-positive-dimension', p, bad)
            U.raise_iff('raises-ValueError', p, o.exc == 'ValueError')
            continue
        U.raise_iff('returns-only-if-the-dimension-is-known-for-a-number', p, z3.Not(bad))
        v = p.deref(o.value)
        if with_reps:
            ok = isinstance(v, VArr) and v.ndim == 2 and v.tag == 'rowrep' and X.is_vec1(getattr(v, 'vec', None))
            U.post('result-is-a-matrix-of-repeated-rows', p, z3.BoolVal(ok))
            if not ok:
                continue
            U.post('shape-is-(reps,d)', p, z3.And(Z(v.shape[0]) == reps, Z(v.shape[1]) == n))
            vec = v.vec
        else:
            ok = X.is_vec1(v)
            U.post('result-is-a-vector', p, z3.BoolVal(bool(ok)))
            if not ok:
                continue
            U.post('length-is-d', p, Z(v.shape[0]) == n)
            vec = v
        U.post('dtype-is-the-requested-kind', p, z3.BoolVal(v.dtype == ('i' if kind == 'int' else 'f')))
        U.post('every-element-is-the-option-value-of-its-dimension', p, z3.Implies(z3.And(0 <= kk, kk < n), _elem(vec, kk) == want(kk)))
        U.canary('canary-all-elements-zero', p, z3.Implies(z3.And(0 <= kk, kk < n), _elem(vec, kk) == 0))


@unit('grid.grid_prep_opt.none', props=('C18',))
def u_prep_opt_none(U):
    fn = U.func('grid', 'grid_prep_opt')
    for with_reps in (False, True):
        ex = U.executor(fn)
        st = U.state()
        st.vars.update(opt=NONE, d=S.opt_int('d'), kind=X.TypeFn('float'), reps=z3.Int('reps') if with_reps else NONE)
        for p, o in U.run(ex, st):
            U.post('None-stays-None', p, z3.BoolVal(o.kind == 'return' and o.value is NONE))
    U.cover('reachable', U.pre)


for _ok in ('float', 'int', 'list', 'array'):
    for _kd in ('float', 'int'):
        for _rp in (False, True):
            def _mk(ok=_ok, kd=_kd, rp=_rp):
                @unit(f'grid.grid_prep_opt.{ok}.{kd}' + ('.reps' if rp else ''), props=('C18',))
                def u(U):
                    _prep_opt_case(U, ok, kd, rp)
            _mk()


# ----------------------------------------------------------------------------------------------
# grid.grid_flat  (C18: "the flat grid enumerates every multi-index exactly once with the first index running fastest")
#
# Element level: the result has prod(n) rows and d columns and  I[t, k] = (t div (n_0 ... n_{k-1})) mod n_k  - the mixed-radix
# digits of the row number t, least significant digit in column 0.  From that: every entry lies inside its mode, row 0 is the
# zero multi-index, column 0 is t mod n_0 (first index fastest).  The NumPy facts (meshgrid 'ij' / 'xy', stacking, reshape in
# 'F' / 'C' order, .T) are model-table entries of ttvc/mx_misc.py; the unit proves that the code composes them to this
# enumeration.  "Exactly once" is the bijectivity of the mixed-radix representation (cited, L-RADIX) - not proved here.
# Not covered: float / numpy-scalar mode sizes inside the list, n_k = 0.

AXG = T.axioms('mulI', 'pprod')


def _grid_flat_unit(U, nkind):
    fn = U.func('grid', 'grid_flat')
    ex = U.executor(fn, axioms=AXG)
    st = U.state()
    d = z3.Int('d')
    narr = z3.Const('n', T.IDX)
    n = st.alloc(VSeq(narr, d, lambda x: x, tag='int')) if nkind == 'list' else X.ivec(d, narr)
    st.vars.update(n=n)
    sizes = z3.ForAll([tt], z3.Implies(z3.And(0 <= tt, tt < d), narr[tt] >= 1), patterns=[narr[tt]])
    res = U.run(ex, st, pre=[d >= 1, sizes])
    U.cover('precondition-satisfiable', U.pre, axioms=AXG)
    P = lambda k: X.pprod(narr, k)
    # lemma: every prefix product of mode sizes >= 1 is >= 1 (induction on k; mulI(a, b) >= a for a, b >= 1)
    U.lemma('prefix-products-are-positive.base', [d >= 1, sizes], P(z3.IntVal(0)) >= 1, axioms=AXG, kind='lemma-base')
    U.lemma('prefix-products-are-positive.step', [d >= 1, sizes, kk >= 0, kk < d, P(kk) >= 1], P(kk + 1) >= 1, axioms=AXG, kind='lemma-step')
    pos = z3.ForAll([kk], z3.Implies(z3.And(0 <= kk, kk <= d), P(kk) >= 1), patterns=[P(kk)])
    t = z3.Int('t')
    for p, o in res:
        if o.kind != 'return':
            U.post('no-exception', p, False, axioms=AXG)
            continue
        I = p.deref(o.value)
        ok = isinstance(I, VArr) and I.ndim == 2 and I.tag == 'gridmat'
        U.post('result-is-the-matrix-of-grid-indices', p, z3.BoolVal(ok))
        if not ok:
            continue
        U.post('integer-array', p, z3.BoolVal(I.dtype == 'i'))
        U.post('one-row-per-multi-index-one-column-per-mode: shape (prod n, d)', p,
               z3.And(z3.BoolVal(I.transposed), Z(I.shape[0]) == P(d), Z(I.shape[1]) == d), axioms=AXG)
        if not I.transposed:
            continue
        dom = z3.And(0 <= t, t < P(d), 0 <= kk, kk < d)
        e = X.grid_elem(I, t, kk)
        hyp = list(p.pc) + [pos]
        U.post('row-t-holds-the-mixed-radix-digits-of-t-first-index-fastest', hyp, z3.Implies(dom, e == (t / P(kk)) % narr[kk]), axioms=AXG)
        U.post('every-index-lies-inside-its-mode', hyp, z3.Implies(dom, z3.And(0 <= e, e < narr[kk])), axioms=AXG)
        U.post('row-0-is-the-zero-multi-index', hyp, z3.Implies(z3.And(0 <= kk, kk < d), X.grid_elem(I, z3.IntVal(0), kk) == 0), axioms=AXG)
        U.post('first-index-runs-fastest: column 0 is t mod n_0', hyp, z3.Implies(z3.And(0 <= t, t < P(d)), X.grid_elem(I, t, z3.IntVal(0)) == t % narr[0]),
               axioms=AXG)
        U.lemmas.append('L-RADIX: t -> ((t div (n_0..n_{k-1})) mod n_k)_k is a bijection of [0, prod n) onto the index box (mixed-radix digits): '
                        'every multi-index occurs exactly once')
        U.canary('canary-all-indices-zero', hyp, z3.Implies(dom, e == 0), axioms=AXG)


@unit('grid.grid_flat.list', props=('C18',))
def u_grid_flat_list(U):
    _grid_flat_unit(U, 'list')


@unit('grid.grid_flat.array', props=('C18',))
def u_grid_flat_array(U):
    _grid_flat_unit(U, 'array')


@unit('grid.grid_flat.number', props=('C18',))
def u_grid_flat_number(U):
    """grid_flat(n) for a number n >= 1: the one-dimensional grid 0, 1, .., int(n) - 1."""
    fn = U.func('grid', 'grid_flat')
    for nm, n in (('int', z3.Int('n')), ('float', z3.Real('x'))):
        ex = U.executor(fn)
        st = U.state()
        st.vars.update(n=n)
        res = U.run(ex, st, pre=[n >= 1])
        U.cover(f'{nm}-precondition-satisfiable', U.pre)
        cnt = n if nm == 'int' else trunc(n)
        for p, o in res:
            if o.kind != 'return':
                U.post('no-exception', p, False)
                continue
            I = p.deref(o.value)
            ok = isinstance(I, VArr) and I.ndim == 1 and I.tag == 'ivec' and I.t is not None
            U.post('result-is-an-integer-vector', p, z3.BoolVal(ok and I.dtype == 'i'))
            if not ok:
                continue
            U.post('length-is-int(n)', p, Z(I.shape[0]) == cnt)
            U.post('element-t-is-t', p, z3.Implies(z3.And(0 <= tt, tt < cnt), I.t[tt] == tt))
            U.canary('canary-first-element-is-1', p, I.t[0] == 1)


# ----------------------------------------------------------------------------------------------
# matrices.matrix_delta  (C19: "the QTT delta matrix equals v at the given position (negative positions counted from the end)
# and zero elsewhere")
#
# A (1, 2, 2, 1) core is denoted by the (1, 4, 1) core with the merged mode index 2*i + j (mx_misc), so the matrix entry at the
# row bits a_k / column bits b_k is the chain value at ix[k] = 2*a_k + b_k.  Element level, every q >= 1, every position in
# [-2^q, 2^q)^2, every v.  Not covered: the value of the bit strings as numbers (that is units utils._vector_index_expand /
# _prepare, used here through their contracts).

from contracts.tensors import chain_scalar_lemma
from contracts.utils import bit, SHR_DEF


@unit('matrices.matrix_delta', props=('C19',))
def u_matrix_delta(U):
    AXV = T.axioms('shape', 'core', 'smul', 'chain', 'elem', 'pow2') + SHR_DEF
    q, i0, j0 = z3.Ints('q i j')
    v0 = z3.Real('v')
    ix = z3.Const('ix', T.IDX)
    t = z3.Int('t!m')
    pos_i = z3.If(i0 >= 0, i0, T.pow2(q) + i0)
    pos_j = z3.If(j0 >= 0, j0, T.pow2(q) + j0)

    def inv(ex, s, j):
        Ys = s.deref(s.vars['Y'])
        ic, ir = s.deref(s.vars['ind_col']), s.deref(s.vars['ind_row'])
        return [('length', Ys.n == j),
                ('unit-cores-at-the-bit-pairs', z3.ForAll([t], z3.Implies(z3.And(0 <= t, t < j),
                                                                        Ys.arr[t] == T.cset(T.zc(1, 4, 1), 2 * ic.arr[t] + ir.arr[t], 1)),
                                                          patterns=[Ys.arr[t]]))]

    fn = U.func('matrices', 'matrix_delta')
    ex = U.executor(fn, loops={0: {'inv': inv}}, axioms=AXV, type_hints={'Y': 'qttm'})
    ex.mode = 'ematch'
    st = U.state()
    st.vars.update(q=q, i=i0, j=j0, v=v0)
    res = U.run(ex, st, pre=[q >= 1, i0 < T.pow2(q), i0 >= -T.pow2(q), j0 < T.pow2(q), j0 >= -T.pow2(q)])
    U.cover('precondition-satisfiable', U.pre, axioms=AXV)
    for p, o in res:
        if o.kind != 'return':
            U.post('no-exception', p, False, axioms=AXV, mode='ematch')
            continue
        Ys = p.deref(o.value)
        R_ = Ys.arr
        ic, ir = p.deref(p.vars['ind_col']), p.deref(p.vars['ind_row'])
        # ix[k] = 2 * (row bit) + (column bit) of mode k
        ctx = list(p.pc) + [z3.ForAll([t], z3.Implies(z3.And(0 <= t, t < q), z3.And(0 <= ix[t], ix[t] < 4)), patterns=[ix[t]])]
        U.post('q-cores', p, Ys.n == q, axioms=AXV, mode='ematch')
        U.post('list-of-4-D-cores', p, z3.BoolVal(Ys.tag == 'mcore22'))
        U.post('rank-one-cores-of-mode-size-2x2', p,
               z3.Implies(z3.And(0 <= tt, tt < q), z3.And(T.d0(R_[tt]) == 1, T.d1(R_[tt]) == 4, T.d2(R_[tt]) == 1)), axioms=AXV, mode='ematch')
        U.post('first-mode-index-carries-the-bits-of-i-second-those-of-j (normalised positions)', p,
               z3.Implies(z3.And(0 <= tt, tt < q), z3.And(ic.arr[tt] == bit(pos_i, tt), ir.arr[tt] == bit(pos_j, tt))), axioms=AXV, mode='ematch')
        hitk = lambda k: ix[k] == 2 * ic.arr[k] + ir.arr[k]
        entry = lambda k: z3.If(hitk(k), z3.If(k == q - 1, v0, 1), 0)
        prod, facts = chain_scalar_lemma(U, 'mdelta', ctx, R_, ix, q, entry, AXV)
        match = z3.Function('match', z3.IntSort(), z3.BoolSort())
        k_, k2_ = z3.Ints('k!c k2!c')
        mdef = [match(0) == hitk(0),
                z3.ForAll([k_, k2_], z3.Implies(z3.And(k_ >= 0, k2_ == k_ + 1, k2_ < q), match(k2_) == z3.And(match(k_), hitk(k2_))),
                          patterns=[z3.MultiPattern(match(k_), match(k2_))])]
        Q = lambda k: prod(k) == z3.If(match(k), z3.If(k == q - 1, v0, 1), 0)
        U.lemma('product-is-1-on-the-matching-prefix-(v-at-the-end)-else-0.base', ctx + facts + mdef, Q(z3.IntVal(0)), axioms=AXV, kind='lemma-base')
        U.lemma('product-is-1-on-the-matching-prefix-(v-at-the-end)-else-0.step', ctx + facts + mdef + [kk >= 1, kk < q, Q(kk - 1)], Q(kk),
                axioms=AXV, kind='lemma-step')
        U.post('entry-is-v-where-all-bit-pairs-match-the-position-and-0-elsewhere', ctx + facts + mdef + [Q(q - 1)],
               T.ent(T.chain(R_, ix, q - 1), 0, 0) == z3.If(match(q - 1), v0, 0), axioms=AXV, mode='ematch')
        U.canary('canary-everywhere-v', ctx + facts + mdef + [Q(q - 1)], T.ent(T.chain(R_, ix, q - 1), 0, 0) == v0, axioms=AXV)


# ----------------------------------------------------------------------------------------------
# call-site contract of grid.grid_prep_opt (what the units grid.grid_prep_opt.* prove): a number with a dimension d >= 1 gives
# the constant length-d vector, a list / vector gives the vector of its elements

def call_grid_prep_opt(ex, st, args, kwargs, node):
    opt = st.deref(args[0])
    d = args[1] if len(args) > 1 else kwargs.get('d', NONE)
    kind = args[2] if len(args) > 2 else kwargs.get('kind', M.TypeVal('float'))
    reps = args[3] if len(args) > 3 else kwargs.get('reps', NONE)
    if reps is not NONE or not isinstance(kind, M.TypeVal) or kind.name != 'float':
        raise M.Unsupported('grid_prep_opt call-site contract: only kind=float without reps')
    arr = ex.fresh('opt', RA)
    k = z3.Int('k!o')
    if M.is_num(opt):
        dv = d.val if isinstance(d, VOpt) else d
        ex.oblige(st, 'call-pre', 'grid_prep_opt: a number needs a dimension d >= 1 (otherwise ValueError)',
                  z3.And(z3.Not(d.isnone) if isinstance(d, VOpt) else z3.BoolVal(d is not NONE), Z(dv) >= 1) if d is not NONE else False, node)
        st.assume(z3.ForAll([k], z3.Implies(z3.And(0 <= k, k < Z(dv)), arr[k] == M.to_real(opt)), patterns=[arr[k]]))
        return X.rvec(Z(dv), arr)
    if isinstance(opt, VSeq) and opt.tag == 'real':
        st.assume(z3.ForAll([k], z3.Implies(z3.And(0 <= k, k < opt.n), arr[k] == opt.arr[k]), patterns=[arr[k]]))
        return X.rvec(opt.n, arr)
    if X.is_vec1(opt) and opt.tag == 'rvec':
        return X.rvec(opt.shape[0], opt.t)
    raise M.Unsupported('grid_prep_opt call-site contract: option kind')


# ----------------------------------------------------------------------------------------------
# tensors.poly  (C19: "the polynomial tensor equals scale times the sum over modes of (index + shift)^power")
#
# Element level for every d >= 2, all mode sizes >= 1, a scalar shift or a per-mode list of length d, a symbolic power (x ** p
# is the uninterpreted powf(x, p): only the identity of the term is used) and every scale:
#     val(Y, i) = scale * sum_k powf(i_k + shift_k, power),
# by induction along the chain of the upper-triangular 2 x 2 pattern cores (theory group 'small'); well-formedness (ranks
# 1, 2, .., 2, 1, mode sizes n).  Not covered: d = 1 (the code returns a malformed single core there; C19 quantifies over d >= 2).

AXP = T.axioms('shape', 'chain', 'elem', 'small')


def _poly_unit(U, skind):
    d = z3.Int('d')
    narr = z3.Const('n', T.IDX)
    sarr = z3.Const('shift', RA)
    s0 = z3.Real('shift0')
    power, scale = z3.Int('power'), z3.Real('scale')
    ix = z3.Const('ix', T.IDX)
    t, m_ = z3.Ints('t!p m!p')
    sh = (lambda k: s0) if skind == 'number' else (lambda k: sarr[k])
    g = lambda k, m: X.powf(z3.ToReal(m) + sh(k), z3.ToReal(power))          # _get(m, k)

    def pat(k, m):
        return z3.If(k == 0, X.m12(1, g(k, m)), z3.If(k == d - 1, X.m21(g(k, m) * scale, scale), X.m22(1, g(k, m), 0, 1)))

    def dims(c, k):
        return z3.And(T.d0(c) == z3.If(k == 0, 1, 2), T.d1(c) == narr[k], T.d2(c) == z3.If(k == d - 1, 1, 2))

    def inv_outer(ex, s, j):
        Ys = s.deref(s.vars['Y'])
        sv = s.vars['shift']
        return [('length', Ys.n == j),
                ('shift-is-the-prepared-option-vector', z3.BoolVal(X.is_vec1(sv) and sv.tag == 'rvec')),
                ('finished-cores-have-the-pattern-shapes', z3.ForAll([t], z3.Implies(z3.And(0 <= t, t < j), dims(Ys.arr[t], t)), patterns=[Ys.arr[t]])),
                ('finished-cores-have-the-pattern-slices',
                 z3.ForAll([t, m_], z3.Implies(z3.And(0 <= t, t < j, 0 <= m_, m_ < narr[t]), T.sl(Ys.arr[t], m_) == pat(t, m_)),
                           patterns=[T.sl(Ys.arr[t], m_)]))]

    def inv_inner(ex, s, m):
        G = s.vars['G']
        j = s.ghost['_j0']
        if not (isinstance(G, VArr) and G.tag == 'core' and G.t is not None):
            raise M.ContractMismatch('poly: G is not a 3-D core inside the fill loop')
        return [('core-keeps-its-pattern-shape', dims(G.t, j)),
                ('filled-slices-have-the-pattern', z3.ForAll([m_], z3.Implies(z3.And(0 <= m_, m_ < m), T.sl(G.t, m_) == pat(j, m_)),
                                                             patterns=[T.sl(G.t, m_)]))]

    fn = U.func('tensors', 'poly')
    loops = {0: {'inv': inv_outer}, 1: {'inv': inv_inner}, 2: {'inv': inv_inner}, 3: {'inv': inv_inner}}
    ex = U.executor(fn, loops=loops, axioms=AXP, type_hints={'Y': 'tt'}, callees={'grid.grid_prep_opt': call_grid_prep_opt})
    ex.mode = 'ematch'
    st = U.state()
    sizes = z3.ForAll([t], z3.Implies(z3.And(0 <= t, t < d), narr[t] >= 1), patterns=[narr[t]])
    shift = s0 if skind == 'number' else st.alloc(VSeq(sarr, d, lambda x: x, tag='real'))
    st.vars.update(n=st.alloc(VSeq(narr, d, lambda x: x, tag='int')), shift=shift, power=power, scale=scale)
    res = U.run(ex, st, pre=[d >= 2, sizes])
    U.assumed.append('grid.grid_prep_opt (units grid.grid_prep_opt.*)')
    U.cover('precondition-satisfiable', U.pre, axioms=AXP)
    k_, k2_ = z3.Ints('k!c k2!c')
    for p, o in res:
        if o.kind != 'return':
            U.post('no-exception', p, False, axioms=AXP, mode='ematch')
            continue
        Ys = p.deref(o.value)
        R_ = Ys.arr
        sv = p.vars['shift']
        shv = lambda k: sv.t[k]
        U.post('d-cores', p, Ys.n == d, axioms=AXP, mode='ematch')
        U.post('shift-option-is-the-scalar-resp-the-list-element', p, z3.Implies(z3.And(0 <= tt, tt < d), shv(tt) == sh(tt)), axioms=AXP, mode='ematch')
        U.post('well-formed: ranks 1, 2, .., 2, 1 and the requested mode sizes', p, z3.Implies(z3.And(0 <= tt, tt < d), dims(R_[tt], tt)),
               axioms=AXP, mode='ematch')
        ctx = list(p.pc) + [z3.ForAll([t], z3.Implies(z3.And(0 <= t, t < d), z3.And(0 <= ix[t], ix[t] < narr[t])), patterns=[ix[t]])]
        gi = lambda k: g(k, ix[k])
        # S(k) = sum_{j <= k} powf(ix_j + shift_j, power)   (spec function, defined by recursion)
        S_ = z3.Function('psum', z3.IntSort(), z3.RealSort())
        sdef = [S_(0) == gi(z3.IntVal(0)),
                z3.ForAll([k_, k2_], z3.Implies(z3.And(k_ >= 0, k2_ == k_ + 1, k2_ < d), S_(k2_) == S_(k_) + gi(k2_)),
                          patterns=[z3.MultiPattern(S_(k_), S_(k2_))])]
        Q = lambda k: T.chain(R_, ix, k) == X.m12(1, S_(k))
        U.lemma('prefix-chain-is-the-row-(1, partial sum).base', ctx + sdef, Q(z3.IntVal(0)), axioms=AXP, kind='lemma-base')
        U.lemma('prefix-chain-is-the-row-(1, partial sum).step', ctx + sdef + [kk >= 1, kk < d - 1, Q(kk - 1)], Q(kk), axioms=AXP, kind='lemma-step')
        last = gi(d - 1) * scale + T.rmul(S_(d - 2), scale)
        U.post('entry-is-last-term*scale + (sum of the other terms)*scale', ctx + sdef + [Q(d - 2)],
               T.ent(T.chain(R_, ix, d - 1), 0, 0) == last, axioms=AXP, mode='ematch')
        U.post('which-is-scale-times-the-sum-over-all-modes', list(p.pc) + [S_(d - 1) == S_(d - 2) + gi(d - 1)],
               gi(d - 1) * scale + S_(d - 2) * scale == scale * S_(d - 1), qf=True)
        U.lemmas.append('rmul(x, y) = x * y (the abstract product of the element theory is the real product)')
        U.canary('canary-entry-is-the-plain-sum', ctx + sdef + [Q(d - 2)], T.ent(T.chain(R_, ix, d - 1), 0, 0) == S_(d - 2) + gi(d - 1), axioms=AXP)


@unit('tensors.poly.scalar_shift', props=('C19', 'C11'))
def u_poly_number(U):
    _poly_unit(U, 'number')


@unit('tensors.poly.list_shift', props=('C19', 'C11'))
def u_poly_list(U):
    _poly_unit(U, 'list')
