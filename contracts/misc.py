"""Sidecar contracts for the helpers around grids, explicit / random constructors and samplers
(C18: grid_prep_opt, grid_flat;  C19: matrix_delta, poly, rand*;  C14 / C10: sample_rand, sample_square).
Model-table entries: ttvc/mx_misc.py."""
import z3
from ttvc.units import unit
from ttvc.symex import VOpt, VStr, VRec, VSeq, VArr, VFunc, VTuple, VRef, VList, VSym, NONE, Z
from ttvc import models as M, theory as T, rnd as R, mx_misc as X
from contracts import spec as S

IA = z3.ArraySort(z3.IntSort(), z3.IntSort())
RA = z3.ArraySort(z3.IntSort(), z3.RealSort())
kk = z3.Int('kk')
tt = z3.Int('tt')


def trunc(x):
    """int(x) for a real x: truncation toward zero."""
    return z3.If(x >= 0, z3.ToInt(x), -z3.ToInt(-x))


# ----------------------------------------------------------------------------------------------
# grid.grid_prep_opt  (C18: "scalar and per-dimension options are interchangeable")
#
# Covered: None -> None; a number -> ValueError iff d is None or d <= 0, otherwise the length-d vector whose every element is
# kind(opt); a list / array -> the vector of the same length with the elements kind(opt[k]) (no exception: the length check
# against d is the business of grid_prep_opts, unit grid.grid_prep_opts.*); with reps: the (reps, d) matrix whose every row is
# that vector.  Not covered: dtype / rounding of float(opt) (A-REAL), 0-d / 2-D array arguments, bool arguments.

def _elem(v, k):
    """Element k of the returned option as a real number (1-D vector, or any row of the repeated matrix)."""
    return M.to_real(v.t[k])


def _prep_opt_case(U, okind, kind, with_reps):
    fn = U.func('grid', 'grid_prep_opt')
    ex = U.executor(fn)
    st = U.state()
    d = S.opt_int('d')
    L = z3.Int('len_opt')
    reps = z3.Int('reps')
    oarr = z3.Const('opt', RA)
    pre = []
    if okind == 'float':
        opt = z3.Real('opt')
        want = lambda k: opt if kind == 'float' else z3.ToReal(trunc(opt))
    elif okind == 'int':
        opt = z3.Int('opt')
        want = lambda k: z3.ToReal(opt)
    elif okind == 'list':
        opt = st.alloc(VSeq(oarr, L, lambda t: t, tag='real'))
        pre.append(L >= 0)
        want = lambda k: oarr[k] if kind == 'float' else z3.ToReal(trunc(oarr[k]))
    else:
        opt = X.rvec(L, oarr)
        pre.append(L >= 0)
        want = lambda k: oarr[k] if kind == 'float' else z3.ToReal(trunc(oarr[k]))
    if with_reps:
        pre.append(reps >= 0)
    st.vars.update(opt=opt, d=d, kind=X.TypeFn(kind), reps=reps if with_reps else NONE)
    res = U.run(ex, st, pre=pre)
    U.cover('precondition-satisfiable', U.pre)
    scalar = okind in ('float', 'int')
    bad = z3.Or(d.isnone, d.val <= 0) if scalar else z3.BoolVal(False)
    n = d.val if scalar else L
    if scalar:
        U.cover('accepting-case-reachable', U.pre + [z3.Not(bad)])
        U.cover('rejecting-case-reachable', U.pre + [bad])
    for p, o in res:
        if o.kind == 'raise':
            U.raise_iff('raises-only-for-a-number-without-a-positive-dimension', p, bad)
            U.raise_iff('raises-ValueError', p, o.exc == 'ValueError')
            continue
        U.raise_iff('returns-only-if-the-dimension-is-known-for-a-number', p, z3.Not(bad))
        v = p.deref(o.value)
        if with_reps:
            ok = isinstance(v, VArr) and v.ndim == 2 and v.tag == 'rowrep' and X.is_vec1(getattr(v, 'vec', None))
            U.post('result-is-a-matrix-of-repeated-rows', p, z3.BoolVal(ok))
            if not ok:
                continue
            U.post('shape-is-(reps,d)', p, z3.And(Z(v.shape[0]) == reps, Z(v.shape[1]) == n))
            vec = v.vec
        else:
            ok = X.is_vec1(v)
            U.post('result-is-a-vector', p, z3.BoolVal(bool(ok)))
            if not ok:
                continue
            U.post('length-is-d', p, Z(v.shape[0]) == n)
            vec = v
        U.post('dtype-is-the-requested-kind', p, z3.BoolVal(v.dtype == ('i' if kind == 'int' else 'f')))
        U.post('every-element-is-the-option-value-of-its-dimension', p, z3.Implies(z3.And(0 <= kk, kk < n), _elem(vec, kk) == want(kk)))
        U.canary('canary-all-elements-zero', p, z3.Implies(z3.And(0 <= kk, kk < n), _elem(vec, kk) == 0))


@unit('grid.grid_prep_opt.none', props=('C18',))
def u_prep_opt_none(U):
    fn = U.func('grid', 'grid_prep_opt')
    for with_reps in (False, True):
        ex = U.executor(fn)
        st = U.state()
        st.vars.update(opt=NONE, d=S.opt_int('d'), kind=X.TypeFn('float'), reps=z3.Int('reps') if with_reps else NONE)
        for p, o in U.run(ex, st):
            U.post('None-stays-None', p, z3.BoolVal(o.kind == 'return' and o.value is NONE))
    U.cover('reachable', U.pre)


for _ok in ('float', 'int', 'list', 'array'):
    for _kd in ('float', 'int'):
        for _rp in (False, True):
            def _mk(ok=_ok, kd=_kd, rp=_rp):
                @unit(f'grid.grid_prep_opt.{ok}.{kd}' + ('.reps' if rp else ''), props=('C18',))
                def u(U):
                    _prep_opt_case(U, ok, kd, rp)
            _mk()


# ----------------------------------------------------------------------------------------------
# grid.grid_flat  (C18: "the flat grid enumerates every multi-index exactly once with the first index running fastest")
#
# Element level: the result has prod(n) rows and d columns and  I[t, k] = (t div (n_0 ... n_{k-1})) mod n_k  - the mixed-radix
# digits of the row number t, least significant digit in column 0.  From that: every entry lies inside its mode, row 0 is the
# zero multi-index, column 0 is t mod n_0 (first index fastest).  The NumPy facts (meshgrid 'ij' / 'xy', stacking, reshape in
# 'F' / 'C' order, .T) are model-table entries of ttvc/mx_misc.py; the unit proves that the code composes them to this
# enumeration.  "Exactly once" is the bijectivity of the mixed-radix representation (cited, L-RADIX) - not proved here.
# Not covered: float / numpy-scalar mode sizes inside the list, n_k = 0.

AXG = T.axioms('mulI', 'pprod')


def _grid_flat_unit(U, nkind):
    fn = U.func('grid', 'grid_flat')
    ex = U.executor(fn, axioms=AXG)
    st = U.state()
    d = z3.Int('d')
    narr = z3.Const('n', T.IDX)
    n = st.alloc(VSeq(narr, d, lambda x: x, tag='int')) if nkind == 'list' else X.ivec(d, narr)
    st.vars.update(n=n)
    sizes = z3.ForAll([tt], z3.Implies(z3.And(0 <= tt, tt < d), narr[tt] >= 1), patterns=[narr[tt]])
    res = U.run(ex, st, pre=[d >= 1, sizes])
    U.cover('precondition-satisfiable', U.pre, axioms=AXG)
    P = lambda k: X.pprod(narr, k)
    # lemma: every prefix product of mode sizes >= 1 is >= 1 (induction on k; mulI(a, b) >= a for a, b >= 1)
    U.lemma('prefix-products-are-positive.base', [d >= 1, sizes], P(z3.IntVal(0)) >= 1, axioms=AXG, kind='lemma-base')
    U.lemma('prefix-products-are-positive.step', [d >= 1, sizes, kk >= 0, kk < d, P(kk) >= 1], P(kk + 1) >= 1, axioms=AXG, kind='lemma-step')
    pos = z3.ForAll([kk], z3.Implies(z3.And(0 <= kk, kk <= d), P(kk) >= 1), patterns=[P(kk)])
    t = z3.Int('t')
    for p, o in res:
        if o.kind != 'return':
            U.post('no-exception', p, False, axioms=AXG)
            continue
        I = p.deref(o.value)
        ok = isinstance(I, VArr) and I.ndim == 2 and I.tag == 'gridmat'
        U.post('result-is-the-matrix-of-grid-indices', p, z3.BoolVal(ok))
        if not ok:
            continue
        U.post('integer-array', p, z3.BoolVal(I.dtype == 'i'))
        U.post('one-row-per-multi-index-one-column-per-mode: shape (prod n, d)', p,
               z3.And(z3.BoolVal(I.transposed), Z(I.shape[0]) == P(d), Z(I.shape[1]) == d), axioms=AXG)
        if not I.transposed:
            continue
        dom = z3.And(0 <= t, t < P(d), 0 <= kk, kk < d)
        e = X.grid_elem(I, t, kk)
        hyp = list(p.pc) + [pos]
        U.post('row-t-holds-the-mixed-radix-digits-of-t-first-index-fastest', hyp, z3.Implies(dom, e == (t / P(kk)) % narr[kk]), axioms=AXG)
        U.post('every-index-lies-inside-its-mode', hyp, z3.Implies(dom, z3.And(0 <= e, e < narr[kk])), axioms=AXG)
        U.post('row-0-is-the-zero-multi-index', hyp, z3.Implies(z3.And(0 <= kk, kk < d), X.grid_elem(I, z3.IntVal(0), kk) == 0), axioms=AXG)
        U.post('first-index-runs-fastest: column 0 is t mod n_0', hyp, z3.Implies(z3.And(0 <= t, t < P(d)), X.grid_elem(I, t, z3.IntVal(0)) == t % narr[0]),
               axioms=AXG)
        U.lemmas.append('L-RADIX: t -> ((t div (n_0..n_{k-1})) mod n_k)_k is a bijection of [0, prod n) onto the index box (mixed-radix digits): '
                        'every multi-index occurs exactly once')
        U.canary('canary-all-indices-zero', hyp, z3.Implies(dom, e == 0), axioms=AXG)


@unit('grid.grid_flat.list', props=('C18',))
def u_grid_flat_list(U):
    _grid_flat_unit(U, 'list')


@unit('grid.grid_flat.array', props=('C18',))
def u_grid_flat_array(U):
    _grid_flat_unit(U, 'array')


@unit('grid.grid_flat.number', props=('C18',))
def u_grid_flat_number(U):
    """grid_flat(n) for a number n >= 1: the one-dimensional grid 0, 1, .., int(n) - 1."""
    fn = U.func('grid', 'grid_flat')
    for nm, n in (('int', z3.Int('n')), ('float', z3.Real('x'))):
        ex = U.executor(fn)
        st = U.state()
        st.vars.update(n=n)
        res = U.run(ex, st, pre=[n >= 1])
        U.cover(f'{nm}-precondition-satisfiable', U.pre)
        cnt = n if nm == 'int' else trunc(n)
        for p, o in res:
            if o.kind != 'return':
                U.post('no-exception', p, False)
                continue
            I = p.deref(o.value)
            ok = isinstance(I, VArr) and I.ndim == 1 and I.tag == 'ivec' and I.t is not None
            U.post('result-is-an-integer-vector', p, z3.BoolVal(ok and I.dtype == 'i'))
            if not ok:
                continue
            U.post('length-is-int(n)', p, Z(I.shape[0]) == cnt)
            U.post('element-t-is-t', p, z3.Implies(z3.And(0 <= tt, tt < cnt), I.t[tt] == tt))
            U.canary('canary-empty-grid', p, Z(I.shape[0]) == 0, qf=True)


# ----------------------------------------------------------------------------------------------
# matrices.matrix_delta  (C19: "the QTT delta matrix equals v at the given position (negative positions counted from the end)
# and zero elsewhere")
#
# A (1, 2, 2, 1) core is denoted by the (1, 4, 1) core with the merged mode index 2*i + j (mx_misc), so the matrix entry at the
# row bits a_k / column bits b_k is the chain value at ix[k] = 2*a_k + b_k.  Element level, every q >= 1, every position in
# [-2^q, 2^q)^2, every v.  Not covered: the value of the bit strings as numbers (that is units utils._vector_index_expand /
# _prepare, used here through their contracts).

from contracts.tensors import chain_scalar_lemma
from contracts.utils import bit, SHR_DEF


@unit('matrices.matrix_delta', props=('C19',))
def u_matrix_delta(U):
    AXV = T.axioms('shape', 'core', 'smul', 'chain', 'elem', 'pow2') + SHR_DEF
    q, i0, j0 = z3.Ints('q i j')
    v0 = z3.Real('v')
    ix = z3.Const('ix', T.IDX)
    t = z3.Int('t!m')
    pos_i = z3.If(i0 >= 0, i0, T.pow2(q) + i0)
    pos_j = z3.If(j0 >= 0, j0, T.pow2(q) + j0)

    def inv(ex, s, j):
        Ys = s.deref(s.vars['Y'])
        ic, ir = s.deref(s.vars['ind_col']), s.deref(s.vars['ind_row'])
        return [('length', Ys.n == j),
                ('unit-cores-at-the-bit-pairs', z3.ForAll([t], z3.Implies(z3.And(0 <= t, t < j),
                                                                        Ys.arr[t] == T.cset(T.zc(1, 4, 1), 2 * ic.arr[t] + ir.arr[t], 1)),
                                                          patterns=[Ys.arr[t]]))]

    fn = U.func('matrices', 'matrix_delta')
    ex = U.executor(fn, loops={0: {'inv': inv}}, axioms=AXV, type_hints={'Y': 'qttm'})
    ex.mode = 'ematch'
    st = U.state()
    st.vars.update(q=q, i=i0, j=j0, v=v0)
    res = U.run(ex, st, pre=[q >= 1, i0 < T.pow2(q), i0 >= -T.pow2(q), j0 < T.pow2(q), j0 >= -T.pow2(q)])
    U.cover('precondition-satisfiable', U.pre, axioms=AXV)
    for p, o in res:
        if o.kind != 'return':
            U.post('no-exception', p, False, axioms=AXV, mode='ematch')
            continue
        Ys = p.deref(o.value)
        R_ = Ys.arr
        ic, ir = p.deref(p.vars['ind_col']), p.deref(p.vars['ind_row'])
        # ix[k] = 2 * (row bit) + (column bit) of mode k
        ctx = list(p.pc) + [z3.ForAll([t], z3.Implies(z3.And(0 <= t, t < q), z3.And(0 <= ix[t], ix[t] < 4)), patterns=[ix[t]])]
        U.post('q-cores', p, Ys.n == q, axioms=AXV, mode='ematch')
        U.post('list-of-4-D-cores', p, z3.BoolVal(Ys.tag == 'mcore22'))
        U.post('rank-one-cores-of-mode-size-2x2', p,
               z3.Implies(z3.And(0 <= tt, tt < q), z3.And(T.d0(R_[tt]) == 1, T.d1(R_[tt]) == 4, T.d2(R_[tt]) == 1)), axioms=AXV, mode='ematch')
        U.post('first-mode-index-carries-the-bits-of-i-second-those-of-j (normalised positions)', p,
               z3.Implies(z3.And(0 <= tt, tt < q), z3.And(ic.arr[tt] == bit(pos_i, tt), ir.arr[tt] == bit(pos_j, tt))), axioms=AXV, mode='ematch')
        hitk = lambda k: ix[k] == 2 * ic.arr[k] + ir.arr[k]
        entry = lambda k: z3.If(hitk(k), z3.If(k == q - 1, v0, 1), 0)
        prod, facts = chain_scalar_lemma(U, 'mdelta', ctx, R_, ix, q, entry, AXV)
        match = z3.Function('match', z3.IntSort(), z3.BoolSort())
        k_, k2_ = z3.Ints('k!c k2!c')
        mdef = [match(0) == hitk(0),
                z3.ForAll([k_, k2_], z3.Implies(z3.And(k_ >= 0, k2_ == k_ + 1, k2_ < q), match(k2_) == z3.And(match(k_), hitk(k2_))),
                          patterns=[z3.MultiPattern(match(k_), match(k2_))])]
        Q = lambda k: prod(k) == z3.If(match(k), z3.If(k == q - 1, v0, 1), 0)
        U.lemma('product-is-1-on-the-matching-prefix-(v-at-the-end)-else-0.base', ctx + facts + mdef, Q(z3.IntVal(0)), axioms=AXV, kind='lemma-base')
        U.lemma('product-is-1-on-the-matching-prefix-(v-at-the-end)-else-0.step', ctx + facts + mdef + [kk >= 1, kk < q, Q(kk - 1)], Q(kk),
                axioms=AXV, kind='lemma-step')
        U.post('entry-is-v-where-all-bit-pairs-match-the-position-and-0-elsewhere', ctx + facts + mdef + [Q(q - 1)],
               T.ent(T.chain(R_, ix, q - 1), 0, 0) == z3.If(match(q - 1), v0, 0), axioms=AXV, mode='ematch')
        U.canary('canary-everywhere-v', ctx + facts + mdef + [Q(q - 1)], T.ent(T.chain(R_, ix, q - 1), 0, 0) == v0, axioms=AXV)


# ----------------------------------------------------------------------------------------------
# call-site contract of grid.grid_prep_opt (what the units grid.grid_prep_opt.* prove): a number with a dimension d >= 1 gives
# the constant length-d vector, a list / vector gives the vector of its elements

def call_grid_prep_opt(ex, st, args, kwargs, node):
    opt = st.deref(args[0])
    d = args[1] if len(args) > 1 else kwargs.get('d', NONE)
    kind = args[2] if len(args) > 2 else kwargs.get('kind', M.TypeVal('float'))
    reps = args[3] if len(args) > 3 else kwargs.get('reps', NONE)
    if reps is not NONE or not isinstance(kind, M.TypeVal) or kind.name != 'float':
        raise M.Unsupported('grid_prep_opt call-site contract: only kind=float without reps')
    arr = ex.fresh('opt', RA)
    k = z3.Int('k!o')
    if M.is_num(opt):
        dv = d.val if isinstance(d, VOpt) else d
        ex.oblige(st, 'call-pre', 'grid_prep_opt: a number needs a dimension d >= 1 (otherwise ValueError)',
                  z3.And(z3.Not(d.isnone) if isinstance(d, VOpt) else z3.BoolVal(d is not NONE), Z(dv) >= 1) if d is not NONE else False, node)
        st.assume(z3.ForAll([k], z3.Implies(z3.And(0 <= k, k < Z(dv)), arr[k] == M.to_real(opt)), patterns=[arr[k]]))
        return X.rvec(Z(dv), arr)
    if isinstance(opt, VSeq) and opt.tag == 'real':
        st.assume(z3.ForAll([k], z3.Implies(z3.And(0 <= k, k < opt.n), arr[k] == opt.arr[k]), patterns=[arr[k]]))
        return X.rvec(opt.n, arr)
    if X.is_vec1(opt) and opt.tag == 'rvec':
        return X.rvec(opt.shape[0], opt.t)
    raise M.Unsupported('grid_prep_opt call-site contract: option kind')


# ----------------------------------------------------------------------------------------------
# tensors.poly  (C19: "the polynomial tensor equals scale times the sum over modes of (index + shift)^power")
#
# Element level for every d >= 2, all mode sizes >= 1, a scalar shift or a per-mode list of length d, a symbolic power (x ** p
# is the uninterpreted powf(x, p): only the identity of the term is used) and every scale:
#     val(Y, i) = scale * sum_k powf(i_k + shift_k, power),
# by induction along the chain of the upper-triangular 2 x 2 pattern cores (theory group 'small'); well-formedness (ranks
# 1, 2, .., 2, 1, mode sizes n).  Not covered: d = 1 (the code returns a malformed single core there; C19 quantifies over d >= 2).

AXP = T.axioms('shape', 'chain', 'elem', 'small')


def _poly_unit(U, skind):
    d = z3.Int('d')
    narr = z3.Const('n', T.IDX)
    sarr = z3.Const('shift', RA)
    s0 = z3.Real('shift0')
    power, scale = z3.Int('power'), z3.Real('scale')
    ix = z3.Const('ix', T.IDX)
    t, m_ = z3.Ints('t!p m!p')
    sh = (lambda k: s0) if skind == 'number' else (lambda k: sarr[k])
    g = lambda k, m: X.powf(z3.ToReal(m) + sh(k), z3.ToReal(power))          # _get(m, k)

    def pat(k, m):
        return z3.If(k == 0, X.m12(1, g(k, m)), z3.If(k == d - 1, X.m21(g(k, m) * scale, scale), X.m22(1, g(k, m), 0, 1)))

    def dims(c, k):
        return z3.And(T.d0(c) == z3.If(k == 0, 1, 2), T.d1(c) == narr[k], T.d2(c) == z3.If(k == d - 1, 1, 2))

    def inv_outer(ex, s, j):
        Ys = s.deref(s.vars['Y'])
        sv = s.vars['shift']
        return [('length', Ys.n == j),
                ('shift-is-the-prepared-option-vector', z3.BoolVal(X.is_vec1(sv) and sv.tag == 'rvec')),
                ('finished-cores-have-the-pattern-shapes', z3.ForAll([t], z3.Implies(z3.And(0 <= t, t < j), dims(Ys.arr[t], t)), patterns=[Ys.arr[t]])),
                ('finished-cores-have-the-pattern-slices',
                 z3.ForAll([t, m_], z3.Implies(z3.And(0 <= t, t < j, 0 <= m_, m_ < narr[t]), T.sl(Ys.arr[t], m_) == pat(t, m_)),
                           patterns=[T.sl(Ys.arr[t], m_)]))]

    def inv_inner(ex, s, m):
        G = s.vars['G']
        j = s.ghost['_j0']
        if not (isinstance(G, VArr) and G.tag == 'core' and G.t is not None):
            raise M.ContractMismatch('poly: G is not a 3-D core inside the fill loop')
        return [('core-keeps-its-pattern-shape', dims(G.t, j)),
                ('filled-slices-have-the-pattern', z3.ForAll([m_], z3.Implies(z3.And(0 <= m_, m_ < m), T.sl(G.t, m_) == pat(j, m_)),
                                                             patterns=[T.sl(G.t, m_)]))]

    fn = U.func('tensors', 'poly')
    loops = {0: {'inv': inv_outer}, 1: {'inv': inv_inner}, 2: {'inv': inv_inner}, 3: {'inv': inv_inner}}
    ex = U.executor(fn, loops=loops, axioms=AXP, type_hints={'Y': 'tt'}, callees={'grid.grid_prep_opt': call_grid_prep_opt})
    ex.mode = 'ematch'
    st = U.state()
    sizes = z3.ForAll([t], z3.Implies(z3.And(0 <= t, t < d), narr[t] >= 1), patterns=[narr[t]])
    shift = s0 if skind == 'number' else st.alloc(VSeq(sarr, d, lambda x: x, tag='real'))
    st.vars.update(n=st.alloc(VSeq(narr, d, lambda x: x, tag='int')), shift=shift, power=power, scale=scale)
    res = U.run(ex, st, pre=[d >= 2, sizes])
    U.assumed.append('grid.grid_prep_opt (units grid.grid_prep_opt.*)')
    U.cover('precondition-satisfiable', U.pre, axioms=AXP)
    k_, k2_ = z3.Ints('k!c k2!c')
    for p, o in res:
        if o.kind != 'return':
            U.post('no-exception', p, False, axioms=AXP, mode='ematch')
            continue
        Ys = p.deref(o.value)
        R_ = Ys.arr
        sv = p.vars['shift']
        shv = lambda k: sv.t[k]
        U.post('d-cores', p, Ys.n == d, axioms=AXP, mode='ematch')
        U.post('shift-option-is-the-scalar-resp-the-list-element', p, z3.Implies(z3.And(0 <= tt, tt < d), shv(tt) == sh(tt)), axioms=AXP, mode='ematch')
        U.post('well-formed: ranks 1, 2, .., 2, 1 and the requested mode sizes', p, z3.Implies(z3.And(0 <= tt, tt < d), dims(R_[tt], tt)),
               axioms=AXP, mode='ematch')
        ctx = list(p.pc) + [z3.ForAll([t], z3.Implies(z3.And(0 <= t, t < d), z3.And(0 <= ix[t], ix[t] < narr[t])), patterns=[ix[t]])]
        gi = lambda k: g(k, ix[k])
        # S(k) = sum_{j <= k} powf(ix_j + shift_j, power)   (spec function, defined by recursion)
        S_ = z3.Function('psum', z3.IntSort(), z3.RealSort())
        sdef = [S_(0) == gi(z3.IntVal(0)),
                z3.ForAll([k_, k2_], z3.Implies(z3.And(k_ >= 0, k2_ == k_ + 1, k2_ < d), S_(k2_) == S_(k_) + gi(k2_)),
                          patterns=[z3.MultiPattern(S_(k_), S_(k2_))])]
        Q = lambda k: T.chain(R_, ix, k) == X.m12(1, S_(k))
        U.lemma('prefix-chain-is-the-row-(1, partial sum).base', ctx + sdef, Q(z3.IntVal(0)), axioms=AXP, kind='lemma-base')
        U.lemma('prefix-chain-is-the-row-(1, partial sum).step', ctx + sdef + [kk >= 1, kk < d - 1, Q(kk - 1)], Q(kk), axioms=AXP, kind='lemma-step')
        last = gi(d - 1) * scale + T.rmul(S_(d - 2), scale)
        U.post('entry-is-last-term*scale + (sum of the other terms)*scale', ctx + sdef + [Q(d - 2)],
               T.ent(T.chain(R_, ix, d - 1), 0, 0) == last, axioms=AXP, mode='ematch')
        U.post('which-is-scale-times-the-sum-over-all-modes', list(p.pc) + [S_(d - 1) == S_(d - 2) + gi(d - 1)],
               gi(d - 1) * scale + S_(d - 2) * scale == scale * S_(d - 1), qf=True)
        U.lemmas.append('rmul(x, y) = x * y (the abstract product of the element theory is the real product)')
        U.canary('canary-entry-is-the-plain-sum', ctx + sdef + [Q(d - 2)], T.ent(T.chain(R_, ix, d - 1), 0, 0) == S_(d - 2) + gi(d - 1), axioms=AXP)


@unit('tensors.poly.scalar_shift', props=('C19', 'C11'))
def u_poly_number(U):
    _poly_unit(U, 'number')


@unit('tensors.poly.list_shift', props=('C19', 'C11'))
def u_poly_list(U):
    _poly_unit(U, 'list')


# ----------------------------------------------------------------------------------------------
# tensors.rand_custom  (C19: "random constructors return well-formed tensors of the requested shape and rank profile (scalar or
# per-bond ranks)", mechanism "one flat random vector cut into Fortran-ordered cores";  C10: one call of the sampler)
#
# Proved for every d >= 1, mode sizes >= 1, a scalar rank >= 1 or a rank list of length d + 1 with entries >= 1:
#   * the sampler f is called exactly once, with the total number of entries  sum_k n_k r_k r_{k+1}  (products in the engine's
#     abstraction mulI);  * core k is the Fortran-order reshape of the block of the sample that starts at  sum_{j<k} n_j r_j r_{j+1},
#     has shape (r_k, n_k, r_{k+1});  * the tensor is well-formed when r_0 = r_d = 1;  * no slice / reshape can fail;
#   * the argument lists are not modified.
# Not covered: the default sampler np.random.randn (global generator - flagged by frames / C10), entries of the cores as numbers
# beyond "block of the sample in F order" (fcut is an uninterpreted constructor with shape axioms only).

AXR = T.axioms('shape', 'mulI', 'fcut')


def flat_sampler(name='f'):
    """A sampling callback: returns a fresh float vector of the requested length and logs the call."""
    def handler(ex, st, args, kwargs, node):
        if kwargs or len(args) != 1:
            raise M.Unsupported('sampler called with other than one positional argument')
        size = args[0]
        ex.oblige(st, 'call-pre', 'sampler-is-asked-for-a-non-negative-integer-count', z3.And(z3.BoolVal(M.is_intsort(size)), Z(size) >= 0)
                  if M.is_num(size) else False, node)
        out = X.rvec(size, ex.fresh('sample', RA))
        st.ghost['fcalls'] = st.ghost.get('fcalls', []) + [(size, out.t)]
        return out
    return VFunc(name, handler)


def _rank_args(st, rkind, d):
    """(value of the parameter r, spec function of the rank profile r_0..r_d, preconditions)."""
    if rkind == 'number':
        r0 = z3.Int('r')
        return r0, (lambda k: z3.If(z3.Or(k == 0, k == d), 1, r0)), [r0 >= 1], None
    if rkind == 'float':
        r0 = z3.Real('r')
        return r0, (lambda k: z3.If(z3.Or(k == 0, k == d), 1, trunc(r0))), [r0 >= 1], None
    rl = z3.Const('rlist', T.IDX)
    ref = st.alloc(VSeq(rl, d + 1, lambda x: x, tag='int'))
    return ref, (lambda k: rl[k]), [z3.ForAll([tt], z3.Implies(z3.And(0 <= tt, tt <= d), rl[tt] >= 1), patterns=[rl[tt]])], rl


def _tsize(narr, rk, d):
    """tsize(k) = sum_{j<k} n_j r_j r_{j+1}: spec function defined by recursion (two-variable pattern)."""
    ts = z3.Function('tsize', z3.IntSort(), z3.IntSort())
    k_, k2_ = z3.Ints('k!c k2!c')
    return ts, [ts(0) == 0,
                z3.ForAll([k_, k2_], z3.Implies(z3.And(k_ >= 0, k2_ == k_ + 1), ts(k2_) == ts(k_) + T.mul_canon(narr[k_], rk(k_), rk(k2_))),
                          patterns=[z3.MultiPattern(ts(k_), ts(k2_))])]


def _rand_custom_unit(U, rkind):
    d = z3.Int('d')
    narr = z3.Const('n', T.IDX)
    t = z3.Int('t!r')

    def inv(ex, s, i):
        Ys = s.deref(s.vars['Y'])
        cores, ps, r, n = s.vars['cores'], s.vars['ps'], s.vars['r'], s.vars['n']
        if not (X.is_vec1(cores) and X.is_vec1(ps) and X.is_vec1(r) and X.is_vec1(n)):
            raise M.ContractMismatch('rand_custom: cores / ps / r / n are not vectors with a denotation')
        return [('length', Ys.n == i),
                ('finished-cores-are-the-F-ordered-blocks-of-the-sample',
                 z3.ForAll([t], z3.Implies(z3.And(0 <= t, t < i), Ys.arr[t] == X.fcut(cores.t, ps.t[t] - 1, r.t[t], n.t[t], r.t[t + 1])),
                           patterns=[Ys.arr[t]]))]

    fn = U.func('tensors', 'rand_custom')
    ex = U.executor(fn, loops={0: {'inv': inv}}, axioms=AXR, type_hints={'Y': 'tt'})
    ex.mode = 'ematch'
    st = U.state()
    rv, rk, rpre, rl = _rank_args(st, rkind, d)
    nref = st.alloc(VSeq(narr, d, lambda x: x, tag='int'))
    st.vars.update(n=nref, r=rv, f=flat_sampler())
    sizes = z3.ForAll([t], z3.Implies(z3.And(0 <= t, t < d), narr[t] >= 1), patterns=[narr[t]])
    res = U.run(ex, st, pre=[d >= 1, sizes] + rpre)
    U.cover('precondition-satisfiable', U.pre, axioms=AXR)
    ts, tdef = _tsize(narr, rk, d)
    for p, o in res:
        if o.kind != 'return':
            U.post('no-exception', p, False, axioms=AXR, mode='ematch')
            continue
        Ys = p.deref(o.value)
        R_ = Ys.arr
        cores, ps, r, n = p.vars['cores'], p.vars['ps'], p.vars['r'], p.vars['n']
        calls = p.ghost.get('fcalls', [])
        U.post('sampler-called-exactly-once', p, z3.BoolVal(len(calls) == 1))
        if len(calls) != 1:
            continue
        total, flat = calls[0]
        U.post('the-cores-are-cut-from-that-one-sample', p, z3.BoolVal(cores.t is flat))
        U.post('argument-lists-are-not-modified', p, z3.BoolVal(p.heap[nref.oid].arr is narr and p.heap[nref.oid].n is d and
                                                                (rl is None or (p.heap[rv.oid].arr is rl))))
        U.post('d-cores', p, Ys.n == d, axioms=AXR, mode='ematch')
        U.post('rank-profile-is-the-requested-one (scalar: 1, r, .., r, 1)', p, z3.Implies(z3.And(0 <= tt, tt <= d), r.t[tt] == rk(tt)), axioms=AXR, mode='ematch')
        U.post('mode-sizes-are-the-requested-ones', p, z3.Implies(z3.And(0 <= tt, tt < d), n.t[tt] == narr[tt]), axioms=AXR, mode='ematch')
        U.post('core-k-has-shape-(r_k, n_k, r_k+1)', p,
               z3.Implies(z3.And(0 <= tt, tt < d), z3.And(T.d0(R_[tt]) == rk(tt), T.d1(R_[tt]) == narr[tt], T.d2(R_[tt]) == rk(tt + 1))), axioms=AXR, mode='ematch')
        shapes = z3.ForAll([t], z3.Implies(z3.And(0 <= t, t < d), z3.And(T.d0(R_[t]) == rk(t), T.d1(R_[t]) == narr[t], T.d2(R_[t]) == rk(t + 1))),
                           patterns=[R_[t]])
        U.post('well-formed-when-the-boundary-ranks-are-1', list(U.pre) + [shapes, Ys.n == d, d >= 2, rk(z3.IntVal(0)) == 1, rk(d) == 1],
               T.wf(R_, d), axioms=AXR, mode='ematch')
        # lemma: the cumulative offsets of the code are 1 + tsize(k)
        L = lambda k: ps.t[k] == 1 + ts(k)
        U.lemma('offsets-are-1+partial-sums-of-the-core-sizes.base', list(p.pc) + tdef, L(z3.IntVal(0)), axioms=AXR, kind='lemma-base')
        U.lemma('offsets-are-1+partial-sums-of-the-core-sizes.step', list(p.pc) + tdef + [kk >= 0, kk < d, L(kk)], L(kk + 1), axioms=AXR, kind='lemma-step')
        lem = z3.ForAll([kk], z3.Implies(z3.And(0 <= kk, kk <= d), L(kk)), patterns=[ps.t[kk]])
        U.post('sampler-is-asked-for-the-total-number-of-entries: sum_k n_k r_k r_k+1', list(p.pc) + tdef + [lem], Z(total) == ts(d), axioms=AXR, mode='ematch')
        U.post('core-k-is-the-F-ordered-block-that-starts-after-the-entries-of-the-cores-before-it', list(p.pc) + tdef + [lem],
               z3.Implies(z3.And(0 <= tt, tt < d), R_[tt] == X.fcut(flat, ts(tt), rk(tt), narr[tt], rk(tt + 1))), axioms=AXR, mode='ematch')
        U.canary('canary-no-entries-are-drawn', list(p.pc) + tdef + [lem], Z(total) == 0, axioms=AXR)


for _rk in ('number', 'float', 'list'):
    def _mk(rk=_rk):
        @unit(f'tensors.rand_custom.{rk}', props=('C19', 'C11', 'C10'))
        def u(U):
            _rand_custom_unit(U, rk)
    _mk()


# ----------------------------------------------------------------------------------------------
# call-site contracts used by rand / rand_norm

def logging_rand(ex, st, args, kwargs, node):
    """utils._rand by its contract (unit utils._rand): a Generator object is used as it is, None / an int give the generator
    seeded with that value.  Every call is logged (C10: the seed has to go through _rand exactly once)."""
    seed = args[0] if args else kwargs.get('seed', NONE)
    g = seed if isinstance(seed, R.VGen) else R.VGen(('_rand', seed))
    st.ghost['randcalls'] = st.ghost.get('randcalls', []) + [(seed, g)]
    return g


def call_rand_custom(ex, st, args, kwargs, node):
    """tensors.rand_custom(n, r, f) by what the units tensors.rand_custom.* prove."""
    if kwargs or len(args) != 3 or not isinstance(args[2], VFunc):
        raise M.Unsupported('rand_custom call-site contract: rand_custom(n, r, f) with a callable f')
    n, r, f = st.deref(args[0]), st.deref(args[1]), args[2]
    if not (isinstance(n, VSeq) and n.tag == 'int'):
        raise M.Unsupported('rand_custom call-site contract: n must be a list of integers')
    d, narr = n.n, n.arr
    k = z3.Int('k!rc')
    ex.oblige(st, 'call-pre', 'rand_custom: at least one mode, all mode sizes >= 1',
              z3.And(d >= 1, z3.ForAll([k], z3.Implies(z3.And(0 <= k, k < d), narr[k] >= 1), patterns=[narr[k]])), node)
    if M.is_num(r):
        rr = Z(r) if M.is_intsort(r) else trunc(Z(r))
        ex.oblige(st, 'call-pre', 'rand_custom: scalar rank >= 1', Z(r) >= 1, node)
        rk = lambda j: z3.If(z3.Or(j == 0, j == d), 1, rr)
    elif isinstance(r, VSeq) and r.tag == 'int':
        ex.oblige(st, 'call-pre', 'rand_custom: rank list of length d + 1 with entries >= 1',
                  z3.And(r.n == d + 1, z3.ForAll([k], z3.Implies(z3.And(0 <= k, k <= d), r.arr[k] >= 1), patterns=[r.arr[k]])), node)
        rk = lambda j, a=r.arr: a[j]
    else:
        raise M.Unsupported('rand_custom call-site contract: r must be a number or a list of integers')
    ts, tdef = _tsize(narr, rk, d)
    st.assume(*tdef)
    total = ex.fresh_int('total')
    st.assume(total == ts(d), total >= 0)
    before = len(st.ghost.get('fcalls_rc', []))
    sample = st.deref(f.handler(ex, st, [total], {}, node))           # the one call of the sampler
    if not (X.is_vec1(sample) and sample.tag == 'rvec'):
        raise M.Unsupported('rand_custom call-site contract: the sampler must return a float vector')
    ex.oblige(st, 'call-pre', 'rand_custom: the sampler returns as many values as it was asked for', Z(sample.shape[0]) == total, node)
    Rn = ex.fresh('Yrc', T.TT)
    st.assume(z3.ForAll([k], z3.Implies(z3.And(0 <= k, k < d), Rn[k] == X.fcut(sample.t, ts(k), rk(k), narr[k], rk(k + 1))), patterns=[Rn[k]]))
    st.ghost['rand_custom'] = st.ghost.get('rand_custom', []) + [dict(total=total, ts=ts, rk=rk, d=d, narr=narr, sample=sample.t, R=Rn)]
    return st.alloc(VSeq(Rn, d, M.mk_core, tag='core'))


# ----------------------------------------------------------------------------------------------
# tensors.rand / tensors.rand_norm  (C19 random constructors; C10: "given a generator object it draws from that object only",
# same seed -> same sequence of draws)
#
# Proved for seed = None / int / Generator object: _rand is called exactly once, with the seed argument itself; exactly one draw
# is made, from the generator that _rand returned, by uniform(a, b) resp. normal(m, s) with the parameters in this order and
# size = total number of entries (so the draw sequence is a function of the arguments alone); the result is the tensor that
# rand_custom cuts from this draw: d cores of shape (r_k, n_k, r_k+1), well-formed for boundary ranks 1; uniform entries lie in
# [a, b] (model-table fact about Generator.uniform); n and r are not modified.
# Not covered: the distribution itself (bounded suite C19 / C14 statistics).

def _rand_unit(U, fname, method_, pnames, rkind, skind):
    d = z3.Int('d')
    narr = z3.Const('n', T.IDX)
    t = z3.Int('t!r')
    fn = U.func('tensors', fname)
    ex = U.executor(fn, axioms=AXR, callees={'utils._rand': logging_rand, 'tensors.rand_custom': call_rand_custom})
    ex.mode = 'ematch'
    st = U.state()
    rv, rk, rpre, rl = _rank_args(st, rkind, d)
    nref = st.alloc(VSeq(narr, d, lambda x: x, tag='int'))
    seed = {'int': z3.Int('seed'), 'none': NONE, 'generator': R.VGen('caller')}[skind]
    p0, p1 = z3.Real(pnames[0]), z3.Real(pnames[1])
    st.vars.update({'n': nref, 'r': rv, pnames[0]: p0, pnames[1]: p1, 'seed': seed})
    sizes = z3.ForAll([t], z3.Implies(z3.And(0 <= t, t < d), narr[t] >= 1), patterns=[narr[t]])
    res = U.run(ex, st, pre=[d >= 1, sizes] + rpre)
    U.assumed.extend(['utils._rand (unit utils._rand)', 'tensors.rand_custom (units tensors.rand_custom.*)'])
    U.cover('precondition-satisfiable', U.pre, axioms=AXR)
    for p, o in res:
        if o.kind != 'return':
            U.post('no-exception', p, False, axioms=AXR, mode='ematch')
            continue
        rc, log, rcalls = p.ghost.get('rand_custom', []), p.ghost.get('drawlog', []), p.ghost.get('randcalls', [])
        U.post('seed-goes-through-_rand-exactly-once', p, z3.BoolVal(len(rcalls) == 1 and rcalls[0][0] is seed))
        U.post('exactly-one-draw', p, z3.BoolVal(len(log) == 1))
        U.post('result-is-built-by-one-call-of-rand_custom', p, z3.BoolVal(len(rc) == 1 and isinstance(o.value, VRef)))
        if not (len(rcalls) == 1 and len(log) == 1 and len(rc) == 1 and isinstance(o.value, VRef)):
            continue
        g, dr, c = rcalls[0][1], log[0], rc[0]
        Ys = p.deref(o.value)
        if skind == 'generator':
            U.post('a-generator-object-is-used-as-it-is', p, z3.BoolVal(g is seed))
        U.post('the-draw-comes-from-the-generator-returned-by-_rand', p, z3.BoolVal(dr['gen'] is g))
        U.post(f'the-draw-is-{method_}-with-the-parameters-in-the-documented-order', p,
               z3.And(z3.BoolVal(dr['method'] == method_), dr['params'][0] == p0, dr['params'][1] == p1))
        U.post('the-draw-has-as-many-values-as-the-tensor-has-entries: sum_k n_k r_k r_k+1', p,
               z3.And(z3.BoolVal(len(dr['shape']) == 1), Z(dr['shape'][0]) == c['ts'](d)), axioms=AXR, mode='ematch')
        U.post('the-cores-are-cut-from-that-draw', p, z3.BoolVal(c['sample'] is dr['out'] and Ys.arr is c['R']))
        U.post('d-cores', p, Ys.n == d, axioms=AXR, mode='ematch')
        U.post('core-k-has-shape-(r_k, n_k, r_k+1)', p,
               z3.Implies(z3.And(0 <= tt, tt < d), z3.And(T.d0(Ys.arr[tt]) == rk(tt), T.d1(Ys.arr[tt]) == narr[tt], T.d2(Ys.arr[tt]) == rk(tt + 1))),
               axioms=AXR, mode='ematch')
        shapes = z3.ForAll([t], z3.Implies(z3.And(0 <= t, t < d), z3.And(T.d0(Ys.arr[t]) == rk(t), T.d1(Ys.arr[t]) == narr[t], T.d2(Ys.arr[t]) == rk(t + 1))),
                           patterns=[Ys.arr[t]])
        U.post('well-formed-when-the-boundary-ranks-are-1', list(U.pre) + [shapes, d >= 2, rk(z3.IntVal(0)) == 1, rk(d) == 1], T.wf(Ys.arr, d),
               axioms=AXR, mode='ematch')
        if method_ == 'uniform':
            U.post('entries-of-the-sample-lie-in-[a,b]', p, z3.Implies(p0 <= p1, z3.And(p0 <= dr['out'][tt], dr['out'][tt] <= p1)), axioms=AXR, mode='ematch')
        U.post('argument-lists-are-not-modified', p, z3.BoolVal(p.heap[nref.oid].arr is narr and p.heap[nref.oid].n is d and
                                                                (rl is None or (p.heap[rv.oid].arr is rl))))
        U.canary('canary-nothing-is-drawn', p, Z(dr['shape'][0]) == 0, axioms=AXR)


for _fn, _me, _pn in (('rand', 'uniform', ('a', 'b')), ('rand_norm', 'normal', ('m', 's'))):
    for _rk in ('number', 'list'):
        for _sk in ('int', 'none', 'generator'):
            def _mk(fn=_fn, me=_me, pn=_pn, rk=_rk, sk=_sk):
                @unit(f'tensors.{fn}.{rk}.seed_{sk}', props=('C19', 'C10', 'C11'))
                def u(U):
                    _rand_unit(U, fn, me, pn, rk, sk)
            _mk()


# ----------------------------------------------------------------------------------------------
# tensors.rand_stab  (C19: "the stable random tensor is the all-ones tensor perturbed by the requested noise";  C10 / C11)
#
# Proved for every d >= 1, mode sizes >= 1, scalar rank >= 1 or rank list (length d + 1, entries >= 1), seed None / int / Generator:
#   * _rand is called once with the seed; core k is produced by draw number k of that generator: normal(0, noise) of shape
#     (r_k, n_k, r_k+1) - one draw per core, in the order of the cores (C10);
#   * every slice of core k is  (slice of that draw) + np.eye(r_k, r_k+1);  d cores, well-formed for boundary ranks 1 (C11);
#   * the noise-free part (slices np.eye(r_k, r_k+1)) is the all-ones tensor: chain of rectangular identities 1 x r .. r x 1 = [[1]]
#     (lemma by induction, theory group 'eyer');  * n and r are not modified.
# Not covered: the size of the perturbation of the entries (products of noise terms; bounded suite C19), the distribution.

AXS = T.axioms('shape', 'mulI', 'small', 'eyer', 'chain')


def _rand_stab_unit(U, rkind, skind):
    d = z3.Int('d')
    narr = z3.Const('n', T.IDX)
    noise = z3.Real('noise')
    t, q_ = z3.Ints('t!s q!s')
    seed = {'int': z3.Int('seed'), 'none': NONE, 'generator': R.VGen('caller')}[skind]
    state = {}

    def gen_of(s):
        g = s.vars['rand']
        if not isinstance(g, R.VGen):
            raise M.ContractMismatch('rand_stab: `rand` is not a generator')
        return g

    def slices_ok(c, k, gid, rk, upto=None):
        """slices q < upto of the core c are draw + identity, the others are still the draw (upto=None: all are finished)"""
        N = X.drawc(gid, k)
        E = X.eyer(rk(k), rk(k + 1))
        body = T.sl(c, q_) == (T.madd(T.sl(N, q_), E) if upto is None else z3.If(q_ < upto, T.madd(T.sl(N, q_), E), T.sl(N, q_)))
        return z3.Implies(z3.And(0 <= q_, q_ < narr[k]), body)

    def dims(c, k, rk):
        return z3.And(T.d0(c) == rk(k), T.d1(c) == narr[k], T.d2(c) == rk(k + 1))

    def rk_of(s):
        r = s.vars['r']
        if not (X.is_vec1(r) and r.tag == 'ivec'):
            raise M.ContractMismatch('rand_stab: r is not an integer vector')
        return lambda k: r.t[k]

    def inv_outer(ex, s, j):
        Ys = s.deref(s.vars['Y'])
        gid, rk = X.gen_id(gen_of(s)), rk_of(s)
        return [('length', Ys.n == j),
                ('one-draw-per-finished-core', Z(s.ghost.get('ndraw', z3.IntVal(0))) == j),
                ('finished-cores-have-the-requested-shape', z3.ForAll([t], z3.Implies(z3.And(0 <= t, t < j), dims(Ys.arr[t], t, rk)), patterns=[Ys.arr[t]])),
                ('finished-cores-are-their-draw-plus-identity-slices',
                 z3.ForAll([t, q_], z3.Implies(z3.And(0 <= t, t < j), slices_ok(Ys.arr[t], t, gid, rk)), patterns=[T.sl(Ys.arr[t], q_)]))]

    def havoc_outer(ex, h, pre, j):
        h.ghost['ndraw'] = ex.fresh_int('ndraw')
        h.ghost['drawlog'] = []

    def body_end(ex, s, o, j):
        log = s.ghost.get('drawlog', [])
        g, rk = gen_of(s), rk_of(s)
        ok = len(log) == 1 and log[0]['gen'] is g and log[0]['method'] == 'normal' and len(log[0]['shape']) == 3
        ex.oblige(s, 'post', 'each-core-takes-exactly-one-normal-draw-from-the-seeded-generator', z3.BoolVal(ok), None, assume=False)
        if ok:
            dr = log[0]
            ex.oblige(s, 'post', 'the-draw-is-normal(0, noise)-of-the-shape-of-the-core',
                      z3.And(dr['params'][0] == 0, dr['params'][1] == noise, Z(dr['shape'][0]) == rk(j), Z(dr['shape'][1]) == narr[j],
                             Z(dr['shape'][2]) == rk(j + 1)), None, assume=False)
            ex.oblige(s, 'post', 'core-k-uses-draw-number-k (fixed order of the draws)', dr['idx'] == j, None, assume=False)

    def inv_inner(ex, s, p_):
        G = s.vars['G']
        if not (isinstance(G, VArr) and G.tag == 'core' and G.t is not None):
            raise M.ContractMismatch('rand_stab: G is not a 3-D core inside the slice loop')
        k = s.ghost['_j0']
        gid, rk = X.gen_id(gen_of(s)), rk_of(s)
        return [('core-keeps-its-shape', dims(G.t, k, rk)),
                ('slices-before-p-are-draw-plus-identity-the-others-still-the-draw',
                 z3.ForAll([q_], slices_ok(G.t, k, gid, rk, upto=p_), patterns=[T.sl(G.t, q_)]))]

    fn = U.func('tensors', 'rand_stab')
    ex = U.executor(fn, loops={0: {'inv': inv_outer, 'havoc_hook': havoc_outer, 'body_end': body_end}, 1: {'inv': inv_inner}}, axioms=AXS,
                    type_hints={'Y': 'tt'}, callees={'utils._rand': logging_rand})
    ex.mode = 'ematch'
    st = U.state()
    rv, rk0, rpre, rl = _rank_args(st, rkind, d)
    nref = st.alloc(VSeq(narr, d, lambda x: x, tag='int'))
    st.vars.update(n=nref, r=rv, noise=noise, seed=seed)
    sizes = z3.ForAll([t], z3.Implies(z3.And(0 <= t, t < d), narr[t] >= 1), patterns=[narr[t]])
    res = U.run(ex, st, pre=[d >= 1, sizes] + rpre)
    U.assumed.append('utils._rand (unit utils._rand)')
    U.cover('precondition-satisfiable', U.pre, axioms=AXS)
    for p, o in res:
        if o.kind != 'return':
            U.post('no-exception', p, False, axioms=AXS, mode='ematch')
            continue
        rcalls = p.ghost.get('randcalls', [])
        U.post('seed-goes-through-_rand-exactly-once', p, z3.BoolVal(len(rcalls) == 1 and rcalls[0][0] is seed))
        if len(rcalls) != 1:
            continue
        g = rcalls[0][1]
        U.post('all-draws-come-from-the-generator-returned-by-_rand', p, z3.BoolVal(p.vars.get('rand') is g))
        if skind == 'generator':
            U.post('a-generator-object-is-used-as-it-is', p, z3.BoolVal(g is seed))
        Ys = p.deref(o.value)
        R_ = Ys.arr
        rk = rk_of(p)
        gid = X.gen_id(g)
        U.post('d-cores', p, Ys.n == d, axioms=AXS, mode='ematch')
        U.post('exactly-d-draws', p, Z(p.ghost.get('ndraw', z3.IntVal(0))) == d, axioms=AXS, mode='ematch')
        U.post('rank-profile-is-the-requested-one (scalar: 1, r, .., r, 1)', p, z3.Implies(z3.And(0 <= tt, tt <= d), rk(tt) == rk0(tt)), axioms=AXS, mode='ematch')
        U.post('core-k-has-shape-(r_k, n_k, r_k+1)', p, z3.Implies(z3.And(0 <= tt, tt < d), dims(R_[tt], tt, rk0)), axioms=AXS, mode='ematch')
        shapes = z3.ForAll([t], z3.Implies(z3.And(0 <= t, t < d), dims(R_[t], t, rk0)), patterns=[R_[t]])
        U.post('well-formed-when-the-boundary-ranks-are-1', list(U.pre) + [shapes, d >= 2, rk0(z3.IntVal(0)) == 1, rk0(d) == 1], T.wf(R_, d),
               axioms=AXS, mode='ematch')
        U.post('every-slice-is-the-slice-of-draw-k-plus-the-rectangular-identity', p,
               z3.Implies(z3.And(0 <= tt, tt < d), slices_ok(R_[tt], tt, gid, rk)), axioms=AXS, mode='ematch')
        U.post('argument-lists-are-not-modified', p, z3.BoolVal(p.heap[nref.oid].arr is narr and p.heap[nref.oid].n is d and
                                                                (rl is None or (p.heap[rv.oid].arr is rl))))
        U.canary('canary-no-draws', p, Z(p.ghost.get('ndraw', z3.IntVal(0))) == 0, axioms=AXS)
    # the noise-free part: any tensor E whose slices are np.eye(r_k, r_k+1) (ranks >= 1, boundary ranks 1) is the all-ones tensor
    E = z3.Const('E', T.TT)
    ix = z3.Const('ix', T.IDX)
    rr = z3.Const('rr', T.IDX)
    hyp = [d >= 1, rr[0] == 1, rr[d] == 1, z3.ForAll([t], z3.Implies(z3.And(0 <= t, t <= d), rr[t] >= 1), patterns=[rr[t]]),
           z3.ForAll([t, q_], z3.Implies(z3.And(0 <= t, t < d), T.sl(E[t], q_) == X.eyer(rr[t], rr[t + 1])), patterns=[T.sl(E[t], q_)])]
    Q = lambda k: T.chain(E, ix, k) == X.eyer(1, rr[k + 1])
    U.lemma('chain-of-identity-slices-is-the-1-x-r-identity-row.base', hyp, Q(z3.IntVal(0)), axioms=AXS, kind='lemma-base')
    U.lemma('chain-of-identity-slices-is-the-1-x-r-identity-row.step', hyp + [kk >= 1, kk < d, Q(kk - 1)], Q(kk), axioms=AXS, kind='lemma-step')
    U.post('noise-free-part-is-the-all-ones-tensor', hyp + [Q(d - 1)], T.ent(T.chain(E, ix, d - 1), 0, 0) == 1, axioms=AXS, mode='ematch')


for _rk in ('number', 'list'):
    for _sk in ('int', 'none', 'generator'):
        def _mk(rk=_rk, sk=_sk):
            @unit(f'tensors.rand_stab.{rk}.seed_{sk}', props=('C19', 'C10', 'C11'))
            def u(U):
                _rand_stab_unit(U, rk, sk)
        _mk()


# ----------------------------------------------------------------------------------------------
# sample.sample_rand  (C14: "all samplers return integer arrays of the requested shape inside the tensor bounds";  C10)
#
# Proved for every d >= 1, mode sizes >= 1, m >= 0 (int or float, truncated), seed None / int / Generator: the result is the integer
# matrix of shape (int(m), d); I[t, k] lies in [0, n_k); column k is draw number k of the generator returned by the single call
# _rand(seed): choice(arange(n_k), int(m)) with replacement - d draws in the order of the modes (C10); n is not modified.
# Not covered: uniformity / independence of the draws (bounded suite C14).

def _sample_rand_unit(U, nkind, mkind, skind):
    d = z3.Int('d')
    narr = z3.Const('n', T.IDX)
    t = z3.Int('t!sr')
    fn = U.func('sample', 'sample_rand')
    ex = U.executor(fn, callees={'utils._rand': logging_rand})
    st = U.state()
    nref = st.alloc(VSeq(narr, d, lambda x: x, tag='int')) if nkind == 'list' else X.ivec(d, narr)
    m0 = z3.Int('m') if mkind == 'int' else z3.Real('m')
    mi = m0 if mkind == 'int' else trunc(m0)
    seed = {'int': z3.Int('seed'), 'none': NONE, 'generator': R.VGen('caller')}[skind]
    st.vars.update(n=nref, m=m0, seed=seed)
    sizes = z3.ForAll([t], z3.Implies(z3.And(0 <= t, t < d), narr[t] >= 1), patterns=[narr[t]])
    res = U.run(ex, st, pre=[d >= 1, m0 >= 0, sizes])
    U.assumed.append('utils._rand (unit utils._rand)')
    U.cover('precondition-satisfiable', U.pre)
    for p, o in res:
        if o.kind != 'return':
            U.post('no-exception', p, False)
            continue
        rcalls, log = p.ghost.get('randcalls', []), p.ghost.get('drawlog', [])
        U.post('seed-goes-through-_rand-exactly-once', p, z3.BoolVal(len(rcalls) == 1 and rcalls[0][0] is seed))
        I = p.deref(o.value)
        ok = isinstance(I, VArr) and I.ndim == 2 and I.tag == 'imat'
        U.post('result-is-the-matrix-of-the-drawn-indices', p, z3.BoolVal(ok))
        U.post('one-family-of-draws: one per mode', p, z3.BoolVal(len(log) == 1 and 'family' in log[0]))
        if not (ok and len(rcalls) == 1 and len(log) == 1 and 'family' in log[0]):
            continue
        g, dr = rcalls[0][1], log[0]
        j, cnt = dr['family']
        if skind == 'generator':
            U.post('a-generator-object-is-used-as-it-is', p, z3.BoolVal(g is seed))
        U.post('integer-array-of-shape-(m,d), one row per sample', p, z3.And(z3.BoolVal(I.dtype == 'i' and I.transposed), Z(I.shape[0]) == mi, Z(I.shape[1]) == d))
        if not I.transposed:
            continue
        U.post('every-index-lies-inside-its-mode', p, z3.Implies(z3.And(0 <= tt, tt < mi, 0 <= kk, kk < d),
                                                                 z3.And(0 <= X.imat_entry(I, tt, kk), X.imat_entry(I, tt, kk) < narr[kk])))
        U.post('the-draws-come-from-the-generator-returned-by-_rand', p, z3.BoolVal(dr['gen'] is g))
        U.post('column-k-is-draw-number-k: choice(arange(n_k), m) with replacement', p,
               z3.And(z3.BoolVal(dr['method'] == 'choice' and dr['params'][1] is False and I.rows is dr['out'] and len(dr['shape']) == 1),
                      cnt == d, Z(dr['shape'][0]) == mi,
                      z3.Implies(z3.And(0 <= kk, kk < d), z3.And(z3.substitute(dr['idx'], (j, kk)) == kk, z3.substitute(dr['params'][0], (j, kk)) == narr[kk]))))
        U.post('exactly-d-draws', p, Z(p.ghost.get('ndraw', z3.IntVal(0))) == d)
        if nkind == 'list':
            U.post('argument-list-is-not-modified', p, z3.BoolVal(p.heap[nref.oid].arr is narr and p.heap[nref.oid].n is d))
        U.canary('canary-all-indices-zero', p, z3.Implies(z3.And(0 <= tt, tt < mi, 0 <= kk, kk < d), X.imat_entry(I, tt, kk) == 0))


for _nk, _mk_, _sk in (('list', 'int', 'int'), ('list', 'float', 'none'), ('array', 'int', 'generator'), ('list', 'int', 'generator')):
    def _mk(nk=_nk, mk=_mk_, sk=_sk):
        @unit(f'sample.sample_rand.{nk}.m_{mk}.seed_{sk}', props=('C14', 'C10'))
        def u(U):
            _sample_rand_unit(U, nk, mk, sk)
    _mk()


# ----------------------------------------------------------------------------------------------
# utils._range, sample._sample_core_first: small helpers of sample_square (shape level)

@unit('utils._range', props=('C14',))
def u_range(U):
    """_range(n): the column 0..n-1 of shape (n, 1)."""
    fn = U.func('utils', '_range')
    ex = U.executor(fn)
    st = U.state()
    n = z3.Int('n')
    st.vars.update(n=n)
    res = U.run(ex, st, pre=[n >= 1])
    U.cover('precondition-satisfiable', U.pre)
    for p, o in res:
        v = p.deref(o.value) if o.kind == 'return' else None
        ok = isinstance(v, VArr) and v.ndim == 2
        U.post('returns-a-matrix', p, z3.BoolVal(ok))
        if ok:
            U.post('integer-column-of-shape-(n,1)', p, z3.And(z3.BoolVal(v.dtype == 'i'), Z(v.shape[0]) == n, Z(v.shape[1]) == 1))
            U.canary('canary-empty', p, Z(v.shape[0]) == 0, qf=True)


def call_range(ex, st, args, kwargs, node):
    n = ex.need_num(st, args[0], node)
    ex.oblige(st, 'call-pre', '_range: n >= 1', Z(n) >= 1, node)
    return VArr((n, 1), None, None, 'i')


def core_first_post(Q, I, m, out):
    """(Q[ind, :], I[ind, :]) for m drawn row numbers"""
    return isinstance(out, VTuple) and len(out.items) == 2 and all(isinstance(x, VArr) and x.ndim == 2 for x in out.items), \
        lambda a, b: z3.And(Z(a.shape[0]) == m, Z(a.shape[1]) == Z(Q.shape[1]), Z(b.shape[0]) == m, Z(b.shape[1]) == Z(I.shape[1]))


@unit('sample._sample_core_first', props=('C14', 'C10'))
def u_core_first(U):
    """_sample_core_first(Q, I, m, rand): exactly one draw, from the generator that was passed in: choice(rows of Q, size=m, p=.., replace=True);
    returns the m selected rows of Q and of I.  Not covered: that p is the vector of normalised squared row norms (bounded suite C14)."""
    fn = U.func('sample', '_sample_core_first')
    ex = U.executor(fn, lenient=True)
    ex.misc_shapes = True
    st = U.state()
    n, r, c, m = z3.Ints('n r c m')
    Q, I = VArr((n, r), None, None, 'f'), VArr((n, c), None, None, 'i')
    g = R.VGen('caller')
    st.vars.update(Q=Q, I=I, m=m, rand=g)
    res = U.run(ex, st, pre=[n >= 1, r >= 1, c >= 1, m >= 0])
    U.cover('precondition-satisfiable', U.pre)
    for p, o in res:
        if o.kind != 'return':
            U.post('no-exception', p, False)
            continue
        log = p.ghost.get('drawlog', [])
        U.post('exactly-one-draw', p, z3.BoolVal(len(log) == 1))
        if len(log) != 1:
            continue
        dr = log[0]
        U.post('the-draw-comes-from-the-generator-that-was-passed-in', p, z3.BoolVal(dr['gen'] is g))
        U.post('it-is-choice(rows of Q, size=m, p=..)-with-replacement', p,
               z3.And(z3.BoolVal(dr['method'] == 'choice' and dr['params'][1] is True and len(dr['shape']) == 1), dr['params'][0] == n, Z(dr['shape'][0]) == m))
        ok, shp = core_first_post(Q, I, m, o.value)
        U.post('returns-two-matrices', p, z3.BoolVal(ok))
        if ok:
            U.post('m-selected-rows-of-Q-and-of-I', p, shp(*o.value.items))
            U.post('index-rows-stay-integer', p, z3.BoolVal(o.value.items[1].dtype == 'i'))
            U.canary('canary-no-rows', p, Z(o.value.items[0].shape[0]) == 0)


def call_core_first(ex, st, args, kwargs, node):
    if kwargs or len(args) != 4:
        raise M.Unsupported('_sample_core_first calling pattern')
    Q, I, m, g = st.deref(args[0]), st.deref(args[1]), args[2], args[3]
    if not (isinstance(Q, VArr) and Q.ndim == 2 and isinstance(I, VArr) and I.ndim == 2 and isinstance(g, R.VGen) and M.is_intsort(m)):
        raise M.Unsupported('_sample_core_first call-site contract: (matrix, matrix, int, generator)')
    ex.oblige(st, 'call-pre', '_sample_core_first: non-empty Q, as many index rows, m >= 0',
              z3.And(Z(Q.shape[0]) >= 1, Z(I.shape[0]) == Z(Q.shape[0]), Z(m) >= 0), node)
    X.log_draw(st, g, 'choice', (Z(Q.shape[0]), True), [m], ex.fresh('ind', IA))
    st.ghost['corefirst'] = st.ghost.get('corefirst', []) + [dict(gen=g, rows=Z(Q.shape[0]), m=m)]
    return VTuple([VArr((m, Q.shape[1]), None, None, 'f'), VArr((m, I.shape[1]), None, None, I.dtype)])


# ----------------------------------------------------------------------------------------------
# sample.sample_square  (C14 "integer arrays of the requested shape", C10 "given a generator object it draws from that object only")
#
# Control / shape tier (lenient: values of Q, norms, the einsum are not interpreted).  Proved for every well-formed Y (d >= 2),
# m >= 1, m_fact >= 1, any max_rep, float_cf=None, unique in {False, True}, seed int / Generator:
#   * _rand is called once with the seed; the generator it returns is the one handed to _sample_core_first, the one every
#     per-row conditional draw choice(n_k, p=..) comes from (exactly one per row and mode, index inside the mode) and - for unique
#     sampling - the one that shuffles the rows (the global np.random is not used: the pinned defect of C10);
#   * a direct return gives an integer array of shape (m, d); unique=False never raises;
#   * ValueError is the only exception, raised iff unique and fewer than m distinct rows and (max_rep < 0 or m_fact > 10^6) -
#     with at least m distinct rows (and always for unique=False) the call returns directly;
#   * the retry is sample_square(Y, m, True, seed, 2*m_fact, max_rep-1, float_cf=float_cf): same tensor, same seed object, and it
#     happens only while max_rep >= 0, so the recursion ends after at most max_rep + 1 retries.
# Not covered (bounded suite C14): index bounds of the returned array and distinctness of its rows (the rows are filled through
# views, which ttvc does not model), the chain of conditional probabilities, float_cf, what a retry returns.

def _sample_square_unit(U, unique, skind):
    fn = U.func('sample', 'sample_square')
    AXQ = T.axioms('shape', 'mulI')

    def call_self(ex, st, args, kwargs, node):
        st.ghost['recursion'] = st.ghost.get('recursion', []) + [(list(args), dict(kwargs))]
        out = VArr((args[1], st.ghost['d_']), None, None, 'i')
        out.from_retry = True
        return out

    def shapes(s):
        I, Q, Zs, m1 = s.vars['I'], s.vars['Q'], s.deref(s.vars['Z']), s.vars['m1']
        if not (isinstance(I, VArr) and I.ndim == 2 and isinstance(Q, VArr) and Q.ndim == 2 and isinstance(Zs, VSeq)):
            raise M.ContractMismatch('sample_square: I / Q are not matrices, or Z is not a TT list')
        return I, Q, Zs, Z(m1)

    def inv_outer(ex, s, j):
        I, Q, Zs, m1 = shapes(s)
        return [('index-matrix-keeps-shape-(m1,d)', z3.And(Z(I.shape[0]) == m1, Z(I.shape[1]) == Zs.n)),
                ('one-partial-product-row-per-sample-of-the-width-of-the-next-left-rank', z3.And(Z(Q.shape[0]) == m1, Z(Q.shape[1]) == T.d2(Zs.arr[j])))]

    def reset_log(ex, h, pre, j):
        h.ghost['ndraw'] = ex.fresh_int('ndraw')
        h.ghost['drawlog'] = []

    def inv_inner(ex, s, i):
        return [('still-inside-the-row-loop', z3.BoolVal(True))]

    def inner_end(ex, s, o, i):
        log = s.ghost.get('drawlog', [])
        g = s.vars.get('rand')
        ok = len(log) == 1 and log[0]['gen'] is g and log[0]['method'] == 'choice' and log[0]['shape'] == [] and log[0]['params'][1] is True
        ex.oblige(s, 'post', 'every-row-and-mode-takes-exactly-one-conditional-draw-choice(n, p=..)-from-the-seeded-generator', z3.BoolVal(ok), None,
                  assume=False)
        if ok:
            Zs = s.deref(s.vars['Z'])
            k = s.ghost['_j0'] + 1
            ex.oblige(s, 'post', 'the-draw-is-over-the-indices-of-the-current-mode', log[0]['params'][0] == T.d1(Zs.arr[k]), None, assume=False)
            ex.oblige(s, 'post', 'the-drawn-index-is-written-to-the-column-of-the-current-mode', Z(s.vars['di']) == k, None, assume=False)

    loops = {0: {'inv': inv_outer, 'havoc_hook': reset_log}, 1: {'inv': inv_inner, 'havoc_hook': reset_log, 'body_end': inner_end}}
    ex = U.executor(fn, loops=loops, axioms=AXQ, lenient=True,
                    callees={'utils._rand': logging_rand, 'utils._range': call_range, 'sample._sample_core_first': call_core_first,
                             'sample.sample_square': call_self})
    ex.misc_shapes = True
    ex.mode = 'ematch'
    st = U.state()
    Y, arr, d = S.tt_param(st, 'Y', z3.Int('d'))
    m, m_fact, max_rep = z3.Ints('m m_fact max_rep')
    seed = {'int': z3.Int('seed'), 'generator': R.VGen('caller')}[skind]
    st.ghost['d_'] = d
    st.vars.update(Y=Y, m=m, unique=unique, seed=seed, m_fact=m_fact, max_rep=max_rep, float_cf=NONE)
    res = U.run(ex, st, pre=[T.wf(arr, d), m >= 1, m_fact >= 1])
    U.assumed.extend(['utils._rand (unit utils._rand)', 'utils._range (unit utils._range)', 'sample._sample_core_first (unit sample._sample_core_first)',
                      'transformation.orthogonalize (units transformation.orthogonalize*)'])
    U.cover('precondition-satisfiable', U.pre, axioms=AXQ)
    nret = 0
    for p, o in res:
        rcalls, rec, cf, log = p.ghost.get('randcalls', []), p.ghost.get('recursion', []), p.ghost.get('corefirst', []), p.ghost.get('drawlog', [])
        U.post('seed-goes-through-_rand-exactly-once', p, z3.BoolVal(len(rcalls) == 1 and rcalls[0][0] is seed))
        if len(rcalls) != 1:
            continue
        g = rcalls[0][1]
        if skind == 'generator':
            U.post('a-generator-object-is-used-as-it-is', p, z3.BoolVal(g is seed))
        U.post('the-first-mode-is-drawn-by-_sample_core_first-from-that-generator', p,
               z3.And(z3.BoolVal(len(cf) == 1 and cf[0]['gen'] is g), (Z(cf[0]['m']) == (T.mul_canon(m_fact, m) if unique else m)) if len(cf) == 1 else False,
                      (cf[0]['rows'] == T.d1(p.deref(p.vars['Z']).arr[0])) if len(cf) == 1 else False), axioms=AXQ, mode='ematch')
        nu = p.ghost.get('nunique', [])
        U.post('distinct-rows-are-taken-once-iff-unique', p, z3.BoolVal(len(nu) == (1 if unique else 0)))
        if len(nu) != (1 if unique else 0):
            continue
        u = nu[0] if unique else None          # number of distinct rows among the m_fact * m samples
        few = z3.And(u < m, z3.Or(max_rep < 0, m_fact > 1000000)) if unique else z3.BoolVal(False)
        if o.kind == 'raise':
            U.raise_iff('raises-ValueError', p, o.exc == 'ValueError')
            U.raise_iff('raises-only-if-unique-with-fewer-than-m-distinct-rows-and-no-retry-left', p, few, axioms=AXQ, mode='ematch')
            continue
        out = p.deref(o.value)
        if getattr(out, 'from_retry', False):
            (a, kw), = rec if len(rec) == 1 else ((None, None),)
            okc = a is not None and len(a) == 6 and set(kw) == {'float_cf'}
            U.post('the-retry-is-one-recursive-call-with-six-positional-arguments-and-float_cf', p, z3.BoolVal(bool(okc and unique)))
            if okc:
                U.post('retry-with-the-same-tensor-the-same-m-and-the-same-seed-object', p,
                       z3.And(z3.BoolVal(a[0] is Y and a[3] is seed and a[2] is True and kw['float_cf'] is NONE), Z(a[1]) == m))
                U.post('retry-doubles-m_fact-and-counts-max_rep-down', p, z3.And(Z(a[4]) == 2 * m_fact, Z(a[5]) == max_rep - 1))
                U.post('retry-only-with-too-few-distinct-rows-and-while-max_rep >= 0 (termination)', p,
                       z3.And(u < m, max_rep >= 0, m_fact <= 1000000), axioms=AXQ, mode='ematch')
            continue
        nret += 1
        ok = isinstance(out, VArr) and out.ndim == 2
        U.post('returns-a-matrix', p, z3.BoolVal(ok))
        if not ok:
            continue
        U.post('integer-array-of-shape-(m,d)', p, z3.And(z3.BoolVal(out.dtype == 'i'), Z(out.shape[0]) == m, Z(out.shape[1]) == d), axioms=AXQ, mode='ematch')
        U.post('no-retry-on-this-path', p, z3.BoolVal(len(rec) == 0))
        if unique:
            U.raise_iff('returns-directly-only-with-at-least-m-distinct-rows', p, u >= m, axioms=AXQ, mode='ematch')
        if unique:
            U.post('the-rows-are-shuffled-by-the-seeded-generator (not by the global one)', p,
                   z3.BoolVal(len(log) >= 1 and log[-1]['method'] == 'shuffle' and log[-1]['gen'] is g))
        else:
            U.post('no-shuffle-without-unique', p, z3.BoolVal(all(e['method'] != 'shuffle' for e in log)))
        U.canary('canary-no-samples', p, Z(out.shape[0]) == 0, axioms=AXQ)
    U.post('a-direct-return-path-exists', U.pre, z3.BoolVal(nret >= 1))


for _un in (False, True):
    for _sk in ('int', 'generator'):
        def _mk(un=_un, sk=_sk):
            @unit(f'sample.sample_square.{"unique" if un else "plain"}.seed_{sk}', props=('C14', 'C10'))
            def u(U):
                _sample_square_unit(U, un, sk)
        _mk()


# ----------------------------------------------------------------------------------------------
# stat.cdf_getter  (C18: "the empirical-CDF helper is the right-continuous step function of its sample")
#
# For every sample x of length N >= 1 and every real z the returned function gives  F(z) = #{k < N : x_k <= z} / N
# (cntle: spec function "number of elements <= z"; "<=" makes the step function right-continuous), hence 0 below the smallest and 1
# from the largest sample point on.  NumPy facts used (mx_misc): sort = ascending rearrangement of the same multiset, linspace,
# np.r_, searchsorted(side='right') on an ascending vector; theory group 'cntle' links the insertion point to the count.
# The argument list is not modified (the sort works on a copy).  Not covered: array-valued z, NaN / infinite samples, rounding of k/N.

AXC = T.axioms('cntle')


@unit('stat.cdf_getter', props=('C18',))
def u_cdf_getter(U):
    fn = U.func('stat', 'cdf_getter')
    ex = U.executor(fn, axioms=AXC)
    st = U.state()
    N = z3.Int('N')
    xarr = z3.Const('x', RA)
    xref = st.alloc(VSeq(xarr, N, lambda t: t, tag='real'))
    st.vars.update(x=xref)
    res = U.run(ex, st, pre=[N >= 1])
    U.cover('precondition-satisfiable', U.pre, axioms=AXC)
    z = z3.Real('z')
    for p, o in res:
        if o.kind != 'return' or not isinstance(o.value, VFunc):
            U.post('returns-a-function', p, False)
            continue
        U.post('argument-list-is-not-modified (sorted copy)', p, z3.BoolVal(p.heap[xref.oid].arr is xarr and p.heap[xref.oid].n is N))
        q = p.copy()
        val = o.value.handler(ex, q, [z], {}, fn.node)               # F(z) for an arbitrary real z
        for kind, label, hyps, goal, lineno, trace in q.obl:
            U.add(kind, 'cdf(z): ' + label, hyps, goal, axioms=AXC, where=f'stat.py:{lineno}', trace=trace)
        del q.obl[:]
        ss = q.ghost.get('searchsorted', [])
        yv = q.vars.get('y')
        ok = len(ss) == 1 and M.is_num(val) and X.is_vec1(yv) and getattr(yv, 'tail_linspace', None) is not None
        U.post('one-search-in-the-sorted-sample-and-a-lookup-in-the-level-vector', q, z3.BoolVal(bool(ok)))
        if not ok:
            continue
        i, ys = ss[0]['i'], yv.tail_linspace
        cnt = X.cntle(xarr, N, z)
        U.post('the-search-runs-over-the-sorted-copy-of-the-sample-for-the-argument-z', q,
               z3.And(z3.BoolVal(getattr(q.vars.get('x'), 'tail', None) is not None and q.vars['x'].tail.sorted_from is xarr), ss[0]['z'] == z, ss[0]['n'] == N))
        U.post('insertion-point-is-the-number-of-sample-points <= z', q, i == cnt, axioms=AXC)
        U.post('value-is-level[count]: 0 for count 0, else the (count-1)-th of the N levels', q,
               M.to_real(val) == z3.If(cnt == 0, 0, ys.t[cnt - 1]), axioms=AXC)
        U.post('levels-run-from-1/N-to-1', q, z3.And(z3.BoolVal(z3.eq(ys.linspace[2], N)), ys.linspace[0] == 1 / z3.ToReal(N), ys.linspace[1] == 1))
        # arithmetic: the k-th of the N equidistant levels 1/N .. 1 is (k+1)/N   (instance of the linspace relation, exact end points)
        k = z3.Int('k')
        U.post('level-k-is-(k+1)/N', [N >= 1, 0 <= k, k < N, X.linspace_fact(ys, k), ys.t[0] == 1 / z3.ToReal(N), z3.Implies(N >= 2, ys.t[N - 1] == 1)],
               ys.t[k] * z3.ToReal(N) == z3.ToReal(k) + 1, qf=True)
        lev = z3.ForAll([k], z3.Implies(z3.And(0 <= k, k < N), ys.t[k] * z3.ToReal(N) == z3.ToReal(k) + 1), patterns=[ys.t[k]])
        U.post('F(z)-is-the-fraction-of-sample-points <= z', list(q.pc) + [lev], M.to_real(val) * z3.ToReal(N) == z3.ToReal(cnt), axioms=AXC)
        srt = q.vars['x'].tail.t
        U.post('0-below-the-smallest-sample-point', list(q.pc) + [lev], z3.Implies(z < srt[0], M.to_real(val) == 0), axioms=AXC)
        U.post('1-from-the-largest-sample-point-on', list(q.pc) + [lev], z3.Implies(z >= srt[N - 1], M.to_real(val) == 1), axioms=AXC)
        U.canary('canary-constant-zero', list(q.pc) + [lev], M.to_real(val) == 0, axioms=AXC)


# ==============================================================================================
# Hand-made mutants (MUT_BASE=/tmp/base tools/mut.sh <file> '<sed>' <unit>) and the NAMED obligation that reports each.
# "undecided" = Unsupported / ContractMismatch (exit 2), listed where a natural mutant leaves the modelled subset.
#
# grid.grid_prep_opt.*  (grid.py)
#   s/d is None or d <= 0/d is None or d < 0/                                   raise-iff.returns-only-if-the-dimension-is-known-for-a-number (refuted, d = 0)
#   s/np.ones(d, dtype=kind) \* kind(opt)/np.ones(d, dtype=kind)/               post.every-element-is-the-option-value-of-its-dimension (refuted)
#   s/opt.reshape((1, -1)), reps, axis=0/opt.reshape((1, -1)), d, axis=0/       post.shape-is-(reps,d) (refuted)
#   s/d is None or d <= 0/d is None and d <= 0/                                 safety.comparison-not-None, call-pre.non-negative-dimension, raise-iff.returns-only-if-..
#   s/opt = np.asanyarray(opt, dtype=kind)/opt = np.asanyarray(opt, dtype=float)/   post.dtype-is-the-requested-kind (+ element post for int lists)
#   quiet (equivalent): `* kind(opt)` -> `* opt`;   undecided: np.full(d, kind(opt))
# grid.grid_flat.*  (grid.py)
#   s/order='F').T/order='C').T/                                                post.row-t-holds-the-mixed-radix-digits-of-t-first-index-fastest, row-0.., first-index-runs-fastest
#   s/order='F').T/order='F')/                                                  post.one-row-per-multi-index-one-column-per-mode: shape (prod n, d)
#   s/np.arange(k).reshape/np.arange(k+1).reshape/                              post.shape.., row-t.., every-index-lies-inside-its-mode
#   s/indexing='ij'/indexing='xy'/  and  indexing dropped                       post.row-t-holds-the-mixed-radix-digits.., first-index-runs-fastest
#   s/return np.arange(int(n))/return np.arange(int(n) + 1)/                    grid.grid_flat.number post.length-is-int(n)
#   undecided: reshape((-1, d), order='F') without .T;  for k in n[::-1]
# matrices.matrix_delta  (matrices.py)
#   swap ind_col / ind_row in `G[0, ind_col[k], ind_row[k], 0] = 1.`            inv-keep.loop0.unit-cores-at-the-bit-pairs
#   delete `Y[-1][0, ind_col[-1], ind_row[-1], 0] = v`                          lemma.slices-are-1x1-with-the-expected-entry(mdelta)
#   s/    j = teneva._vector_index_prepare(q, j)/    pass/                      call-pre._vector_index_expand.., post.first-mode-index-carries-the-bits-of-i-second-those-of-j
#   `= 1.` -> `= 2.`                                                            inv-keep.loop0.unit-cores-at-the-bit-pairs
#   ind_row = _vector_index_expand(q, i)                                        post.first-mode-index-carries-the-bits-of-i-second-those-of-j
#   Y[-1][0, ind_col[-1], ind_col[-1], 0] = v   /   Y[0][0, ind_col[0], ind_row[0], 0] = v     lemma.slices-are-1x1-with-the-expected-entry(mdelta)
#   quiet (equivalent): G = np.zeros(..); G = G.copy()
# tensors.poly.*  (tensors.py)
#   last core [scale, _get*scale] swapped / `* scale` dropped                   inv-keep.loop3.filled-slices-have-the-pattern
#   [0., 1.] -> [1., 1.] in the middle core                                     inv-keep.loop2.filled-slices-have-the-pattern
#   (m + shift[j]) -> (m - shift[j])                                            inv-keep.loop1/2/3.filled-slices-have-the-pattern
#   np.zeros((2, k, 1)) -> np.zeros((2, k, 2))                                  inv-init.loop3.core-keeps-its-pattern-shape
#   first core [1., g] -> [g, 1.];  G[0, m, :] -> G[0, 0, :]                    inv-keep.loop1.filled-slices-have-the-pattern
#   grid_prep_opt(shift, d) -> grid_prep_opt(shift, d-1)                        safety.array-index-in-range, post.shift-option-is-the-scalar-resp-the-list-element
#   undecided: element-wise stores G[0, m, 0] = 1.; G[0, m, 1] = ..  (ContractMismatch);  `if j == d:` (G unbound)
# tensors.rand_custom.*  (tensors.py)
#   cores[ps[i]-1:ps[i+1]-1] -> cores[ps[i]:ps[i+1]]                            safety.slice-in-range, inv-keep.loop0.finished-cores-are-the-F-ordered-blocks-of-the-sample
#   order='F' -> order='C';  (r[i], n[i], r[i+1]) -> (r[i+1], n[i], r[i])        inv-keep.loop0.finished-cores-are-the-F-ordered-blocks-of-the-sample
#   [int(r)] * (d - 1) -> [int(r)] * d                                          post.rank-profile-is-the-requested-one, post.core-k-has-shape-(r_k, n_k, r_k+1)
#   n * r[0:d] * r[1:d+1] -> n * r[0:d] * r[0:d]                                call-pre.reshape-preserves-size, lemma-step.offsets-are-1+partial-sums-of-the-core-sizes.step
#   f(ps[d] - 1) -> f(ps[d])                                                    post.sampler-is-asked-for-the-total-number-of-entries
#   ([1], n * ..) -> ([0], n * ..)                                              safety.slice-in-range, lemma-base.offsets-are-1+partial-sums-of-the-core-sizes.base
# tensors.rand.* / tensors.rand_norm.*  (tensors.py)
#   uniform(a, b, ..) -> uniform(b, a, ..);  normal(m, s, ..) -> normal(s, m, ..) / -> uniform(m, s, ..)    post.the-draw-is-<method>-with-the-parameters-in-the-documented-order
#   _rand(seed) -> _rand()  /  _rand(_rand(seed))                               post.seed-goes-through-_rand-exactly-once (+ a-generator-object-is-used-as-it-is)
#   rand_custom(n, r, f) -> rand_custom(n, n, f)                                call-pre.rand_custom: rank list of length d + 1 with entries >= 1
#   size=size -> size=size+1                                                    call-pre.rand_custom: the sampler returns as many values as it was asked for
#   undecided: np.random.uniform(..) (not in the model table; frames / C10 reports it);  rand = np.random.default_rng(seed)
# tensors.rand_stab.*  (tensors.py)
#   np.eye(r[k], r[k+1]) -> np.eye(r[k+1], r[k])                                call-pre.elementwise-shapes-agree
#   normal(0., noise, ..) -> normal(noise, 0., ..)                              post.the-draw-is-normal(0, noise)-of-the-shape-of-the-core
#   size=(r[k], n[k], r[k+1]) -> (r[k+1], n[k], r[k])                           inv-init.loop1.core-keeps-its-shape, post.the-draw-is-normal(0, noise)-of-the-shape-of-the-core
#   range(n[k]) -> range(n[k]-1)                                                inv-keep.loop0.finished-cores-are-their-draw-plus-identity-slices
#   += -> -= ;  G[:, p, :] -> G[:, 0, :]                                        inv-keep.loop1.slices-before-p-are-draw-plus-identity-the-others-still-the-draw
#   _rand(seed) -> _rand()                                                      post.seed-goes-through-_rand-exactly-once
# sample.sample_rand.*  (sample.py)
#   .T dropped;  m -> m+1 in choice;  m = int(m) + 1                            post.integer-array-of-shape-(m,d), one row per sample (+ column-k-is-draw-number-k)
#   np.arange(k) -> np.arange(k+1) / np.arange(d)                               post.every-index-lies-inside-its-mode, post.column-k-is-draw-number-k
#   _rand(seed) -> _rand()                                                      post.seed-goes-through-_rand-exactly-once
#   undecided: np.array([...]).T instead of np.vstack
# sample.sample_square.*  (sample.py)
#   rand.shuffle(I) -> np.random.shuffle(I)   (the pinned C10 defect)           post.the-rows-are-shuffled-by-the-seeded-generator (not by the global one)
#   retry with seed -> None                                                     post.retry-with-the-same-tensor-the-same-m-and-the-same-seed-object
#   retry with max_rep-1 -> max_rep                                             post.retry-doubles-m_fact-and-counts-max_rep-down
#   rand.choice(n, p=norms) -> rand.choice(r2, p=norms)                         safety.row-index-in-range, post.the-draw-is-over-the-indices-of-the-current-mode
#   max_rep < 0 -> max_rep < -1                                                 post.retry-only-with-too-few-distinct-rows-and-while-max_rep >= 0 (termination)
#   _rand(seed) -> _rand()                                                      post.seed-goes-through-_rand-exactly-once
#   _sample_core_first(.., m1, rand) -> (.., m, rand)                           inv-init.loop0.index-matrix-keeps-shape-(m1,d)
#   I = I[:m] -> I[:m+1];  I.shape[0] < m -> <= m                               raise-iff.raises-only-if-unique-with-fewer-than-m-distinct-rows-and-no-retry-left
#   enumerate(Z[1:], start=1) -> start=0                                        post.the-drawn-index-is-written-to-the-column-of-the-current-mode
# stat.cdf_getter  (stat.py)
#   'right' -> 'left'                                                           post.insertion-point-is-the-number-of-sample-points <= z, post.F(z)-is-the-fraction-..
#   `- 1` dropped                                                               safety.cdf(z): array-index-in-range, post.value-is-level[count]..
#   linspace(1./len(x), ..) -> linspace(0, ..);  len(x) -> len(x) + 1            post.levels-run-from-1/N-to-1, post.level-k-is-(k+1)/N
#   np.r_[0, y] -> np.r_[1, y]                                                  post.value-is-level[count].., post.0-below-the-smallest-sample-point
#   undecided: x.sort() dropped (searchsorted on a vector that is not known to be ascending)
