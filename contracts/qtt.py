"""Sidecar contracts for the TT <-> QTT conversions (C17): grid.ind_tt_to_qtt, grid.ind_qtt_to_tt (element level, with the
round-trip lemmas), core.core_qtt_to_tt / act_one.qtt_to_tt and core.core_tt_to_qtt / act_one.tt_to_qtt (shape level).

Conventions (model module ttvc/mx_qtt.py):
  * a QTT multi-index array of shape (m, d*q) is held in BLOCK VIEW: blk[s][k][b] denotes the entry [s, q*k + b]
    (0 <= k < d, 0 <= b < q); likewise a QTT-tensor (list of d*q cores) is held as blocks blk[k][b] = element [q*k + b].
    The code only ever touches whole blocks (`[:, q*i:q*(i+1)]`, `Y[k*q:(k+1)*q]`), which the model recognises
    syntactically, so the statement "entry [.., q*k + j] is bit j of component k" is literally the statement about
    blk[..][k][j] and all integer reasoning is linear.
  * bit(x, j) = shr(x, j) mod 2 with shr from contracts/utils.py (x div 2^j by recursion);
    hval(a, 0, q) = sum_j a[j] 2^j in Horner form (hval(a,q,q) = 0, hval(a,k,q) = a[k] + 2 hval(a,k+1,q)).
  * products of symbolic dimensions are canonical mulI terms (theory.mul_canon), as everywhere in ttvc.
"""
import z3
from ttvc.units import unit
from ttvc.symex import VOpt, VStr, VRec, VSeq, VArr, VFunc, VTuple, VRef, VList, NONE, Z
from ttvc import models as M, theory as T
from ttvc import mx_qtt as X
from contracts import spec as S
from contracts.utils import shr, bit, SHR_DEF

IA, IM, IB = X.IA, X.IM, X.IB
hval = X.hval
AXP = T.axioms('pow2', 'pow2r', 'pow2link')


# ----------------------------------------------------------------------------------------------
# grid_prep_opt(I, kind=int) on an integer array: the array itself (shape, values), integer dtype

@unit('grid.grid_prep_opt.int_array', props=('C17',))
def u_prep_opt(U):
    fn = U.func('grid', 'grid_prep_opt')
    n0, m, d = z3.Ints('n0 m d')
    cases = {'1d': VArr((n0,), z3.Const('v', IA), 'ivec', 'i'), '2d': VArr((m, d), z3.Const('A', IM), 'imat', 'i')}
    for nm, A in cases.items():
        ex = U.executor(fn)
        st = U.state()
        st.vars.update(opt=A, d=NONE, kind=M.TypeVal('int'), reps=NONE)
        res = U.run(ex, st, pre=[n0 >= 0, m >= 0, d >= 0])
        U.cover(f'{nm}-reachable', U.pre)
        for p, o in res:
            R = p.deref(o.value) if o.kind == 'return' else None
            ok = isinstance(R, VArr) and R.ndim == A.ndim and all(a is b for a, b in zip(R.shape, A.shape)) and R.t is A.t \
                and R.tag == A.tag
            U.post(f'{nm}-same-shape-and-values', p, z3.BoolVal(ok))
            U.post(f'{nm}-integer-dtype', p, z3.BoolVal(ok and R.dtype == 'i'))


def call_prep_opt_int(ex, st, args, kwargs, node):
    """grid_prep_opt(I, kind=int) for an integer ndarray: proved by unit grid.grid_prep_opt.int_array."""
    v = st.deref(args[0])
    kind = kwargs.get('kind')
    if len(args) != 1 or set(kwargs) != {'kind'} or not (isinstance(kind, M.TypeVal) and kind.name == 'int'):
        raise M.Unsupported('grid_prep_opt: only the call (I, kind=int) is under this contract')
    if not (isinstance(v, VArr) and v.dtype == 'i'):
        raise M.Unsupported('grid_prep_opt(I, kind=int): I must be an integer ndarray in this contract case')
    return v


def log2_int(n):
    """The term that `int(np.log2(n))` evaluates to in the engine (np.log2 -> log2, int() -> truncation)."""
    v = T.log2(z3.ToReal(n))
    return z3.If(v >= 0, z3.ToInt(v), -z3.ToInt(-v))


def lemma_log2_of_pow2(U, n, q0):
    """int(log2(2^q0)) = q0, from the characterisation of log2 against powers of two (instances at q0 and q0+1)."""
    qc = log2_int(n)
    hints = []
    for j in (q0, q0 + 1):
        rj = z3.ToReal(j)
        hints += [z3.Implies(j >= 0, T.pow2r(rj) == z3.ToReal(T.pow2(j))),
                  (rj <= T.log2(z3.ToReal(n))) == (T.pow2r(rj) <= z3.ToReal(n)), T.pow2r(rj) > 0]
    hints += [T.pow2(q0 + 1) == 2 * T.pow2(q0), T.pow2(q0) >= 1]
    U.lemma('int(log2(2^q))-is-q', [q0 >= 0, n == T.pow2(q0)] + hints, qc == q0, qf=True)
    return qc == q0


# ----------------------------------------------------------------------------------------------
# 1. grid.ind_tt_to_qtt, element level

def _ind_tt_to_qtt(U, many):
    """out[.., q*k + j] = bit j (little endian) of I[.., k]; shape (m, d*q) / (d*q,); integer dtype; entries are 0 / 1.
    Precondition (from the statement: multi-indices of a tensor with mode size n = 2^q): 0 <= I < n, q >= 0, d >= 0, m >= 1.
    NOT covered here: list arguments (ndarray only), negative indices."""
    fn = U.func('grid', 'ind_tt_to_qtt')
    m, d, q0, n = z3.Ints('m d q n')
    s_, k_, b_ = z3.Ints('s!c k!c b!c')
    if many:
        Iarr = z3.Const('I', IM)
        Iv = X.imat_of(Iarr, m, d)
        src = lambda s, k: Iarr[s][k]
        mm = m
    else:
        Irow = z3.Const('I', IA)
        Iv = VArr((d,), Irow, 'ivec', 'i')
        src = lambda s, k: Irow[k]
        mm = z3.IntVal(1)

    def inv(ex, s, j):
        B, Ic = s.vars.get('I_qtt'), s.vars.get('I')
        if not (isinstance(B, X.IBlk) and isinstance(Ic, X.IMat)):
            raise M.ContractMismatch('ind_tt_to_qtt: I / I_qtt are no longer the integer matrices of the contract')
        body = z3.Implies(z3.And(0 <= s_, s_ < mm, 0 <= k_, k_ < j, 0 <= b_, b_ < q0), B.ent(s_, k_, b_) == bit(src(s_, k_), b_))
        return [('array-shape-kept', z3.And(Z(B.shape[0]) == mm, Z(B.shape[1]) == T.mul_canon(d, q0))),
                ('blocks-filled-so-far-hold-the-bits', z3.ForAll([s_, k_, b_], body, patterns=[B.arr[s_][k_][b_]] if B.arr is not None else []))]

    def hook(ex, h, pre, j):
        old = pre.vars['I_qtt']
        h.vars['I_qtt'] = X.iblk_of(ex.fresh('Iqtt', IB), old.shape[0], d, q0, old.shape[1])
        h.vars['I'] = pre.vars['I']

    ex = U.executor(fn, loops={0: {'inv': inv, 'havoc_hook': hook}}, axioms=T.axioms('pow2', 'mulI'),
                    callees={'grid.grid_prep_opt': call_prep_opt_int})
    ex.qtt = True
    ex.mode = 'ematch'
    AX = ex.axioms
    st = U.state()
    st.vars.update(I=Iv, n=n)
    inrange = z3.ForAll([s_, k_], z3.And(src(s_, k_) >= 0, src(s_, k_) < n), patterns=[src(s_, k_)]) if many else \
        z3.ForAll([k_], z3.And(Irow[k_] >= 0, Irow[k_] < n), patterns=[Irow[k_]])
    lem = lemma_log2_of_pow2(U, n, q0)
    res = U.run(ex, st, pre=[m >= 1, d >= 0, q0 >= 0, n == T.pow2(q0), inrange, lem])
    U.cover('precondition-satisfiable', U.pre, axioms=AX)
    for p, o in res:
        if o.kind != 'return':
            U.post('no-exception', p, False, axioms=AX, mode='ematch')
            continue
        if not z3.eq(Z(p.vars['q']), log2_int(n)):
            raise M.ContractMismatch('ind_tt_to_qtt: q is no longer int(np.log2(n))')
        R = p.deref(o.value)
        if many:
            ok = isinstance(R, X.IBlk) and R.bw is not None
            ent = (lambda s, k, b: R.ent(s, k, b)) if ok else None
        else:
            ok = isinstance(R, X.IBVec)
            ent = (lambda s, k, b: R.ent(k, b)) if ok else None
        U.post('result-is-an-integer-array-in-block-view', p, z3.BoolVal(ok and R.dtype == 'i'))
        if not ok:
            continue
        if many:
            U.post('shape-(m, d*q)', p, z3.And(Z(R.shape[0]) == m, Z(R.shape[1]) == T.mul_canon(d, q0)), axioms=AX, mode='ematch')
        else:
            U.post('shape-(d*q,)', p, Z(R.shape[0]) == T.mul_canon(d, q0), axioms=AX, mode='ematch')
        U.post('d-blocks-of-q-digits', p, z3.And(Z(R.nblk) == d, Z(R.bw) == q0), axioms=AX, mode='ematch')
        rng = z3.And(0 <= s_, s_ < mm, 0 <= k_, k_ < d, 0 <= b_, b_ < q0)
        U.post('entry-[q*k+j]-is-bit-j-of-component-k (little endian)', p, z3.Implies(rng, ent(s_, k_, b_) == bit(src(s_, k_), b_)),
               axioms=AX, mode='ematch')
        U.post('entries-are-binary-digits', p, z3.Implies(rng, z3.And(ent(s_, k_, b_) >= 0, ent(s_, k_, b_) <= 1)), axioms=AX, mode='ematch')
        U.canary('canary-all-digits-zero', p, z3.Implies(rng, ent(s_, k_, b_) == 0), axioms=AX)


@unit('grid.ind_tt_to_qtt.batch', props=('C17',))
def u_i2q_batch(U):
    _ind_tt_to_qtt(U, True)


@unit('grid.ind_tt_to_qtt.single', props=('C17',))
def u_i2q_single(U):
    _ind_tt_to_qtt(U, False)
