"""Sidecar contracts for the TT <-> QTT conversions (C17): grid.ind_tt_to_qtt, grid.ind_qtt_to_tt (element level, with the
round-trip lemmas), core.core_qtt_to_tt / act_one.qtt_to_tt and core.core_tt_to_qtt / act_one.tt_to_qtt (shape level).

Conventions (model module ttvc/mx_qtt.py):
  * a QTT multi-index array of shape (m, d*q) is held in BLOCK VIEW: blk[s][k][b] denotes the entry [s, q*k + b]
    (0 <= k < d, 0 <= b < q); likewise a QTT-tensor (list of d*q cores) is held as blocks blk[k][b] = element [q*k + b].
    The code only ever touches whole blocks (`[:, q*i:q*(i+1)]`, `Y[k*q:(k+1)*q]`), which the model recognises
    syntactically, so the statement "entry [.., q*k + j] is bit j of component k" is literally the statement about
    blk[..][k][j] and all integer reasoning is linear.
  * bit(x, j) = shr(x, j) mod 2 with shr from contracts/utils.py (x div 2^j by recursion);
    hval(a, 0, q) = sum_j a[j] 2^j in Horner form (hval(a,q,q) = 0, hval(a,k,q) = a[k] + 2 hval(a,k+1,q)).
  * products of symbolic dimensions are canonical mulI terms (theory.mul_canon), as everywhere in ttvc.
"""
import z3
from ttvc.units import unit
from ttvc.symex import VOpt, VStr, VRec, VSeq, VArr, VFunc, VTuple, VRef, VList, NONE, Z
from ttvc import models as M, theory as T
from ttvc import mx_qtt as X
from contracts import spec as S
from contracts.utils import shr, bit, SHR_DEF

IA, IM, IB = X.IA, X.IM, X.IB
hval = X.hval
AXP = T.axioms('pow2', 'pow2r', 'pow2link')


# ----------------------------------------------------------------------------------------------
# grid_prep_opt(I, kind=int) on an integer array: the array itself (shape, values), integer dtype

@unit('grid.grid_prep_opt.int_array', props=('C17',))
def u_prep_opt(U):
    fn = U.func('grid', 'grid_prep_opt')
    n0, m, d = z3.Ints('n0 m d')
    cases = {'1d': VArr((n0,), z3.Const('v', IA), 'ivec', 'i'), '2d': VArr((m, d), z3.Const('A', IM), 'imat', 'i')}
    for nm, A in cases.items():
        ex = U.executor(fn)
        st = U.state()
        st.vars.update(opt=A, d=NONE, kind=M.TypeVal('int'), reps=NONE)
        res = U.run(ex, st, pre=[n0 >= 0, m >= 0, d >= 0])
        U.cover(f'{nm}-reachable', U.pre)
        for p, o in res:
            R = p.deref(o.value) if o.kind == 'return' else None
            ok = isinstance(R, VArr) and R.ndim == A.ndim and all(a is b for a, b in zip(R.shape, A.shape)) and R.t is A.t \
                and R.tag == A.tag
            U.post(f'{nm}-same-shape-and-values', p, z3.BoolVal(ok))
            U.post(f'{nm}-integer-dtype', p, z3.BoolVal(ok and R.dtype == 'i'))


def post_digit(out, x, b):
    """Contract clause of ind_tt_to_qtt per element: the digit at [.., q*k + b] is bit b of the index component x."""
    return out == bit(x, b)


def post_value(out, blk, q):
    """Contract clause of ind_qtt_to_tt per element: component k is the little-endian binary value of block k."""
    return out == hval(blk, 0, q)


def call_prep_opt_int(ex, st, args, kwargs, node):
    """grid_prep_opt(I, kind=int) for an integer ndarray: proved by unit grid.grid_prep_opt.int_array."""
    v = st.deref(args[0])
    kind = kwargs.get('kind')
    if len(args) != 1 or set(kwargs) != {'kind'} or not (isinstance(kind, M.TypeVal) and kind.name == 'int'):
        raise M.Unsupported('grid_prep_opt: only the call (I, kind=int) is under this contract')
    if not (isinstance(v, VArr) and v.dtype == 'i'):
        raise M.Unsupported('grid_prep_opt(I, kind=int): I must be an integer ndarray in this contract case')
    return v


def log2_int(n):
    """The term that `int(np.log2(n))` evaluates to in the engine (np.log2 -> log2, int() -> truncation)."""
    v = T.log2(z3.ToReal(n))
    return z3.If(v >= 0, z3.ToInt(v), -z3.ToInt(-v))


def lemma_log2_of_pow2(U, n, q0):
    """int(log2(2^q0)) = q0, from the characterisation of log2 against powers of two (instances at q0 and q0+1)."""
    qc = log2_int(n)
    hints = []
    for j in (q0, q0 + 1):
        rj = z3.ToReal(j)
        hints += [z3.Implies(j >= 0, T.pow2r(rj) == z3.ToReal(T.pow2(j))),
                  (rj <= T.log2(z3.ToReal(n))) == (T.pow2r(rj) <= z3.ToReal(n)), T.pow2r(rj) > 0]
    hints += [T.pow2(q0 + 1) == 2 * T.pow2(q0), T.pow2(q0) >= 1]
    U.lemma('int(log2(2^q))-is-q', [q0 >= 0, n == T.pow2(q0)] + hints, qc == q0, qf=True)
    return qc == q0


# ----------------------------------------------------------------------------------------------
# 1. grid.ind_tt_to_qtt, element level

def _ind_tt_to_qtt(U, many):
    """out[.., q*k + j] = bit j (little endian) of I[.., k]; shape (m, d*q) / (d*q,); integer dtype; entries are 0 / 1.
    Precondition (from the statement: multi-indices of a tensor with mode size n = 2^q): 0 <= I < n, q >= 0, d >= 0, m >= 1.
    NOT covered here: list arguments (ndarray only), negative indices."""
    fn = U.func('grid', 'ind_tt_to_qtt')
    m, d, q0, n = z3.Ints('m d q n')
    s_, k_, b_ = z3.Ints('s!c k!c b!c')
    if many:
        Irows = X.rows_fn('I')
        Iv = X.imat_of(Irows, m, d)
        src = lambda s, k: Irows(s)[k]
        mm = m
    else:
        Irow = z3.Const('I', IA)
        Iv = VArr((d,), Irow, 'ivec', 'i')
        src = lambda s, k: Irow[k]
        mm = z3.IntVal(1)

    def inv(ex, s, j):
        B, Ic = s.vars.get('I_qtt'), s.vars.get('I')
        if not (isinstance(B, X.IBlk) and isinstance(Ic, X.IMat)):
            raise M.ContractMismatch('ind_tt_to_qtt: I / I_qtt are no longer the integer matrices of the contract')
        body = z3.Implies(z3.And(0 <= s_, s_ < mm, 0 <= k_, k_ < j, 0 <= b_, b_ < q0), B.ent(s_, k_, b_) == bit(src(s_, k_), b_))
        return [('array-shape-kept', z3.And(Z(B.shape[0]) == mm, Z(B.shape[1]) == T.mul_canon(d, q0))),
                ('blocks-filled-so-far-hold-the-bits', z3.ForAll([s_, k_, b_], body, patterns=[B.blkarr(s_, k_)[b_]] if B.blkarr is not None else []))]

    def hook(ex, h, pre, j):
        old = pre.vars['I_qtt']
        ex.cnt += 1
        h.vars['I_qtt'] = X.iblk_of(X.blocks_fn(f'Iqtt!{ex.cnt}'), old.shape[0], d, q0, old.shape[1])
        h.vars['I'] = pre.vars['I']

    ex = U.executor(fn, loops={0: {'inv': inv, 'havoc_hook': hook}}, axioms=T.axioms('pow2', 'mulI'),
                    callees={'grid.grid_prep_opt': call_prep_opt_int})
    ex.qtt = True
    ex.mode = 'ematch'
    AX = ex.axioms
    st = U.state()
    st.vars.update(I=Iv, n=n)
    inrange = z3.ForAll([s_, k_], z3.And(src(s_, k_) >= 0, src(s_, k_) < n), patterns=[src(s_, k_)]) if many else \
        z3.ForAll([k_], z3.And(Irow[k_] >= 0, Irow[k_] < n), patterns=[Irow[k_]])
    lem = lemma_log2_of_pow2(U, n, q0)
    res = U.run(ex, st, pre=[m >= 1, d >= 0, q0 >= 0, n == T.pow2(q0), inrange, lem])
    U.cover('precondition-satisfiable', U.pre, axioms=AX)
    for p, o in res:
        if o.kind != 'return':
            U.post('no-exception', p, False, axioms=AX, mode='ematch')
            continue
        if not z3.eq(Z(p.vars['q']), log2_int(n)):
            raise M.ContractMismatch('ind_tt_to_qtt: q is no longer int(np.log2(n))')
        R = p.deref(o.value)
        if many:
            ok = isinstance(R, X.IBlk) and R.bw is not None
            ent = (lambda s, k, b: R.ent(s, k, b)) if ok else None
        else:
            ok = isinstance(R, X.IBVec)
            ent = (lambda s, k, b: R.ent(k, b)) if ok else None
        U.post('result-is-an-integer-array-in-block-view', p, z3.BoolVal(ok and R.dtype == 'i'))
        if not ok:
            continue
        if many:
            U.post('shape-(m, d*q)', p, z3.And(Z(R.shape[0]) == m, Z(R.shape[1]) == T.mul_canon(d, q0)), axioms=AX, mode='ematch')
        else:
            U.post('shape-(d*q,)', p, Z(R.shape[0]) == T.mul_canon(d, q0), axioms=AX, mode='ematch')
        U.post('d-blocks-of-q-digits', p, z3.And(Z(R.nblk) == d, Z(R.bw) == q0), axioms=AX, mode='ematch')
        rng = z3.And(0 <= s_, s_ < mm, 0 <= k_, k_ < d, 0 <= b_, b_ < q0)
        U.post('entry-[q*k+j]-is-bit-j-of-component-k (little endian)', p, z3.Implies(rng, post_digit(ent(s_, k_, b_), src(s_, k_), b_)),
               axioms=AX, mode='ematch')
        U.post('entries-are-binary-digits', p, z3.Implies(rng, z3.And(ent(s_, k_, b_) >= 0, ent(s_, k_, b_) <= 1)), axioms=AX, mode='ematch')
        U.canary('canary-all-digits-zero', p, z3.Implies(rng, ent(s_, k_, b_) == 0), axioms=AX)


@unit('grid.ind_tt_to_qtt.batch', props=('C17',))
def u_i2q_batch(U):
    _ind_tt_to_qtt(U, True)


@unit('grid.ind_tt_to_qtt.single', props=('C17',))
def u_i2q_single(U):
    _ind_tt_to_qtt(U, False)


# ----------------------------------------------------------------------------------------------
# 2. grid.ind_qtt_to_tt, element level

def lemma_len_div_q(U, total, d0, q):
    """int(total / q) = d0 for total = mulI(d0, q) = d0*q, q >= 1 (one instance of the definition of mulI as a hint)."""
    v = z3.ToReal(total) / z3.ToReal(q)
    dc = z3.If(v >= 0, z3.ToInt(v), -z3.ToInt(-v))
    U.lemma('int((d*q)/q)-is-d', [q >= 1, d0 >= 0, X.mulI_instance(total)], dc == d0, qf=True)
    return dc, dc == d0


def _ind_qtt_to_tt(U, many):
    """out[.., k] = sum_j I_qtt[.., q*k + j] * 2^j (= hval(block k, 0, q)); shape (m, d) / (d,); integer dtype.
    Precondition: q >= 1, the array has d*q columns, every entry is a binary digit, m >= 1.
    NOT covered here: list arguments (ndarray only); a column count that is not a multiple of q."""
    fn = U.func('grid', 'ind_qtt_to_tt')
    m, d, q = z3.Ints('m d q')
    s_, k_, b_ = z3.Ints('s!c k!c b!c')
    total = T.mul_canon(d, q)
    if many:
        Bf = X.blocks_fn('I_qtt')
        Bv = X.iblk_of(Bf, m, d, q, total)
        blk = lambda s, k: Bf(s, k)
        mm = m
    else:
        Bf = X.rows_fn('I_qtt')
        Bv = X.ibvec_of(Bf, d, q, total)
        blk = lambda s, k: Bf(k)
        mm = z3.IntVal(1)

    def inv(ex, s, j):
        Ic, Bc = s.vars.get('I'), s.vars.get('I_qtt')
        if not (isinstance(Ic, X.IMat) and isinstance(Bc, X.IBlk)):
            raise M.ContractMismatch('ind_qtt_to_tt: I / I_qtt are no longer the integer matrices of the contract')
        body = z3.Implies(z3.And(0 <= s_, s_ < mm, 0 <= k_, k_ < j), Ic.ent(s_, k_) == hval(blk(s_, k_), 0, q))
        pats = [Ic.rowarr(s_)[k_]] if Ic.rowarr is not None else []
        return [('array-shape-kept', z3.And(Z(Ic.shape[0]) == mm, Z(Ic.shape[1]) == d)),
                ('components-so-far-are-the-binary-values-of-their-blocks', z3.ForAll([s_, k_], body, patterns=pats))]

    def hook(ex, h, pre, j):
        old = pre.vars['I']
        ex.cnt += 1
        h.vars['I'] = X.imat_of(X.rows_fn(f'Itt!{ex.cnt}'), old.shape[0], old.shape[1])
        h.vars['I_qtt'] = pre.vars['I_qtt']

    ex = U.executor(fn, loops={0: {'inv': inv, 'havoc_hook': hook}}, axioms=T.axioms('mulI', 'hval'),
                    callees={'grid.grid_prep_opt': call_prep_opt_int})
    ex.qtt = True
    ex.mode = 'ematch'
    AX = ex.axioms
    st = U.state()
    st.vars.update(I_qtt=Bv, q=q)
    digits = z3.ForAll([s_, k_, b_], z3.Implies(z3.And(0 <= k_, k_ < d, 0 <= b_, b_ < q), z3.And(blk(s_, k_)[b_] >= 0, blk(s_, k_)[b_] <= 1)),
                       patterns=[blk(s_, k_)[b_]]) if many else \
        z3.ForAll([k_, b_], z3.Implies(z3.And(0 <= k_, k_ < d, 0 <= b_, b_ < q), z3.And(Bf(k_)[b_] >= 0, Bf(k_)[b_] <= 1)),
                  patterns=[Bf(k_)[b_]])
    dcode, lem = lemma_len_div_q(U, total, d, q)
    res = U.run(ex, st, pre=[m >= 1, d >= 0, q >= 1, digits, lem])
    U.cover('precondition-satisfiable', U.pre, axioms=AX)
    for p, o in res:
        if o.kind != 'return':
            U.post('no-exception', p, False, axioms=AX, mode='ematch')
            continue
        if not z3.eq(Z(p.vars['d']), dcode):
            raise M.ContractMismatch('ind_qtt_to_tt: d is no longer int(I_qtt.shape[1] / q)')
        R = p.deref(o.value)
        if many:
            ok = isinstance(R, X.IMat)
            ent = (lambda s, k: R.ent(s, k)) if ok else None
        else:
            ok = X.is_ivec(R)
            ent = (lambda s, k: R.t[k]) if ok else None
        U.post('result-is-an-integer-array', p, z3.BoolVal(ok and R.dtype == 'i'))
        if not ok:
            continue
        if many:
            U.post('shape-(m, d)', p, z3.And(Z(R.shape[0]) == m, Z(R.shape[1]) == d), axioms=AX, mode='ematch')
        else:
            U.post('shape-(d,)', p, Z(R.shape[0]) == d, axioms=AX, mode='ematch')
        rng = z3.And(0 <= s_, s_ < mm, 0 <= k_, k_ < d)
        U.post('component-k-is-sum_j-digit[q*k+j]*2^j', p, z3.Implies(rng, post_value(ent(s_, k_), blk(s_, k_), q)), axioms=AX, mode='ematch')
        U.canary('canary-all-components-zero', p, z3.Implies(rng, ent(s_, k_) == 0), axioms=AX)


@unit('grid.ind_qtt_to_tt.batch', props=('C17',))
def u_q2i_batch(U):
    _ind_qtt_to_tt(U, True)


@unit('grid.ind_qtt_to_tt.single', props=('C17',))
def u_q2i_single(U):
    _ind_qtt_to_tt(U, False)


# ----------------------------------------------------------------------------------------------
# round trips: the two index maps are inverse bijections (a lemma over the two contracts above, per index component;
# both maps act independently on every sample and every component, so this is the statement for batches as well)

@unit('grid.ind_maps.round_trip', props=('C17',))
def u_round_trip(U):
    """For every q >= 0 (no bound), with D = {0, ..., 2^q - 1} and B = {0,1}^q:
      * ind_tt_to_qtt maps D into B (proved in the unit above: entries-are-binary-digits) and ind_qtt_to_tt maps B into D;
      * qtt_to_tt(tt_to_qtt(x)) = x for x in D and tt_to_qtt(qtt_to_tt(a)) = a for a in B.
      * (C) for binary digits the Horner form hval(a, 0, q) used in the contract of ind_qtt_to_tt equals sum_j a[j]*2^j.
    The contracts enter as hypotheses in exactly the form the two units prove them (post_digit / post_value).  All steps
    are linear integer arithmetic over the recursive definitions of shr, hval and pow2 (inductions written out)."""
    U.func('grid', 'ind_tt_to_qtt')
    U.func('grid', 'ind_qtt_to_tt')
    AXR = T.axioms('pow2', 'hval') + SHR_DEF
    q, x, y, k, b = z3.Ints('q x y k b')
    a = z3.Const('a', IA)
    U.cover('hypotheses-satisfiable', [q >= 1, x >= 0, x < T.pow2(q)], axioms=AXR)

    # ---- A: bits of x, then their binary value
    digits_of_x = z3.ForAll([b], z3.Implies(z3.And(0 <= b, b < q), post_digit(a[b], x, b)), patterns=[a[b]])
    ctxA = [q >= 0, x >= 0, x < T.pow2(q), digits_of_x, post_value(y, a, q)]
    P1 = lambda t: z3.And(shr(x, t) >= 0, shr(x, t) < T.pow2(q - t))
    U.lemma('A1: 0 <= x div 2^k < 2^(q-k).base', ctxA, P1(z3.IntVal(0)), axioms=AXR, mode='ematch', kind='lemma-base')
    U.lemma('A1: 0 <= x div 2^k < 2^(q-k).step', ctxA + [0 <= k, k < q, P1(k)], P1(k + 1), axioms=AXR, mode='ematch', kind='lemma-step')
    A1 = z3.ForAll([k], z3.Implies(z3.And(0 <= k, k <= q), P1(k)), patterns=[shr(x, k)])
    P2 = lambda t: hval(a, t, q) == shr(x, t)
    U.lemma('A2: value of the digits from k on is x div 2^k.base', ctxA + [A1], P2(q), axioms=AXR, mode='ematch', kind='lemma-base')
    U.lemma('A2: value of the digits from k on is x div 2^k.step', ctxA + [0 <= k, k < q, P2(k + 1)], P2(k), axioms=AXR, mode='ematch',
            kind='lemma-step')
    A2 = z3.ForAll([k], z3.Implies(z3.And(0 <= k, k <= q), P2(k)), patterns=[hval(a, k, q)])
    U.post('qtt_to_tt-after-tt_to_qtt-is-the-identity', ctxA + [A2], y == x, axioms=AXR, mode='ematch')
    U.canary('canary-A-context-inconsistent', ctxA + [A1, A2, q >= 1], False, axioms=AXR)

    # ---- B: binary value of digits a, then its bits
    digits = z3.ForAll([b], z3.Implies(z3.And(0 <= b, b < q), z3.Or(a[b] == 0, a[b] == 1)), patterns=[a[b]])
    ctxB = [q >= 0, digits, post_value(y, a, q)]
    Q1 = lambda t: z3.And(hval(a, t, q) >= 0, hval(a, t, q) < T.pow2(q - t))
    U.lemma('B1: 0 <= value of the digits from k on < 2^(q-k).base', ctxB, Q1(q), axioms=AXR, mode='ematch', kind='lemma-base')
    U.lemma('B1: 0 <= value of the digits from k on < 2^(q-k).step', ctxB + [0 <= k, k < q, Q1(k + 1)], Q1(k), axioms=AXR, mode='ematch',
            kind='lemma-step')
    B1 = z3.ForAll([k], z3.Implies(z3.And(0 <= k, k <= q), Q1(k)), patterns=[hval(a, k, q)])
    U.post('qtt_to_tt-maps-digit-strings-into-the-index-range', ctxB + [B1], z3.And(y >= 0, y < T.pow2(q)), axioms=AXR, mode='ematch')
    Q2 = lambda t: shr(y, t) == hval(a, t, q)
    U.lemma('B2: y div 2^k is the value of the digits from k on.base', ctxB, Q2(z3.IntVal(0)), axioms=AXR, mode='ematch', kind='lemma-base')
    U.lemma('B2: y div 2^k is the value of the digits from k on.step', ctxB + [0 <= k, k < q, Q2(k)], Q2(k + 1), axioms=AXR, mode='ematch',
            kind='lemma-step')
    B2 = z3.ForAll([k], z3.Implies(z3.And(0 <= k, k <= q), Q2(k)), patterns=[shr(y, k)])
    out = z3.Int('digit_back')      # the digit that ind_tt_to_qtt produces from y at offset b (its contract); the instance
    # Q1(b+1) of lemma B1 brings the term hval(a, b+1, q) in, so that the recursive definition of hval is instantiated at b
    U.post('tt_to_qtt-after-qtt_to_tt-is-the-identity', ctxB + [B2, 0 <= b, b < q, post_digit(out, y, b), Q1(b + 1)],
           out == a[b], axioms=AXR, mode='ematch')
    U.canary('canary-B-context-inconsistent', ctxB + [B1, B2, q >= 1], False, axioms=AXR)
    U.canary('canary-digits-are-all-zero', ctxB + [B2, 0 <= b, b < q], a[b] == 0, axioms=AXR)

    # ---- C: the Horner form hval(a, 0, n) IS the sum  sum_{j<n} a[j]*2^j  for binary digits (so the contract clause of
    # ind_qtt_to_tt reads literally as in the property statement).  psum is that sum, defined by recursion on the number of
    # terms; for a digit in {0,1} the term a[j]*2^j is written If(a[j] == 1, 2^j, 0), which keeps the arithmetic linear.
    psum = z3.Function('psum', IA, z3.IntSort(), z3.IntSort())
    j = z3.Int('j')
    term = lambda t: z3.If(a[t] == 1, T.pow2(t), 0)
    PSUM = [psum(a, 0) == 0,
            z3.ForAll([k, j], z3.Implies(z3.And(k >= 0, j == k + 1), psum(a, j) == psum(a, k) + term(k)),
                      patterns=[z3.MultiPattern(psum(a, k), psum(a, j))])]
    N, n = z3.Ints('N n')
    digitsN = z3.ForAll([b], z3.Implies(z3.And(0 <= b, b < N), z3.Or(a[b] == 0, a[b] == 1)), patterns=[a[b]])
    ctxC = [digitsN, 0 <= n, n < N]
    H = lambda t: hval(a, t, n + 1) == hval(a, t, n) + z3.If(a[n] == 1, T.pow2(n - t), 0)
    U.lemma('C1: one more digit adds digit*2^(n-k) to the value from k on.base', ctxC, H(n), axioms=AXR, mode='ematch', kind='lemma-base',
            extra=[hval(a, n + 1, n + 1) == 0])          # instance of the base clause of hval (brings the term in)
    U.lemma('C1: one more digit adds digit*2^(n-k) to the value from k on.step', ctxC + [0 <= k, k < n, H(k + 1)], H(k), axioms=AXR,
            mode='ematch', kind='lemma-step')
    U.lemma('C2: Horner value = sum_j digit_j*2^j.base', [digitsN] + PSUM, psum(a, 0) == hval(a, 0, 0), axioms=AXR, mode='ematch',
            kind='lemma-base')
    U.lemma('C2: Horner value = sum_j digit_j*2^j.step', ctxC + PSUM + [H(z3.IntVal(0)), psum(a, n) == hval(a, 0, n)],
            psum(a, n + 1) == hval(a, 0, n + 1), axioms=AXR, mode='ematch', kind='lemma-step')
    U.canary('canary-C-context-inconsistent', ctxC + PSUM + [H(z3.IntVal(0)), psum(a, n) == hval(a, 0, n), n >= 1], False, axioms=AXR)


# ----------------------------------------------------------------------------------------------
# 3. core.core_qtt_to_tt and act_one.qtt_to_tt, shape level

AXC = T.axioms('shape', 'mulI', 'pow2', 'mulpow2')
t_, t2_ = z3.Ints('t!w t2!w')


def qtt_block_ok(arr, q):
    """A run of q QTT-cores: mode size 2, positive ranks, neighbouring ranks agree (no condition on the outer ranks)."""
    return [q >= 1,
            z3.ForAll([t_], z3.Implies(z3.And(0 <= t_, t_ < q), z3.And(T.d0(arr[t_]) >= 1, T.d1(arr[t_]) == 2, T.d2(arr[t_]) >= 1)),
                      patterns=[arr[t_]]),
            z3.ForAll([t_, t2_], z3.Implies(z3.And(0 <= t_, t2_ == t_ + 1, t2_ < q), T.d2(arr[t_]) == T.d0(arr[t2_])),
                      patterns=[z3.MultiPattern(arr[t_], arr[t2_])])]


def merged_core_post(shape, arr, q):
    """The TT-core made of q QTT-cores: outer ranks kept, mode size 2^q (what the caller qtt_to_tt relies on)."""
    return {'left-rank-is-that-of-the-first-core': Z(shape[0]) == T.d0(arr[0]),
            'mode-size-2^q': Z(shape[1]) == T.pow2(q),
            'right-rank-is-that-of-the-last-core': Z(shape[2]) == T.d2(arr[q - 1])}


@unit('core.core_qtt_to_tt', props=('C17',))
def u_core_qtt_to_tt(U):
    """core_qtt_to_tt(Q_list): a 3-D array (r_0, 2^q, r_q) for every q >= 1; no exception (all contracted dimensions agree,
    every reshape is size-preserving); the result is a fresh array, never Q_list[0] itself (also for q = 1: the first
    iteration is peeled so that the q = 1 path returns what `Q_list[0].copy()` returned).
    NOT covered: the entries of the merged core (Fortran-order merge of the mode axes) - bounded suite."""
    fn = U.func('core', 'core_qtt_to_tt')
    q = z3.Int('q')
    st = U.state()
    Ql, Q, _ = S.tt_param(st, 'Q_list', q)

    def inv(ex, s, j):
        G = s.vars.get('G')
        if not (isinstance(G, VArr) and G.ndim == 3):
            raise M.ContractMismatch('core_qtt_to_tt: G is no longer a 3-D array at the loop head')
        return [('left-rank-kept', Z(G.shape[0]) == T.d0(Q[0])), ('mode-size-doubles', Z(G.shape[1]) == 2 * T.pow2(j)),
                ('right-rank-is-that-of-the-last-merged-core', Z(G.shape[2]) == T.d2(Q[j]))]

    ex = U.executor(fn, loops={0: {'inv': inv, 'peel': 1}}, axioms=AXC)
    ex.qtt = True
    ex.mode = 'ematch'
    st.vars.update(Q_list=Ql)
    res = U.run(ex, st, pre=qtt_block_ok(Q, q))
    U.cover('precondition-satisfiable', U.pre, axioms=AXC)
    for p, o in res:
        if o.kind != 'return':
            U.post('no-exception', p, False, axioms=AXC, mode='ematch')
            continue
        G = p.deref(o.value)
        ok = isinstance(G, VArr) and G.ndim == 3
        U.post('result-is-a-3-D-array', p, z3.BoolVal(ok))
        if not ok:
            continue
        for lbl, g in merged_core_post(G.shape, Q, q).items():
            U.post(lbl, p, g, axioms=AXC, mode='ematch')
        U.post('dimensions-positive', p, z3.And([Z(x) >= 1 for x in G.shape]), axioms=AXC, mode='ematch')
        U.post('result-is-a-fresh-array (not the argument core itself)', p,
               z3.BoolVal(not getattr(G, 'shared', False) and p.heap[Ql.oid].arr is Q))
        U.canary('canary-mode-size-2', p, Z(G.shape[1]) == 2, axioms=AXC)


def call_core_qtt_to_tt(ex, st, args, kwargs, node):
    """core_qtt_to_tt(Q_list): contract proved by unit core.core_qtt_to_tt."""
    L = st.deref(args[0])
    if len(args) != 1 or kwargs or not (isinstance(L, VSeq) and L.tag == 'core' and L.arr is not None):
        raise M.Unsupported('core_qtt_to_tt: the argument must be a list of cores')
    for i, c in enumerate(qtt_block_ok(L.arr, L.n)):
        ex.oblige(st, 'call-pre', 'core_qtt_to_tt: ' + ('at least one core', 'mode sizes 2 and positive ranks', 'neighbouring ranks agree')[i],
                  c, node, assume=False)
    g = ex.fresh('Gtt', T.Core)
    out = M.mk_core(g)
    for lbl, f in merged_core_post(out.shape, L.arr, L.n).items():
        st.assume(f)
    return out


def wf_blocks(Yb, d, q):
    """wf of the flat list of d*q cores, written in block coordinates (element [q*k + b] = Yb(k)[b]), mode sizes 2."""
    k, k2, b, b2 = z3.Ints('k!y k2!y b!y b2!y')
    return [d >= 1, q >= 1, T.d0(Yb(0)[0]) == 1, T.d2(Yb(d - 1)[q - 1]) == 1,
            z3.ForAll([k, b], z3.Implies(z3.And(0 <= k, k < d, 0 <= b, b < q),
                                         z3.And(T.d0(Yb(k)[b]) >= 1, T.d1(Yb(k)[b]) == 2, T.d2(Yb(k)[b]) >= 1)), patterns=[Yb(k)[b]]),
            z3.ForAll([k, b, b2], z3.Implies(z3.And(0 <= k, k < d, 0 <= b, b2 == b + 1, b2 < q), T.d2(Yb(k)[b]) == T.d0(Yb(k)[b2])),
                      patterns=[z3.MultiPattern(Yb(k)[b], Yb(k)[b2])]),
            z3.ForAll([k, k2], z3.Implies(z3.And(0 <= k, k2 == k + 1, k2 < d), T.d2(Yb(k)[q - 1]) == T.d0(Yb(k2)[0])),
                      patterns=[z3.MultiPattern(Yb(k), Yb(k2))])]


@unit('act_one.qtt_to_tt', props=('C17',))
def u_qtt_to_tt(U):
    """qtt_to_tt(Y, q) for a well-formed QTT-tensor of d*q cores of mode size 2 (d >= 1, q >= 1): a new list of d cores of
    shape (r1, 2^q, r2) whose outer ranks are the bonds between the blocks; boundary ranks 1, neighbouring ranks agree,
    all dimensions >= 1 (= wf for d >= 2); the argument list is not modified.  NOT covered: values (bounded suite)."""
    fn = U.func('act_one', 'qtt_to_tt')
    d, q = z3.Ints('d q')
    Yb = X.core_blocks_fn('Y')
    total = T.mul_canon(d, q)
    st = U.state()
    Yv = X.BSeq(Yb, d, q, total)
    Y = st.alloc(Yv)

    def inv(ex, s, j):
        Zs = s.deref(s.vars['Z'])
        return [('length', Zs.n == j),
                ('merged-cores', z3.ForAll([t_], z3.Implies(z3.And(0 <= t_, t_ < j), z3.And(list(merged_core_post(
                    (T.d0(Zs.arr[t_]), T.d1(Zs.arr[t_]), T.d2(Zs.arr[t_])), Yb(t_), q).values()))), patterns=[Zs.arr[t_]])),
                ('argument-untouched', z3.BoolVal(s.heap[Y.oid].blk is Yb))]

    AX = AXC
    ex = U.executor(fn, loops={0: {'inv': inv}}, axioms=AX, type_hints={'Z': 'tt'}, callees={'core.core_qtt_to_tt': call_core_qtt_to_tt})
    ex.qtt = True
    ex.mode = 'ematch'
    st.vars.update(Y=Y, q=q)
    dcode, lem = lemma_len_div_q(U, total, d, q)
    res = U.run(ex, st, pre=wf_blocks(Yb, d, q) + [lem])
    U.cover('precondition-satisfiable', U.pre, axioms=AX)
    kk = z3.Int('kk')
    for p, o in res:
        if o.kind != 'return':
            U.post('no-exception', p, False, axioms=AX, mode='ematch')
            continue
        if not z3.eq(Z(p.vars['d']), dcode):
            raise M.ContractMismatch('qtt_to_tt: d is no longer int(len(Y) / q)')
        Zs = p.deref(o.value)
        R = Zs.arr
        U.post('fresh-list-and-argument-untouched', p, z3.BoolVal(isinstance(o.value, VRef) and o.value.oid != Y.oid and p.heap[Y.oid].blk is Yb))
        U.post('d-cores', p, Zs.n == d, axioms=AX, mode='ematch')
        U.post('mode-sizes-2^q', p, z3.Implies(z3.And(0 <= kk, kk < d), T.d1(R[kk]) == T.pow2(q)), axioms=AX, mode='ematch')
        U.post('ranks-are-the-bonds-between-the-blocks', p,
               z3.Implies(z3.And(0 <= kk, kk < d), z3.And(T.d0(R[kk]) == T.d0(Yb(kk)[0]), T.d2(R[kk]) == T.d2(Yb(kk)[q - 1]))), axioms=AX, mode='ematch')
        U.post('boundary-ranks-1', p, z3.And(T.d0(R[0]) == 1, T.d2(R[d - 1]) == 1), axioms=AX, mode='ematch')
        U.post('neighbour-ranks-match', p, z3.Implies(z3.And(0 <= kk, kk < d - 1), T.d2(R[kk]) == T.d0(R[kk + 1])), axioms=AX, mode='ematch')
        U.post('dimensions-positive', p, z3.Implies(z3.And(0 <= kk, kk < d), z3.And(T.d0(R[kk]) >= 1, T.d1(R[kk]) >= 1, T.d2(R[kk]) >= 1)),
               axioms=AX, mode='ematch')
        U.post('well-formed (d >= 2)', list(p.pc) + [d >= 2], T.wf(R, d), axioms=AX, mode='ematch')
        U.canary('canary-all-ranks-1', p, z3.Implies(z3.And(0 <= kk, kk < d), T.d2(R[kk]) == 1), axioms=AX)


# ----------------------------------------------------------------------------------------------
# 4. core.core_tt_to_qtt and act_one.tt_to_qtt, shape level (given the contract of matrix_svd)

def capf(r):
    c = z3.ToInt(r) if Z(r).sort() == z3.RealSort() else Z(r)
    return z3.If(c >= 1, c, 1)


def qtt_cores_post(arr, n, q, r1, r2, cap):
    """The q QTT-cores made from one TT-core (r1, 2^q, r2): what the caller tt_to_qtt relies on."""
    return {'q-cores': n == q,
            'outer-ranks-kept': z3.And(T.d0(arr[0]) == r1, T.d2(arr[q - 1]) == r2),
            'mode-sizes-2-and-positive-ranks': z3.ForAll([t_], z3.Implies(z3.And(0 <= t_, t_ < q), z3.And(
                T.d0(arr[t_]) >= 1, T.d1(arr[t_]) == 2, T.d2(arr[t_]) >= 1)), patterns=[arr[t_]]),
            'neighbouring-ranks-agree': z3.ForAll([t_, t2_], z3.Implies(z3.And(0 <= t_, t2_ == t_ + 1, t2_ < q), T.d2(arr[t_]) == T.d0(arr[t2_])),
                                                  patterns=[z3.MultiPattern(arr[t_], arr[t2_])]),
            'inner-ranks-at-most-max(1,cap)': z3.ForAll([t_], z3.Implies(z3.And(0 <= t_, t_ < q - 1), T.d2(arr[t_]) <= cap), patterns=[arr[t_]])}


AXQ = T.axioms('shape', 'mulI', 'pow2', 'mulpow2', 'sub')


@unit('core.core_tt_to_qtt.shapes', props=('C17',))
def u_core_tt_to_qtt(U):
    """core_tt_to_qtt(G, e, r) for G of shape (r1, 2^q, r2), q >= 1, e >= 0, r >= 0, under the contract of matrix_svd
    (svd.matrix_svd: factor shapes, 1 <= rank <= max(1, int(r)), rank <= min dimension): a new list of q cores of mode
    size 2, first left rank r1, last right rank r2, neighbouring ranks agree, every inner rank in [1, max(1, int(r))];
    no exception on this domain (row counts halve exactly, all reshapes are size-preserving, the contracted dimensions of
    the einsum agree).  The rejection of other mode sizes is the unit core.core_tt_to_qtt.gate (contracts/grid.py).
    NOT covered: values / accuracy e (bounded suite); q = 0 (n = 1) is outside the precondition."""
    from contracts.svd import call_matrix_svd
    fn = U.func('core', 'core_tt_to_qtt')
    q0 = z3.Int('q')
    Gv, G = S.core_param('G')
    e, r = z3.Real('e'), z3.Real('r')
    r1, n, r2 = T.d0(G), T.d1(G), T.d2(G)
    cap = capf(r)
    st = U.state()
    rowsA = lambda j: 2 * T.mul_canon(r1, T.pow2(q0 - 1 - j))

    def inv(ex, s, j):
        A, V0, Ys = s.vars.get('A'), s.vars.get('V0'), s.deref(s.vars['Y'])
        if not (isinstance(A, VArr) and A.ndim == 2 and isinstance(V0, VArr) and V0.ndim == 2 and isinstance(Ys, VSeq)):
            raise M.ContractMismatch('core_tt_to_qtt: A / V0 / Y no longer have the types of the contract')
        c = Z(A.shape[1])
        Y = Ys.arr
        return [('length', Ys.n == j),
                ('rows-of-A-halve', Z(A.shape[0]) == rowsA(j)),
                ('bond-in-range', z3.And(c >= 1, c <= cap)),
                ('bond-is-the-left-rank-of-the-last-core', z3.If(j == 0, c == Z(V0.shape[0]), z3.And(T.d0(Y[j - 1]) == c, T.d2(Y[0]) == Z(V0.shape[0])))),
                ('cores-so-far', z3.ForAll([t_], z3.Implies(z3.And(0 <= t_, t_ < j), z3.And(T.d1(Y[t_]) == 2, T.d0(Y[t_]) >= 1, T.d0(Y[t_]) <= cap,
                                                                                           T.d2(Y[t_]) >= 1, z3.Implies(t_ >= 1, T.d2(Y[t_]) <= cap))),
                                          patterns=[Y[t_]])),
                ('neighbours-so-far', z3.ForAll([t_, t2_], z3.Implies(z3.And(0 <= t_, t2_ == t_ + 1, t2_ < j), T.d2(Y[t2_]) == T.d0(Y[t_])),
                                                patterns=[z3.MultiPattern(Y[t_], Y[t2_])]))]

    ex = U.executor(fn, loops={0: {'inv': inv}}, axioms=AXQ, type_hints={'Y': 'tt'}, callees={'svd.matrix_svd': call_matrix_svd})
    ex.qtt = True
    ex.mode = 'ematch'
    st.vars.update(G=Gv, e=e, r=r)
    lem = lemma_log2_of_pow2(U, n, q0)
    res = U.run(ex, st, pre=[r1 >= 1, r2 >= 1, q0 >= 1, n == T.pow2(q0), e >= 0, r >= 0, lem])
    U.cover('precondition-satisfiable', U.pre, axioms=AXQ)
    kk = z3.Int('kk')
    for p, o in res:
        if o.kind != 'return':
            U.post('no-exception', p, False, axioms=AXQ, mode='ematch')
            continue
        if not z3.eq(Z(p.vars['d']), log2_int(n)):
            raise M.ContractMismatch('core_tt_to_qtt: d is no longer int(np.log2(n))')
        Rs = p.deref(o.value)
        if not (isinstance(Rs, VSeq) and Rs.tag == 'core'):
            U.post('result-is-a-list-of-cores', p, False)
            continue
        Ys = p.deref(p.vars['Y'])
        U.post('fresh-list', p, z3.BoolVal(isinstance(o.value, VRef) and Rs is not Ys))
        for lbl, g in qtt_cores_post(Rs.arr, Rs.n, q0, r1, r2, cap).items():
            U.post(lbl, p, g, axioms=AXQ, mode='ematch')
        U.canary('canary-all-inner-ranks-1', p, z3.Implies(z3.And(0 <= kk, kk < q0 - 1), T.d2(Rs.arr[kk]) == 1), axioms=AXQ)


def call_core_tt_to_qtt(ex, st, args, kwargs, node):
    """core_tt_to_qtt(G, e, r): contract proved by units core.core_tt_to_qtt.shapes (and .gate for the rejection).  The
    quantisation level q with n = 2^q is the ghost `ex.qtt_q` of the calling unit."""
    G = st.deref(args[0])
    q = getattr(ex, 'qtt_q', None)
    if q is None or kwargs or len(args) != 3 or not (isinstance(G, VArr) and G.ndim == 3):
        raise M.Unsupported('core_tt_to_qtt: only the call (G, e, r) on a 3-D array with a known quantisation level is under contract')
    e, r = ex.need_num(st, args[1], node), ex.need_num(st, args[2], node)
    ex.oblige(st, 'call-pre', 'core_tt_to_qtt: ranks >= 1, mode size 2^q with q >= 1, e >= 0, r >= 0',
              z3.And(Z(G.shape[0]) >= 1, Z(G.shape[2]) >= 1, q >= 1, Z(G.shape[1]) == T.pow2(q), Z(e) >= 0, Z(r) >= 0), node)
    arr = ex.fresh('Qcores', T.TT)
    for lbl, f in qtt_cores_post(arr, q, q, Z(G.shape[0]), Z(G.shape[2]), capf(r)).items():
        st.assume(f)
    st.ghost.setdefault('qtt_calls', []).append(dict(e=e, r=r))
    return st.alloc(VSeq(arr, q, M.mk_core, tag='core'))


@unit('act_one.tt_to_qtt', props=('C17',))
def u_tt_to_qtt(U):
    """tt_to_qtt(Y, e, r) for a well-formed TT-tensor with all mode sizes 2^q (q >= 1), e >= 0, r >= 0: a new list of d*q cores
    (block view: block k = the q cores made from Y[k]) of mode size 2; the bonds between blocks are the TT-ranks of Y, every
    bond inside a block lies in [1, max(1, int(r))]; boundary ranks 1, neighbouring ranks agree, all dimensions >= 1
    (= wf of the flat list); e and r are handed to every core conversion unchanged; the argument is not modified.
    NOT covered: values / accuracy (bounded suite); tensors whose modes have different sizes."""
    fn = U.func('act_one', 'tt_to_qtt')
    q = z3.Int('q')
    st = U.state()
    Y, A, d = S.tt_param(st, 'Y', z3.Int('d'))
    e, r = z3.Real('e'), z3.Real('r')
    cap = capf(r)
    k, b, b2, k2 = z3.Ints('k!z b!z b2!z k2!z')

    def facts(blk, hi):
        """(label, formula) for the blocks 0 .. hi-1 of the result."""
        rng = z3.And(0 <= k, k < hi)
        return [('outer-ranks-of-block-k-are-the-TT-ranks-of-Y[k]',
                 z3.ForAll([k], z3.Implies(rng, z3.And(T.d0(blk(k)[0]) == T.d0(A[k]), T.d2(blk(k)[q - 1]) == T.d2(A[k]))), patterns=X.pats(blk(k)))),
                ('mode-sizes-2-and-positive-ranks',
                 z3.ForAll([k, b], z3.Implies(z3.And(rng, 0 <= b, b < q), z3.And(T.d0(blk(k)[b]) >= 1, T.d1(blk(k)[b]) == 2, T.d2(blk(k)[b]) >= 1)),
                           patterns=X.pats(blk(k)[b]))),
                ('neighbouring-ranks-inside-a-block-agree',
                 z3.ForAll([k, b, b2], z3.Implies(z3.And(rng, 0 <= b, b2 == b + 1, b2 < q), T.d2(blk(k)[b]) == T.d0(blk(k)[b2])),
                           patterns=X.pats(blk(k)[b], blk(k)[b2]))),
                ('bonds-inside-a-block-at-most-max(1,cap)',
                 z3.ForAll([k, b], z3.Implies(z3.And(rng, 0 <= b, b < q - 1), T.d2(blk(k)[b]) <= cap), patterns=X.pats(blk(k)[b])))]

    def inv(ex, s, j):
        Zs = s.deref(s.vars['Z'])
        if not isinstance(Zs, X.BSeq):
            raise M.ContractMismatch('tt_to_qtt: Z is no longer the list in block view of the contract')
        return [('one-block-per-processed-core', z3.And(Z(Zs.nblk) == j, Z(Zs.bw) == q))] + facts(Zs.blk, j) + \
               [('argument-untouched', z3.BoolVal(s.heap[Y.oid].arr is A))]

    def hook(ex, h, pre, j):
        ex.cnt += 1
        h.heap[h.vars['Z'].oid] = X.BSeq(X.core_blocks_fn(f'Zblk!{ex.cnt}'), j, q)

    def body_end(ex_, s_, o_, j_):
        calls = s_.ghost.get('qtt_calls', [])
        ok = len(calls) == 1
        ex_.oblige(s_, 'post', 'accuracy-and-rank-cap-are-passed-unchanged-to-every-core-conversion',
                   z3.And(M.to_real(calls[0]['e']) == e, M.to_real(calls[0]['r']) == r) if ok else z3.BoolVal(False), None, assume=False)

    AX = T.axioms('shape', 'mulI', 'pow2')
    ex = U.executor(fn, loops={0: {'inv': inv, 'havoc_hook': hook, 'body_end': body_end}}, axioms=AX, type_hints={'Z': 'ttblocks'},
                    callees={'core.core_tt_to_qtt': call_core_tt_to_qtt})
    ex.qtt = True
    ex.qtt_q = q
    ex.mode = 'ematch'
    st.vars.update(Y=Y, e=e, r=r)
    modes = z3.ForAll([k], z3.Implies(z3.And(0 <= k, k < d), T.d1(A[k]) == T.pow2(q)), patterns=[A[k]])
    res = U.run(ex, st, pre=[T.wf(A, d), q >= 1, modes, e >= 0, r >= 0])
    U.cover('precondition-satisfiable', U.pre, axioms=AX)
    for p, o in res:
        if o.kind != 'return':
            U.post('no-exception', p, False, axioms=AX, mode='ematch')
            continue
        Zs = p.deref(o.value)
        ok = isinstance(Zs, X.BSeq)
        U.post('result-is-a-list-of-cores-in-block-view', p, z3.BoolVal(ok))
        if not ok:
            continue
        U.post('fresh-list-and-argument-untouched', p, z3.BoolVal(isinstance(o.value, VRef) and o.value.oid != Y.oid and p.heap[Y.oid].arr is A))
        U.post('d-blocks-of-q-cores: length d*q', p, z3.And(Z(Zs.nblk) == d, Z(Zs.bw) == q, Zs.n == T.mul_canon(d, q)), axioms=AX, mode='ematch')
        for lbl, g in facts(Zs.blk, d):
            U.post(lbl, p, g, axioms=AX, mode='ematch')
        U.post('boundary-ranks-1', p, z3.And(T.d0(Zs.blk(0)[0]) == 1, T.d2(Zs.blk(d - 1)[q - 1]) == 1), axioms=AX, mode='ematch')
        U.post('neighbouring-ranks-between-blocks-agree', p,
               z3.Implies(z3.And(0 <= k, k2 == k + 1, k2 < d), T.d2(Zs.blk(k)[q - 1]) == T.d0(Zs.blk(k2)[0])), axioms=AX, mode='ematch')
        U.canary('canary-all-inner-bonds-1', p, z3.Implies(z3.And(0 <= k, k < d, 0 <= b, b < q - 1), T.d2(Zs.blk(k)[b]) == 1), axioms=AX)


# ----------------------------------------------------------------------------------------------
# Hand-made mutants (MUT_BASE=/tmp/base tools/mut.sh <file> '<sed>' <unit>) and the NAMED obligation that reports each.
#
# grid.py / grid.ind_tt_to_qtt.batch + .single
#   230s/order='F'/order='C'/                 inv-keep loop0.blocks-filled-so-far-hold-the-bits               (failed)
#   229s/I\[:, i\]/I[:, 0]/                   inv-keep loop0.blocks-filled-so-far-hold-the-bits               (failed)
#   232s/q\*i:q\*(i+1)/d*i:d*(i+1)/           call-pre block-slice-width-is-the-block-width                   (failed)
#   231s/\.T$//                               call-pre block-assignment-shape-matches                         (failed)
#   228s/range(d)/range(d-1)/                 post entry-[q*k+j]-is-bit-j-of-component-k, entries-are-binary-digits (failed)
#   227s/d\*q/d*d/                            inv-init loop0.array-shape-kept                                 (failed)
#   230s/I_curr, n_qtt/I_curr+1, n_qtt/       call-pre unravel_index: every index lies in [0, 2^q)            (failed)
#   234s/I_qtt\[0, :\]/I_qtt[:, 0]/           (.single) safety array-index-in-range, post result-is-an-integer-array-in-block-view (refuted)
# grid.py / grid.ind_qtt_to_tt.batch + .single
#   139s/order='F'/order='C'/                 inv-keep loop0.components-so-far-are-the-binary-values-of-their-blocks (failed)
#   138s/q\*i:q\*(i+1)/d*i:d*(i+1)/           call-pre block-slice-width-is-the-block-width                   (failed)
#   138s/\.T$//                               call-pre ravel_multi_index: one row of digits per dimension     (failed)
#   137s/range(d)/range(d-1)/                 post component-k-is-sum_j-digit[q*k+j]*2^j                      (failed)
#   139s/I\[:, i\]/I[:, 0]/                   inv-keep loop0.components-so-far-are-the-binary-values-of-their-blocks (failed)
# core.py / core.core_qtt_to_tt
#   70s/\.copy()//                            post result-is-a-fresh-array (not the argument core itself)     (refuted, q = 1 path)
#   72s/Q_list\[1:\]/Q_list[2:]/              inv-init / inv-keep loop0.right-rank-..., post mode-size-2^q     (failed)
#   70s/Q_list\[0\]/Q_list[-1]/               call-pre tensordot-contracted-dims-agree, inv-init loop0.left-rank-kept (failed)
#   72s/Q_list\[1:\]/Q_list[:-1]/             call-pre tensordot-contracted-dims-agree                        (failed)
# act_one.py / act_one.qtt_to_tt
#   293s/Y\[k\*q:(k+1)\*q\]/Y[k*q:(k+1)*q][::-1]/   call-pre core_qtt_to_tt: neighbouring ranks agree          (failed)
#   292s/range(d)/range(d-1)/                 post boundary-ranks-1, neighbour-ranks-match, well-formed        (failed)
#   293s/k\*q:(k+1)\*q/k*d:(k+1)*d/           call-pre block-slice-width-is-the-block-width                   (failed)
#   294s/G_list/Y[0*q:(0+1)*q]/               inv-keep loop0.merged-cores                                     (failed)
# core.py / core.core_tt_to_qtt.shapes
#   132s/\/\/ 2/\/\/ 4/                       call-pre hstack-rows-agree                                      (failed)
#   134s/A\[As:\]/A[As+1:]/                   call-pre hstack-rows-agree                                      (failed)
#   136s/(-1, 2, q)/(-1, q, 2)/               inv-keep loop0.cores-so-far, neighbours-so-far                  (failed)
#   139s/Y\[0\] = /Y[-1] = /                  post outer-ranks-kept, neighbouring-ranks-agree                 (failed)
#   141s/Y\[::-1\]/Y/                         post fresh-list (refuted), outer-ranks-kept                     (failed)
#   135s/(A, e, r)/(A, e, r+1)/               inv-keep loop0.bond-in-range                                    (failed)
#   138s/(r1, 2, -1)/(2, r1, -1)/             post outer-ranks-kept, mode-sizes-2-and-positive-ranks          (failed)
#   139s/^/#/                                 post outer-ranks-kept                                           (failed)
# act_one.py / act_one.tt_to_qtt
#   326s/(G, e, r)/(G, e, r+1)/               post accuracy-and-rank-cap-are-passed-unchanged-..., inv-keep bonds-inside-a-block-... (failed)
#   326s/(G, e, r)/(G, r, e)/                 post accuracy-and-rank-cap-are-passed-unchanged-to-every-core-conversion (failed)
#   325s/for G in Y:/for G in Y[1:]:/         post boundary-ranks-1, neighbouring-ranks-between-blocks-agree  (failed)
#   326s/(G, e, r)/(Y[0], e, r)/              inv-keep loop0.outer-ranks-of-block-k-are-the-TT-ranks-of-Y[k]  (failed)
# Restructured-but-equivalent variants end undecided (Unsupported / ContractMismatch), never refuted:
#   q*i:q*i+q slices, int(round(np.log2(n))), shape[1] // q, .transpose(), explicit reshape dims, Z += ..., list(reversed(Y));
#   i*q:(i+1)*q, np.array(Q_list[0]) instead of .copy(), np.concatenate(.., axis=1) instead of hstack are still proved.
