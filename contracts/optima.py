"""Sidecar contracts for teneva/optima.py (C15), control tier: the reported values are the tensor entries at the reported
multi-indices and the reported minimum does not exceed the reported maximum.  Tensors and multi-indices are abstract
(uninterpreted sorts); val(Y, i) stands for teneva.get(Y, i), whose own contract (act_one.get) links it to the chain."""
import z3
from ttvc.units import unit
from ttvc.symex import VOpt, VStr, VRec, VSeq, VArr, VFunc, VTuple, VRef, VList, VSym, NONE, Z
from ttvc import models as M, theory as T
from contracts import spec as S

Ten = z3.DeclareSort('Ten')
Idx = z3.DeclareSort('Idx')
val = z3.Function('val', Ten, Idx, z3.RealSort())            # teneva.get(Y, i)
beam = z3.Function('beam', Ten, z3.IntSort(), z3.BoolSort(), Idx)   # optima_tt_beam(Y, k, l2r)
constT = z3.Function('constT', Ten, z3.RealSort(), Ten)      # const(shape(Y), v)
subT = z3.Function('subT', Ten, Ten, Ten)
mulT = z3.Function('mulT', Ten, Ten, Ten)
tmax = z3.Function('tmax', Ten, z3.IntSort(), Idx)           # index returned by optima_tt_max


def _ten(v):
    if not (isinstance(v, VSym) and v.term.sort() == Ten):
        raise M.Unsupported('expected an abstract tensor')
    return v.term


def _callees():
    def c_get(ex, st, a, k, n):
        if not (isinstance(a[1], VSym) and a[1].term.sort() == Idx):
            raise M.Unsupported('get with a non-abstract index')
        return val(_ten(a[0]), a[1].term)

    def c_beam(ex, st, a, k, n):
        kk = Z(ex.need_num(st, a[1], n)) if len(a) > 1 else z3.IntVal(100)
        l2r = k.get('l2r', a[2] if len(a) > 2 else True)
        return VSym(beam(_ten(a[0]), kk, Z(l2r)), 'index')

    def c_max(ex, st, a, k, n):
        kk = Z(ex.need_num(st, a[1], n)) if len(a) > 1 else z3.IntVal(100)
        i = tmax(_ten(a[0]), kk)
        return VTuple([VSym(i, 'index'), val(_ten(a[0]), i)])        # contract proved by unit optima.optima_tt_max

    return {'act_one.get': c_get, 'optima.optima_tt_beam': c_beam, 'optima.optima_tt_max': c_max,
            'props.shape': lambda ex, st, a, k, n: VSym(_ten(a[0]), 'shape-of'),
            'tensors.const': lambda ex, st, a, k, n: VSym(constT(a[0].term, M.to_real(ex.need_num(st, a[1], n))), 'tensor'),
            'act_two.sub': lambda ex, st, a, k, n: VSym(subT(_ten(a[0]), _ten(a[1])), 'tensor'),
            'act_two.mul': lambda ex, st, a, k, n: VSym(mulT(_ten(a[0]), _ten(a[1])), 'tensor')}


@unit('optima.optima_tt_max', props=('C15',))
def u_tt_max(U):
    fn = U.func('optima', 'optima_tt_max')
    ex = U.executor(fn, callees=_callees())
    st = U.state()
    Y = z3.Const('Y', Ten)
    k = z3.Int('k')
    st.vars.update(Y=VSym(Y, 'tensor'), k=k)
    res = U.run(ex, st, pre=[k >= 1])
    U.cover('precondition-satisfiable', U.pre)
    i0, i1 = beam(Y, k, z3.BoolVal(True)), beam(Y, k, z3.BoolVal(False))
    for p, o in res:
        if o.kind != 'return':
            U.post('no-exception', p, False)
            continue
        i, y = o.value.items
        ok = isinstance(i, VSym) and i.term.sort() == Idx
        U.post('returns-an-index-found-by-one-of-the-two-sweeps', p, z3.Or(i.term == i0, i.term == i1) if ok else False)
        U.post('reported-value-is-the-entry-at-the-reported-index', p, Z(y) == val(Y, i.term) if ok else False)
        absv = lambda t: z3.If(t >= 0, t, -t)
        U.post('the-larger-modulus-of-the-two-sweeps-is-taken', p,
               z3.And(absv(Z(y)) >= absv(val(Y, i0)), absv(Z(y)) >= absv(val(Y, i1))) if ok else False)
    U.canary('canary-always-first-sweep', U.pre, False)


@unit('optima.optima_tt', props=('C15',))
def u_tt(U):
    fn = U.func('optima', 'optima_tt')
    ex = U.executor(fn, callees=_callees())
    st = U.state()
    Y = z3.Const('Y', Ten)
    k = z3.Int('k')
    st.vars.update(Y=VSym(Y, 'tensor'), k=k)
    res = U.run(ex, st, pre=[k >= 1])
    U.cover('precondition-satisfiable', U.pre)
    for p, o in res:
        if o.kind != 'return':
            U.post('no-exception', p, False)
            continue
        items = o.value.items
        ok = len(items) == 4 and all(isinstance(items[j], VSym) and items[j].term.sort() == Idx for j in (0, 2))
        if not ok:
            U.post('returns-(i_min, y_min, i_max, y_max)', p, False)
            continue
        i_min, y_min, i_max, y_max = items
        U.post('reported-minimum-does-not-exceed-reported-maximum', p, Z(y_min) <= Z(y_max))
        U.post('reported-values-are-the-entries-at-the-reported-indices', p,
               z3.And(Z(y_min) == val(Y, i_min.term), Z(y_max) == val(Y, i_max.term)))
        i1 = tmax(Y, k)
        U.post('one-of-the-two-is-the-max-modulus-optimum', p, z3.Or(i_min.term == i1, i_max.term == i1))
    U.canary('canary-min-is-max-modulus', U.pre, False)
