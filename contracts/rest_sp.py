"""Sidecar contracts for sample.sample_rand_poi (C14 / C10), stat.cdf_confidence (C18 / C10) and the control tier of
cross_act.cross_act with its two generator-carrying helpers _inter_update / _amen_z (C10).
Model-table entries: ttvc/mx_rest_sp.py (all gated by `ex.rest_sp = True`)."""
import z3
from ttvc.units import unit
from ttvc.symex import VOpt, VStr, VRec, VSeq, VArr, VFunc, VTuple, VRef, VList, VSym, NONE, Z
from ttvc import models as M, theory as T, pt as PT, rnd as R
from ttvc import mx_misc as XM
from ttvc import mx_rest_sp as XSP
from contracts import spec as S, misc as CM

sp_kk = z3.Int('rest_sp_kk')
sp_tt = z3.Int('rest_sp_tt')


# ----------------------------------------------------------------------------------------------
# sample.sample_rand_poi  (C14: "all samplers return ... arrays of the requested shape inside the ... bounds" - here the box [a, b];
#                          C10: "given a generator object it draws from that object only", same seed -> same sequence of draws)
#
# Proved for every d >= 1, limits a, b of length d (lists of floats or float vectors; NO order between a_k and b_k is assumed),
# m with int(m) >= 0 (int or float, truncated), seed None / int / Generator object:
#   * the result is the float matrix of shape (int(m), d), one row per point;
#   * X[t, k] lies in [a_k, b_k] whenever a_k <= b_k (model-table fact about Generator.uniform, cf. mx_misc.method4);
#   * the generator is obtained by ONE call _rand(seed) (call-site contract contracts.misc.logging_rand, unit utils._rand) and a
#     Generator object is used as it is; column k is draw number k of that generator: uniform(a_k, b_k, int(m)) - exactly d draws
#     in the order of the dimensions, so the sequence of draws is a function of the arguments alone (C10);
#   * a and b are not modified.
# Not covered: the distribution (uniformity / independence: bounded suite C14), limit lists of Python ints (same under A-REAL),
# the half-open upper end of uniform, a_k > b_k (NumPy leaves it undefined; nothing is claimed for such a column but shape and order
# of the draws), b longer than a (the code silently ignores the tail; here len(b) = len(a) is a precondition).

def _sp_rand_poi_unit(U, akind, mkind, skind):
    d, db = z3.Ints('d db')
    aarr, barr = z3.Const('a', XM.RA), z3.Const('b', XM.RA)
    fn = U.func('sample', 'sample_rand_poi')
    ex = U.executor(fn, callees={'utils._rand': CM.logging_rand})
    ex.rest_sp = True
    st = U.state()
    if akind == 'list':
        aval = st.alloc(VSeq(aarr, d, lambda t: t, tag='real'))
        bval = st.alloc(VSeq(barr, db, lambda t: t, tag='real'))
    else:
        aval, bval = XM.rvec(d, aarr), XM.rvec(db, barr)
    m0 = z3.Int('m') if mkind == 'int' else z3.Real('m')
    mi = m0 if mkind == 'int' else CM.trunc(m0)
    seed = {'int': z3.Int('seed'), 'none': NONE, 'generator': R.VGen('caller')}[skind]
    st.vars.update(a=aval, b=bval, m=m0, seed=seed)
    res = U.run(ex, st, pre=[d >= 1, db == d, mi >= 0])
    U.assumed.append('utils._rand (unit utils._rand)')
    U.cover('precondition-satisfiable', U.pre)
    for p, o in res:
        if o.kind != 'return':
            U.post('no-exception', p, False)
            continue
        rcalls, log = p.ghost.get('randcalls', []), p.ghost.get('drawlog', [])
        U.post('seed-goes-through-_rand-exactly-once', p, z3.BoolVal(len(rcalls) == 1 and rcalls[0][0] is seed))
        X = p.deref(o.value)
        ok = isinstance(X, VArr) and X.ndim == 2 and X.tag == 'rest_sp_fmat'
        U.post('result-is-the-matrix-of-the-drawn-coordinates', p, z3.BoolVal(ok))
        U.post('one-family-of-draws: one per dimension', p, z3.BoolVal(len(log) == 1 and 'family' in log[0]))
        if not (ok and len(rcalls) == 1 and len(log) == 1 and 'family' in log[0]):
            continue
        g, dr = rcalls[0][1], log[0]
        j, cnt = dr['family']
        if skind == 'generator':
            U.post('a-generator-object-is-used-as-it-is', p, z3.BoolVal(g is seed))
        U.post('float-array-of-shape-(int(m),d), one row per point', p, z3.And(z3.BoolVal(X.dtype == 'f' and X.transposed), Z(X.shape[0]) == mi, Z(X.shape[1]) == d))
        if not X.transposed:
            continue
        ent = XSP.sp_fmat_entry(X, sp_tt, sp_kk)
        inside = z3.And(0 <= sp_tt, sp_tt < mi, 0 <= sp_kk, sp_kk < d)
        U.post('every-coordinate-lies-between-its-limits: a_k <= X[t,k] <= b_k', p,
               z3.Implies(z3.And(inside, aarr[sp_kk] <= barr[sp_kk]), z3.And(aarr[sp_kk] <= ent, ent <= barr[sp_kk])))
        U.post('the-draws-come-from-the-generator-returned-by-_rand', p, z3.BoolVal(dr['gen'] is g))
        U.post('column-k-is-draw-number-k: uniform(a_k, b_k, int(m))', p,
               z3.And(z3.BoolVal(dr['method'] == 'uniform' and X.rows is dr['out'] and len(dr['shape']) == 1),
                      cnt == d, Z(dr['shape'][0]) == mi,
                      z3.Implies(z3.And(0 <= sp_kk, sp_kk < d),
                                 z3.And(z3.substitute(dr['idx'], (j, sp_kk)) == sp_kk, z3.substitute(dr['params'][0], (j, sp_kk)) == aarr[sp_kk],
                                        z3.substitute(dr['params'][1], (j, sp_kk)) == barr[sp_kk]))))
        U.post('exactly-d-draws', p, Z(p.ghost.get('ndraw', z3.IntVal(0))) == d)
        if akind == 'list':
            U.post('argument-lists-are-not-modified', p, z3.BoolVal(p.heap[aval.oid].arr is aarr and p.heap[aval.oid].n is d
                                                                    and p.heap[bval.oid].arr is barr and p.heap[bval.oid].n is db))
        else:
            U.post('argument-arrays-are-not-rebound-or-stored-into', p, z3.BoolVal(p.vars.get('a') is aval and p.vars.get('b') is bval))
        U.canary('canary-all-coordinates-equal-the-lower-limit', p, z3.Implies(inside, ent == aarr[sp_kk]))
        U.canary('canary-no-points', p, mi == 0)


for _sp_ak, _sp_mk, _sp_sk in (('list', 'int', 'int'), ('list', 'float', 'none'), ('array', 'int', 'generator'), ('list', 'int', 'generator'),
                               ('array', 'float', 'int')):
    def _sp_mk_unit(ak=_sp_ak, mk=_sp_mk, sk=_sp_sk):
        @unit(f'sample.sample_rand_poi.{ak}.m_{mk}.seed_{sk}', props=('C14', 'C10'))
        def u(U):
            _sp_rand_poi_unit(U, ak, mk, sk)
    _sp_mk_unit()


# ----------------------------------------------------------------------------------------------
# stat.cdf_confidence  (C18 anchors teneva/stat.py, the empirical-CDF helpers;  C10: "functions without randomness return
#                       bit-identical results on repeated calls" - here: no generator is created or used)
#
# The Dvoretzky-Kiefer-Wolfowitz band exactly as the docstring / code gives it, in the pointwise tier (ttvc/pt.py: the arrays are
# observed at one arbitrary position i, 0 <= i < m = len(x); all array operations of the function are elementwise array-with-number
# operations, so the position is the same in every array).  Proved for every 1-D float array x of length m >= 1 and
#   * every real alpha with 0 < alpha <= 2                      (unit ..alpha_real),
#   * the default alpha (read from the signature: 0.05)          (unit ..alpha_default):
#   - two arrays of the length of x;  lower[i] = clip(x[i] - eps, 0, 1),  upper[i] = clip(x[i] + eps, 0, 1);
#   - eps >= 0 and eps^2 * (2 m) = ln(2 / alpha)  (the argument of the logarithm is 2 / alpha; 40 for the default);
#   - 0 <= lower[i] <= upper[i] <= 1;  lower[i] <= x[i] <= upper[i] whenever 0 <= x[i] <= 1 (an empirical CDF value);
#     upper[i] - lower[i] <= 2 eps, with equality where no clipping happens (eps <= x[i] <= 1 - eps);
#   - no generator is created or used (nothing is drawn); x is not rebound or stored into.
# What makes the square root defined is made explicit as preconditions / safety obligations: alpha != 0 (division), 2 / alpha > 0
# (logarithm; with the first: alpha > 0), 2 m != 0 (division: m >= 1), ln(2 / alpha) / (2 m) >= 0 (root: 2 / alpha >= 1, i.e.
# alpha <= 2, by the sign of ln).  That alpha <= 2 is also NECESSARY (ln < 0 below 1) is not formalised: ln is uninterpreted with
# ln(1) = 0, monotonicity and its sign only (group 'rest_sp_ln', spot-checked against np.log); the model of np.log hands out the
# instances of these axioms for its argument, so every obligation of this unit is quantifier free (non-linear real arithmetic).
# Not covered: the value of ln(2 / alpha) itself, rounding (A-REAL), NaN entries of x, 2-D x, alpha given as an array,
# the statistical meaning of the band (coverage 1 - alpha).

def sp_clip_spec(v, lo, hi):
    """clip as the property states it (clamp to [lo, hi], lo <= hi); np.clip itself is modelled as minimum(maximum(v, lo), hi)"""
    return z3.If(v < lo, lo, z3.If(v > hi, hi, v))


def _sp_mentions_decl(t, decl):
    stack, seen = [t], set()
    while stack:
        u = stack.pop()
        if u.get_id() in seen:
            continue
        seen.add(u.get_id())
        if z3.is_app(u):
            if u.decl().eq(decl):
                return True
            stack.extend(u.children())
    return False


def _sp_cdf_conf_unit(U, akind):
    fn = U.func('stat', 'cdf_confidence')
    ex = U.executor(fn, callees={'np.log': XSP.sp_m_log, 'np.clip': XSP.sp_m_clip, 'utils._rand': CM.logging_rand})
    ex.rest_sp = True
    st = U.state()
    N = z3.Int('m')
    xe = z3.Real('x_i')
    x = PT.pt((N,), xe)
    if akind == 'real':
        alpha = z3.Real('alpha')
        pre = [N >= 1, alpha > 0, alpha <= 2]
    else:
        alpha = ex.ev(fn.defaults['alpha'], st)              # the default expression of the signature
        pre = [N >= 1]
    st.vars.update(x=x, alpha=alpha)
    res = U.run(ex, st, pre=pre)
    U.cover('precondition-satisfiable', U.pre)
    for p, o in res:
        if o.kind != 'return':
            U.post('no-exception', p, False)
            continue
        v = o.value
        ok = isinstance(v, VTuple) and len(v.items) == 2 and all(PT.is_pt(p.deref(w)) and p.deref(w).ndim == 1 and p.deref(w).dtype == 'f' for w in v.items)
        U.post('returns-a-pair-of-1-D-float-arrays', p, z3.BoolVal(bool(ok)))
        eps, lns = p.vars['eps'], p.ghost.get('rest_sp_ln', [])          # (a renamed local: KeyError -> ContractMismatch, undecided)
        ok2 = z3.is_expr(eps) and eps.sort() == z3.RealSort() and len(lns) == 1
        U.post('eps-is-a-number-computed-with-one-logarithm', p, z3.BoolVal(bool(ok2)))
        if not (ok and ok2):
            continue
        if _sp_mentions_decl(eps, XM.powf):
            # `(..) ** 0.5` instead of np.sqrt: mx_misc.power abstracts a general power by the uninterpreted powf (no facts) - the
            # contract cannot judge such a rewrite: undecided, not a violation
            raise M.ContractMismatch('cdf_confidence: eps is computed with a general power (x ** p), not with np.sqrt')
        lo, up = [p.deref(w) for w in v.items]
        U.post('both-arrays-have-the-length-of-x', p, z3.And(Z(lo.shape[0]) == N, Z(up.shape[0]) == N))
        if akind == 'real':
            U.post('the-logarithm-is-taken-of-2/alpha', p, z3.And(lns[0] * alpha == 2, lns[0] >= 1))
        else:
            U.post('default-alpha-is-0.05-and-the-logarithm-is-taken-of-2/alpha = 40', p, z3.And(z3.BoolVal(alpha == 0.05), lns[0] == Z(2. / 0.05), lns[0] == 40))
        L = XSP.sp_ln(lns[0])
        U.post('eps-is-the-non-negative-root: eps >= 0 and eps^2 * (2 m) = ln(2/alpha)', p, z3.And(eps >= 0, eps * eps * (2 * z3.ToReal(N)) == L), qf=True)
        U.post('lower[i] = clip(x[i] - eps, 0, 1)', p, lo.t == sp_clip_spec(xe - eps, 0, 1))
        U.post('upper[i] = clip(x[i] + eps, 0, 1)', p, up.t == sp_clip_spec(xe + eps, 0, 1))
        U.post('0 <= lower[i] <= upper[i] <= 1', p, z3.And(0 <= lo.t, lo.t <= up.t, up.t <= 1))
        U.post('the-band-contains-x[i] when 0 <= x[i] <= 1', p, z3.Implies(z3.And(0 <= xe, xe <= 1), z3.And(lo.t <= xe, xe <= up.t)))
        U.post('band-width <= 2 eps, = 2 eps where nothing is clipped', p,
               z3.And(up.t - lo.t <= 2 * eps, z3.Implies(z3.And(eps <= xe, xe <= 1 - eps), up.t - lo.t == 2 * eps)))
        U.post('no-generator-is-created-or-used', p, z3.BoolVal(not p.ghost.get('randcalls') and not p.ghost.get('drawlog')))
        U.post('x-is-not-rebound-or-stored-into', p, z3.BoolVal(p.vars.get('x') is x))
        U.cover('the-return-path-is-reachable (final path condition satisfiable)', p.pc)
        U.canary('canary-the-band-is-empty', p, lo.t == up.t)
        U.canary('canary-eps-is-zero', p, eps == 0)
        U.canary('canary-lower-is-never-clipped', p, lo.t == xe - eps)


for _sp_akind in ('real', 'default'):
    def _sp_mk_unit2(ak=_sp_akind):
        @unit(f'stat.cdf_confidence.alpha_{ak}', props=('C18', 'C10'))
        def u(U):
            _sp_cdf_conf_unit(U, ak)
    _sp_mk_unit2()


# ----------------------------------------------------------------------------------------------
# cross_act.cross_act, CONTROL TIER ONLY  (C10: "all random draws routed through that generator"; anchors teneva/cross_act.py)
#
# Lenient executor in the style of the control tier of cross.cross (contracts/cross.py): array contents are not interpreted, the
# results of the helpers (_inter_build, _inter_update, _func, _svd, _amen, _amen_z, _matrix_to_core, core_dot, core_dot_inv,
# accuracy) are opaque values about which NOTHING is assumed; the object array X and the interface arrays Rx .. Ryz are opaque.
# Proved for every d >= 2 (Y0 well-formed, D = 2 input tensors of length d), every nswp / e / r / dr / dr2 (dr > 0 and dr <= 0
# are both followed), seed None / int / Generator object, on every path through the initialisation loop and the sweep loop:
#   * _rand is called exactly once, with the seed argument itself, and never again inside a loop; a Generator object is used as
#     it is;
#   * every call of a helper that draws - tensors.rand (error tensor Z), _inter_update (both call sites: it draws a permutation
#     when z_rand is set), _amen_z (both call sites: it hands the generator on to core_qr_rand) - receives exactly that generator
#     object in its generator parameter (the position is read from the helper's real signature);
#   * the body of cross_act mentions neither np.random nor the module random (syntactic; needed because the lenient tier would
#     turn an unknown np.random.* call into an opaque value);
#   * control / index safety of the sweep: with the invariant "ltr: -1 <= i <= d-2, rtl: 1 <= i <= d" every access Y[i], Z[i],
#     Y[i +- 1] is inside the lists, which keep their d entries; the result is the working list Y (d cores), a different list
#     object than Y0 (fresh by the contract of orthogonalize), and the argument lists Y0 / X_list[k] are not modified.
# With the units cross_act._inter_update.* and cross_act._amen_z.* below (the helpers draw from the generator they are handed and
# from nothing else) and core.core_qr_rand.* / tensors.rand.*.seed_generator (contracts/core_more.py, misc.py) this closes the
# C10 chain for cross_act.
# NOT covered (bounded suites C10 / C09): everything about values and shapes (the helpers' preconditions - e.g. that the tensor
# returned by tensors.rand for an ndarray n is well-formed before it is orthogonalised - are NOT discharged in this tier: for the
# error tensor only "tensors.rand / orthogonalize return a list with one core per mode" is used), termination of the sweep loop,
# the objective f (A-CB: pure), the copies `G.copy()` of the input cores, the interface arrays' index ranges (opaque), D != 2.

def _sp_arg(args, kwargs, params, name, default=NONE):
    k = params.index(name)
    if k < len(args):
        return args[k]
    return kwargs.get(name, default)


def _sp_opaque(name, n=None):
    def h(ex, s, a, k, node):
        if n is None:
            return M.VOpaque(name)
        return VTuple([M.VOpaque(f'{name}{i}') for i in range(n)])
    return h


def _sp_mentions_global_rng(fn):
    import ast
    for x in ast.walk(fn.node):
        if isinstance(x, ast.Attribute) and ast.unparse(x).startswith(('np.random', 'numpy.random', 'random.')):
            return True
        if isinstance(x, ast.Name) and x.id == 'random':
            return True
    return False


def _sp_gen_of(s):
    rc = s.ghost.get('randcalls', [])
    return rc[0][1] if len(rc) == 1 else None


def _sp_cross_act_unit(U, skind):
    fn = U.func('cross_act', 'cross_act')
    sigs = {q: U.func(m_, q).params for m_, q in (('tensors', 'rand'), ('cross_act', '_inter_update'), ('cross_act', '_amen_z'))}
    st = U.state()
    d = z3.Int('d')
    X1, A1, _ = S.tt_param(st, 'X1', d)
    X2, A2, _ = S.tt_param(st, 'X2', d)
    Y0, B0, _ = S.tt_param(st, 'Y0', d)
    seed = {'int': z3.Int('seed'), 'none': NONE, 'generator': R.VGen('caller')}[skind]
    sites = []

    def handed(ex, s, val, who, node):
        g = _sp_gen_of(s)          # recorded per call (every path through every call site); reported below as one obligation per helper
        sites.append((who, getattr(node, 'lineno', 0), g is not None and val is g))

    def c_rand(ex, s, a, k, node):
        handed(ex, s, _sp_arg(a, k, sigs['rand'], 'seed'), 'tensors.rand', node)
        n = s.deref(a[0])
        if not (isinstance(n, VArr) and n.ndim == 1):
            raise M.ContractMismatch('cross_act: tensors.rand is not called with the shape vector')
        ref = s.alloc(VSeq(ex.fresh('Zrand', T.TT), Z(n.shape[0]), M.mk_core, 'core'))     # one core per mode (tensors.rand: post d-cores); nothing else
        s.ghost['rest_sp_err_oid'] = ref.oid
        return ref

    def c_orth(ex, s, a, k, node):
        if isinstance(a[0], VRef) and a[0].oid == s.ghost.get('rest_sp_err_oid'):
            v = s.deref(a[0])        # error tensor: control tier, precondition (well-formedness) not discharged; a list of the same length
            return s.alloc(VSeq(ex.fresh('Zorth', T.TT), v.n, M.mk_core, 'core'))
        return M.CALLEES['transformation.orthogonalize'](ex, s, a, k, node)

    def c_inter_update(ex, s, a, k, node):
        handed(ex, s, _sp_arg(a, k, sigs['_inter_update'], 'rand'), '_inter_update', node)
        return _sp_opaque('iu', 5)(ex, s, a, k, node)

    def c_amen_z(ex, s, a, k, node):
        handed(ex, s, _sp_arg(a, k, sigs['_amen_z'], 'rand'), '_amen_z', node)
        return M.VOpaque('amen_z')

    callees = {'utils._rand': CM.logging_rand, 'tensors.rand': c_rand, 'transformation.orthogonalize': c_orth,
               'cross_act._inter_build': _sp_opaque('R'), 'cross_act._inter_update': c_inter_update, 'cross_act._func': _sp_opaque('func'),
               'core.core_dot_inv': _sp_opaque('core_dot_inv'), 'core.core_dot': _sp_opaque('core_dot'),
               'act_two.accuracy': lambda ex, s, a, k, node: ex.fresh_real('acc'),
               'cross_act._svd': _sp_opaque('svd', 3), 'cross_act._log': lambda ex, s, a, k, node: NONE,
               'cross_act._amen_z': c_amen_z, 'cross_act._amen': _sp_opaque('amen', 2), 'cross_act._matrix_to_core': _sp_opaque('core')}

    def lists(s):
        Ys, Zs = s.deref(s.vars['Y']), s.deref(s.vars['Z'])
        if not (isinstance(Ys, VSeq) and isinstance(Zs, VSeq)):
            raise M.ContractMismatch('cross_act: Y / Z are not lists')
        return Ys, Zs

    def inv_init(ex, s, j):
        Ys, Zs = lists(s)
        return [('solution-tensor-keeps-d-cores', Ys.n == d), ('error-tensor-keeps-d-entries', Zs.n == d)]

    def inv_sweep(ex, s, j):
        Ys, Zs = lists(s)
        i, ltr = s.vars['i'], s.vars['ltr']
        if not (M.is_intsort(i) and M.is_boolv(ltr)):
            raise M.ContractMismatch('cross_act: i / ltr are not the position and direction of the sweep')
        return [('solution-tensor-keeps-d-cores', Ys.n == d), ('error-tensor-keeps-d-entries', Zs.n == d),
                ('position-before-the-step: ltr -1..d-2, rtl 1..d', z3.If(Z(ltr), z3.And(-1 <= Z(i), Z(i) <= d - 2), z3.And(1 <= Z(i), Z(i) <= d)))]

    in_loops = []

    def body_end(ex, s, o, j):
        in_loops.append(len(s.ghost.get('randcalls', [])) == 1)

    ex = U.executor(fn, loops={0: {'inv': inv_init, 'body_end': body_end}, 1: {'inv': inv_sweep, 'body_end': body_end}}, callees=callees,
                    axioms=T.axioms('shape'), lenient=True)
    if ex.nloops != 2:
        raise M.ContractMismatch(f'cross_act(): expected 2 loops (initialisation of the interfaces, sweep), found {ex.nloops}')
    f = VFunc('f', lambda ex_, s, a, k, node: M.VOpaque('f(X)'))
    xl = st.alloc(VList([X1, X2]))
    st.vars.update(f=f, X_list=xl, Y0=Y0, e=z3.Real('e'), nswp=z3.Int('nswp'), r=z3.Int('r'), dr=z3.Int('dr'), dr2=z3.Int('dr2'), seed=seed,
                   log=False, object=M.TypeVal('object'))              # `dtype=object`: the builtin type, bound like a local name
    res = U.run(ex, st, pre=[d >= 2, T.wf(B0, d)])
    U.assumed.extend(['utils._rand (unit utils._rand)', 'transformation.orthogonalize (unit transformation.orthogonalize)', 'props.shape (unit props.shape)',
                      'tensors.rand: one core per mode (units tensors.rand.*)'])
    U.cover('precondition-satisfiable', U.pre, axioms=T.axioms('shape'))
    cnt = {w: len({ln for (w2, ln, _) in sites if w2 == w}) for w in ('tensors.rand', '_inter_update', '_amen_z')}
    if cnt != {'tensors.rand': 1, '_inter_update': 2, '_amen_z': 2}:
        raise M.ContractMismatch(f'cross_act(): the call sites of the drawing helpers changed: {cnt}')
    for w, what in (('tensors.rand', 'seed'), ('_inter_update', 'rand'), ('_amen_z', 'rand')):
        U.post(f'every-call-of-{w}-is-handed-the-generator-returned-by-_rand(seed) as its `{what}`', [],
               z3.BoolVal(all(ok for (w2, _, ok) in sites if w2 == w)))
    U.post('no-further-_rand-call-inside-a-loop', [], z3.BoolVal(len(in_loops) >= 2 and all(in_loops)))
    U.post('cross_act-does-not-mention-np.random-or-random', [], z3.BoolVal(not _sp_mentions_global_rng(fn)))
    # (obligations that are decided on the Python side - object identities, counts - carry no hypotheses: a failure is refuted at once)
    nret = 0
    for p, o in res:
        if o.kind != 'return':
            U.post('only-returns', p, False, axioms=ex.axioms)
            continue
        nret += 1
        rcalls = p.ghost.get('randcalls', [])
        U.post('seed-goes-through-_rand-exactly-once', [], z3.BoolVal(len(rcalls) == 1 and rcalls[0][0] is seed))
        if skind == 'generator' and len(rcalls) == 1:
            U.post('a-generator-object-is-used-as-it-is', [], z3.BoolVal(rcalls[0][1] is seed))
        U.post('the-generator-variable-still-holds-that-generator', [], z3.BoolVal(len(rcalls) == 1 and p.vars['rand'] is rcalls[0][1]))
        Ys = p.deref(o.value)
        U.post('returns-the-working-list-of-d-cores-not-Y0', p,
               z3.And(z3.BoolVal(isinstance(o.value, VRef) and o.value.oid != Y0.oid and isinstance(Ys, VSeq) and Ys.tag == 'core'
                                 and o.value.oid == p.vars['Y'].oid), Ys.n == d), axioms=ex.axioms)
        U.post('argument-lists-are-not-modified', [],
               z3.BoolVal(p.heap[Y0.oid].arr is B0 and p.heap[X1.oid].arr is A1 and p.heap[X2.oid].arr is A2 and p.heap[Y0.oid].n is d
                          and len(p.heap[xl.oid].items) == 2 and p.heap[xl.oid].items[0] is X1 and p.heap[xl.oid].items[1] is X2))
        U.canary('canary-return-path-is-contradictory', p, False, axioms=ex.axioms)
    U.post('both-exits-of-the-sweep-loop-are-reached (budget and convergence), with and without the error tensor', [], z3.BoolVal(nret >= 4))


for _sp_sk in ('int', 'none', 'generator'):
    def _sp_mk_unit3(sk=_sp_sk):
        @unit(f'cross_act.cross_act.control.seed_{sk}', props=('C10',))
        def u(U):
            _sp_cross_act_unit(U, sk)
    _sp_mk_unit3()


# ----------------------------------------------------------------------------------------------
# cross_act._inter_update / cross_act._amen_z, CONTROL TIER  (C10: the two helpers of cross_act that are handed the generator)
#
# Lenient executor; the results of core_dot_maxvol / core_dot_inv / _svd / _reshape / core_qr_rand are opaque, their preconditions are
# not discharged here (shape tier: units core.core_dot_maxvol.*, core.core_qr_rand.*).  Proved:
#   _inter_update (Gz None / a core, z_rand False / True, both directions):
#     * with z_rand and an error core Gz: exactly ONE draw, taken from the generator parameter `rand`: permutation(r1*n) for ltr,
#       permutation(n*r2) for rtl (products in the engine's abstraction mulI), and the row selection handed to core_dot_maxvol for
#       Gz consists of the first r2 (ltr) / r1 (rtl) entries of that permutation (precondition: that many entries exist, r2 <= r1*n
#       resp. r1 <= n*r2 - the engine's slice model does not clip);  the first selection (for Gy) is left to maxvol (ind = None);
#     * without z_rand or without Gz: nothing is drawn;   * _rand is never called; np.random / random are not mentioned; 5 results.
#   _amen_z (is_dz False / True, both directions, rand a Generator object / the default None):
#     * not is_dz: exactly one call core_qr_rand(G, dr2, ltr, rand) - its `seed` parameter is the object that came in as `rand`
#       (a Generator: the caller's generator is used for the random rows; None: core_qr_rand seeds itself - that is why cross_act
#       has to hand the generator over, unit cross_act.cross_act.control.*), `m` is dr2, `ltr` is ltr;   * is_dz: no such call;
#     * _amen_z itself draws nothing, never calls _rand and does not mention np.random / random.
# NOT covered: all values and shapes (bounded suites), which rows maxvol selects.

def _sp_inter_update_unit(U, gz, z_rand):
    fn = U.func('cross_act', '_inter_update')
    st = U.state()
    gen = R.VGen('param')
    ltr = z3.Bool('ltr')
    Gy, _ = S.core_param('Gy')
    Gz, Gzt = (NONE, None) if gz == 'none' else S.core_param('Gz')
    Ry0 = M.VOpaque('Ry[i]')

    def c_maxvol(ex, s, a, k, node):          # logged in the ghost state: per path, aborted replays of a statement leave no trace
        s.ghost['rest_sp_maxvol'] = s.ghost.get('rest_sp_maxvol', []) + [(list(a), dict(k))]
        return VTuple([M.VOpaque('R'), M.VOpaque('ind')])

    ex = U.executor(fn, callees={'core.core_dot_maxvol': c_maxvol, 'utils._rand': CM.logging_rand}, axioms=T.axioms('shape', 'mulI'), lenient=True)
    ex.rest_sp = True
    st.vars.update(Gx=M.VOpaque('X[i, :]'), Gy=Gy, Gz=Gz, Rx=M.VOpaque('Rx[i, :]'), Ry=Ry0, Rz=M.VOpaque('Rz[i]'),
                   Rxz=M.VOpaque('Rxz[i, :]'), Ryz=M.VOpaque('Ryz[i]'), rand=gen, z_rand=z_rand, ltr=ltr)
    pre = []
    if Gzt is not None:
        r1, n, r2 = T.d0(Gzt), T.d1(Gzt), T.d2(Gzt)
        pre = [r1 >= 1, n >= 1, r2 >= 1]
        if z_rand:
            pre.append(z3.If(ltr, r2 <= T.mul_canon(r1, n), r1 <= T.mul_canon(n, r2)))
    res = U.run(ex, st, pre=pre)
    U.cover('precondition-satisfiable', U.pre, axioms=ex.axioms)
    # (obligations that are decided on the Python side - object identities, counts - carry no hypotheses: a failure is refuted at once)
    U.post('_inter_update-does-not-mention-np.random-or-random', [], z3.BoolVal(not _sp_mentions_global_rng(fn)))
    nret = 0
    for p, o in res:
        if o.kind != 'return':
            U.post('only-returns', p, False, axioms=ex.axioms)
            continue
        nret += 1
        log, calls = p.ghost.get('drawlog', []), p.ghost.get('rest_sp_maxvol', [])
        U.post('_rand-is-never-called', [], z3.BoolVal(not p.ghost.get('randcalls')))
        U.post('returns-the-five-interface-updates', [], z3.BoolVal(isinstance(o.value, VTuple) and len(o.value.items) == 5))
        first = [c for c in calls if len(c[0]) >= 3 and c[0][0] is Gy and c[0][1] is Ry0]
        U.post('the-first-selection-is-left-to-maxvol (ind = None)', [], z3.BoolVal(len(first) == 1 and first[0][0][2] is NONE))
        forgz = [c for c in calls if len(c[0]) >= 3 and c[0][0] is Gz] if Gzt is not None else []
        if Gzt is not None:
            U.post('one-maxvol-call-for-the-error-core', [], z3.BoolVal(len(forgz) == 1))
        if not (z_rand and Gzt is not None):
            U.post('nothing-is-drawn', [], z3.BoolVal(len(log) == 0))
            if len(forgz) == 1:
                U.post('without-z_rand-the-selection-for-Gz-is-left-to-maxvol (ind = None)', [], z3.BoolVal(forgz[0][0][2] is NONE))
            continue
        U.post('exactly-one-draw-from-the-generator-parameter: a permutation', [],
               z3.BoolVal(len(log) == 1 and log[0]['gen'] is gen and log[0]['method'] == 'permutation' and len(log[0]['shape']) == 1))
        if not (len(log) == 1 and len(log[0]['shape']) == 1 and len(forgz) == 1):
            continue
        dr, iv = log[0], forgz[0][0][2]
        U.post('the-permutation-runs-over-the-rows-of-the-unfolding: r1*n (ltr) / n*r2 (rtl)', p,
               Z(dr['shape'][0]) == z3.If(ltr, T.mul_canon(r1, n), T.mul_canon(n, r2)), qf=True)
        ok = isinstance(iv, VArr) and iv.ndim == 1 and iv.tag == 'ivec' and iv.t is not None
        U.post('with-z_rand-the-selection-for-Gz-is-an-index-vector-cut-from-the-permutation', [], z3.BoolVal(bool(ok)))
        if ok:
            U.post('the-selection-for-Gz-is-the-first-r2 (ltr) / r1 (rtl) entries-of-the-permutation', p,
                   z3.And(Z(iv.shape[0]) == z3.If(ltr, r2, r1), z3.Implies(z3.And(0 <= sp_kk, sp_kk < Z(iv.shape[0])), iv.t[sp_kk] == dr['out'][sp_kk])),
                   axioms=ex.axioms, mode='ematch')
            U.post('the-selected-rows-exist-and-are-pairwise-distinct', p,
                   z3.Implies(z3.And(0 <= sp_kk, sp_kk < sp_tt, sp_tt < Z(iv.shape[0])),
                              z3.And(0 <= iv.t[sp_kk], iv.t[sp_kk] < Z(dr['shape'][0]), iv.t[sp_kk] != iv.t[sp_tt])), axioms=ex.axioms, mode='ematch')
            U.canary('canary-the-selection-is-empty', p, Z(iv.shape[0]) == 0, axioms=ex.axioms)
        U.canary('canary-return-path-is-contradictory', p, False, axioms=ex.axioms)
    U.post('every-case-returns', [], z3.BoolVal(nret >= 1))


for _sp_gz, _sp_zr in (('none', False), ('none', True), ('core', False), ('core', True)):
    def _sp_mk_unit4(gz=_sp_gz, zr=_sp_zr):
        @unit(f'cross_act._inter_update.Gz_{gz}.{"z_rand" if zr else "plain"}', props=('C10',))
        def u(U):
            _sp_inter_update_unit(U, gz, zr)
    _sp_mk_unit4()


def _sp_amen_z_unit(U, is_dz, rkind):
    fn = U.func('cross_act', '_amen_z')
    sig = U.func('core', 'core_qr_rand').params
    st = U.state()
    gen = R.VGen('param') if rkind == 'generator' else NONE
    ltr = z3.Bool('ltr')
    G, Gt = S.core_param('G')
    dG, dGt = S.core_param('dG')
    dr, dr2 = z3.Int('dr'), z3.Int('dr2')

    def c_qr_rand(ex, s, a, k, node):
        s.ghost['rest_sp_qr_rand'] = s.ghost.get('rest_sp_qr_rand', []) + [(list(a), dict(k))]
        return M.VOpaque('core_qr_rand')

    callees = {'core.core_qr_rand': c_qr_rand, 'utils._rand': CM.logging_rand, 'core.core_dot_inv': _sp_opaque('core_dot_inv'),
               'cross_act._svd': _sp_opaque('svd', 3), 'utils._reshape': _sp_opaque('reshaped')}
    ex = U.executor(fn, callees=callees, axioms=T.axioms('shape'), lenient=True)
    ex.rest_sp = True
    st.vars.update(G=G, dG=dG, R1=M.VOpaque('R1'), R2=M.VOpaque('R2'), dr=dr, dr2=dr2, is_dz=is_dz, ltr=ltr, rand=gen)
    same = [T.d0(Gt) == T.d0(dGt), T.d1(Gt) == T.d1(dGt), T.d2(Gt) == T.d2(dGt)]
    res = U.run(ex, st, pre=[] if is_dz else same)         # not is_dz: `G - dG` is formed before anything else (equal shapes required)
    U.cover('precondition-satisfiable', U.pre, axioms=ex.axioms)
    U.post('_amen_z-does-not-mention-np.random-or-random', [], z3.BoolVal(not _sp_mentions_global_rng(fn)))
    nret = 0
    for p, o in res:
        if o.kind != 'return':
            U.post('only-returns', p, False, axioms=ex.axioms)
            continue
        nret += 1
        calls = p.ghost.get('rest_sp_qr_rand', [])
        U.post('_rand-is-never-called-and-nothing-is-drawn-by-_amen_z-itself', [], z3.BoolVal(not p.ghost.get('randcalls') and not p.ghost.get('drawlog')))
        if is_dz:
            U.post('is_dz: core_qr_rand-is-not-called', [], z3.BoolVal(len(calls) == 0))
        else:
            U.post('not is_dz: exactly-one-call-of-core_qr_rand', [], z3.BoolVal(len(calls) == 1))
            for a, k in calls[:1]:
                sd, m_, l_ = [_sp_arg(a, k, sig, nm, None) for nm in ('seed', 'm', 'ltr')]
                U.post('core_qr_rand-is-handed-the-object-that-came-in-as-`rand` as its `seed`', [], z3.BoolVal(sd is gen))
                U.post('core_qr_rand-gets-dr2-random-rows-and-the-direction-of-the-sweep', [],
                       z3.And(z3.BoolVal(m_ is dr2), Z(l_) == ltr if l_ is not None and M.is_boolv(l_) else z3.BoolVal(False)))
        U.canary('canary-return-path-is-contradictory', p, False, axioms=ex.axioms)
    U.post('both-directions-return', [], z3.BoolVal(nret == 2))


for _sp_dz in (False, True):
    for _sp_rk in ('generator', 'none'):
        def _sp_mk_unit5(dz=_sp_dz, rk=_sp_rk):
            @unit(f'cross_act._amen_z.{"is_dz" if dz else "plain"}.rand_{rk}', props=('C10',))
            def u(U):
                _sp_amen_z_unit(U, dz, rk)
        _sp_mk_unit5()


# ==============================================================================================
# Hand-made mutants (MUT_BASE=/tmp/base tools/mut.sh <file> '<sed>' <unit>) and the NAMED obligation that reports each.
# "undecided" = Unsupported / ContractMismatch (exit 2); "quiet" = equivalent rewrite, everything still proved.
#
# sample.sample_rand_poi.*  (sample.py)
#   s/rand.uniform(a\[i\], b\[i\], int(m))/rand.uniform(b[i], a[i], int(m))/        post.column-k-is-draw-number-k: uniform(a_k, b_k, int(m)), post.every-coordinate-lies-between-its-limits (refuted)
#   s/return np.vstack(X).T$/return np.vstack(X)/                                     post.float-array-of-shape-(int(m),d), one row per point (refuted)
#   .. int(m)) -> .. int(m)+1)                                                         post.float-array-of-shape-(int(m),d).., post.column-k-is-draw-number-k..
#   for i in range(d) -> for i in range(d-1)                                           post.float-array-of-shape.., post.column-k-is-draw-number-k.., post.exactly-d-draws
#   b[i] -> b[0]                                                                       post.every-coordinate-lies-between-its-limits.., post.column-k-is-draw-number-k..
#   b[i] -> b[i+1]                                                                     safety.list-index-in-range / safety.array-index-in-range (+ the two posts above)
#   rand = teneva._rand(seed) -> rand = np.random.default_rng()                        post.seed-goes-through-_rand-exactly-once
#   _rand(seed) -> _rand()                                                             post.seed-goes-through-_rand-exactly-once, post.a-generator-object-is-used-as-it-is
#   _rand(seed) -> _rand(_rand(seed));  second _rand(seed) inside the comprehension    post.seed-goes-through-_rand-exactly-once
#   d = len(a); a[0] = 0.                                                              post.argument-lists-are-not-modified (+ limits / draw-parameter posts)
#   undecided: `rand = 0` and `teneva._rand(seed).uniform(..)` per element (generator per element: Unsupported by mx_rest_sp.sp_listcomp);
#              rand.normal(..) (Generator.normal with a positional size is not modelled);  np.array(X).T;  explicit for-loop with append
#              (ContractMismatch: no invariant)
#   quiet (equivalent): uniform(a[i], b[i], size=int(m));  for i in range(len(b))  (len(b) = len(a) is a precondition)
# stat.cdf_confidence.*  (stat.py)
#   s|np.log(2. / alpha)|np.log(1. / alpha)|                                           safety.sqrt-of-nonnegative (alpha in (1, 2]), post.the-logarithm-is-taken-of-2/alpha (default: ..= 40)
#   s|np.log(2. / alpha)|np.log(alpha / 2.)|                                           safety.sqrt-of-nonnegative, post.the-logarithm-is-taken-of-2/alpha
#   lower / upper swapped in the return statement                                      post.lower[i] = clip(x[i] - eps, 0, 1), post.upper[i] = .., post.0 <= lower[i] <= upper[i] <= 1, ..
#   np.clip(x + eps, 0, 1) -> np.clip(x + eps, 0, 2)                                   post.upper[i] = clip(x[i] + eps, 0, 1), post.0 <= lower[i] <= upper[i] <= 1
#   np.clip(x - eps, 0, 1) -> (.., -1, 1) / (.., 0, 1.5)                               post.lower[i] = clip(x[i] - eps, 0, 1), post.0 <= lower[i] <= upper[i] <= 1
#   (2 * len(x)) -> (len(x))                                                           post.eps-is-the-non-negative-root: eps >= 0 and eps^2 * (2 m) = ln(2/alpha)
#   np.sqrt dropped                                                                    post.eps-is-the-non-negative-root..
#   x - eps -> x - 2 * eps                                                             post.lower[i] = clip(x[i] - eps, 0, 1), post.band-width <= 2 eps..
#   np.log -> np.log2                                                                  safety.sqrt-of-nonnegative, post.eps-is-a-number-computed-with-one-logarithm
#   alpha=0.05 -> alpha=0.5 in the signature                                           stat.cdf_confidence.alpha_default post.default-alpha-is-0.05-and-the-logarithm-is-taken-of-2/alpha = 40
#   undecided: np.minimum(np.maximum(..)) (not in the model table);  (..) ** 0.5 instead of np.sqrt (ContractMismatch: mx_misc.power gives the
#              fact-free powf);   quiet (equivalent): .. / 2 / len(x);  0.5 * np.log(..) / x.shape[0];  np.clip(-eps + x, 0., 1.);
#              lo = x - eps; lo[lo < 0] = 0; lo[lo > 1] = 1  (masked stores of the pointwise tier)
# cross_act.cross_act.control.*  (cross_act.py; control tier)
#   teneva.rand(n, dr, seed=rand) -> seed=seed  /  seed dropped                        post.every-call-of-tensors.rand-is-handed-the-generator-returned-by-_rand(seed) as its `seed`
#                                                                                      (seed=seed is equivalent for a Generator argument: quiet in ..seed_generator)
#   _amen_z(.., dr, dr2, False, ltr, rand) -> (.., ltr)  /  (.., dr, None, True, ltr, None)     post.every-call-of-_amen_z-is-handed-the-generator.. as its `rand`
#   _inter_update(.., Ryz[i], rand, z_rand=True, ..) -> None;  (.., rand, False, ltr) -> (.., teneva._rand(seed), False, ltr)
#                                                                                      post.every-call-of-_inter_update-is-handed-the-generator.. (+ post.no-further-_rand-call-inside-a-loop)
#   rand = teneva._rand(seed) -> rand = np.random.default_rng(seed)                    post.seed-goes-through-_rand-exactly-once, post.cross_act-does-not-mention-np.random-or-random, ..
#   rand = teneva._rand(seed); np.random.seed(0)                                       post.cross_act-does-not-mention-np.random-or-random
#   ju = i+1 if ltr else i-1 -> ju = i+1;   if ltr and i == d-1 -> i == d              safety.list-index-in-range (failed: e-matching context, no model)
#   i, ltr, swp, e_curr = d, False, 0, 0. -> d+1, ..                                   inv-init.loop1.position-before-the-step: ltr -1..d-2, rtl 1..d
#   undecided: local `rand` renamed (ContractMismatch);   quiet (equivalent): while not (swp > nswp);  i = i + 1 if ltr else i - 1;
#              jn = i if not ltr else i+1;  keyword form `rand=rand, ltr=ltr` at a call site
# cross_act._inter_update.*  (cross_act.py)
#   rand.permutation(..) -> np.random.permutation(..)                                  post._inter_update-does-not-mention-np.random-or-random, post.exactly-one-draw-from-the-generator-parameter: a permutation
#   rand.permutation(..) -> teneva._rand().permutation(..)                             post._rand-is-never-called, post.exactly-one-draw-from-the-generator-parameter..
#   (r1*n if ltr else n*r2) -> (r1*n if ltr else r1*n)                                 post.the-permutation-runs-over-the-rows-of-the-unfolding: r1*n (ltr) / n*r2 (rtl)
#   perm[:(r2 if ltr else r1)] -> perm[:(r1 if ltr else r2)]  /  perm[1:(..)]          post.the-selection-for-Gz-is-the-first-r2 (ltr) / r1 (rtl) entries-of-the-permutation
#   if z_rand: -> if not z_rand:                                                       post.exactly-one-draw.. (z_rand), post.nothing-is-drawn + safety.slice-in-range (plain)
#   core_dot_maxvol(Gy, Ry, None, ..) -> (Gy, Ry, rand.permutation(3), ..)             post.the-first-selection-is-left-to-maxvol (ind = None), post.nothing-is-drawn / exactly-one-draw..
#   quiet (equivalent): local `perm` renamed
# cross_act._amen_z.*  (cross_act.py)
#   core_qr_rand(G, dr2, ltr, rand) -> (G, dr2, ltr)                                   post.core_qr_rand-is-handed-the-object-that-came-in-as-`rand` as its `seed`
#   .. -> (G, dr2, ltr, teneva._rand(rand))                                            post._rand-is-never-called-and-nothing-is-drawn-by-_amen_z-itself
#   .. -> (G, dr, ltr, rand)  /  (G, dr2, not ltr, rand)                               post.core_qr_rand-gets-dr2-random-rows-and-the-direction-of-the-sweep
#   if not is_dz: -> if True:                                                          cross_act._amen_z.is_dz.* post.is_dz: core_qr_rand-is-not-called, call-pre.elementwise-shapes-agree
#   quiet (equivalent): core_qr_rand(G, dr2, seed=rand, ltr=ltr)
