"""The positional call interface of teneva (C01-C20 quantify over the documented calls `f(Y, e, r, ...)`): for every function the
parameter list of the current source must EXTEND the recorded one (contracts/public_api.json, written by tools/gen_public_api.py from
the tree the contracts were written for): same names in the same positions with the same default expressions; new parameters may
only be appended and need a default.  A reordering of optional parameters (seeded change C03-12) silently changes the meaning of
every positional call although each keyword call - and therefore every call inside the library and its tests - is unaffected.
Back end: Python's `ast` (no SMT).  A removed or renamed function is reported by the units that verify it, not here."""
import ast, json, os
from ttvc.units import unit
from ttvc import symex

_TAB = json.load(open(os.path.join(os.path.dirname(os.path.abspath(__file__)), 'public_api.json')))

# which properties quantify over calls of the functions of a module (anchors.files of properties.jsonl)
_PROPS = {}
for _l in open(os.path.join(os.path.dirname(os.path.abspath(__file__)), '..', 'properties.jsonl')):
    _p = json.loads(_l)
    for _f in _p.get('anchors', {}).get('files', []):
        _m = os.path.basename(_f)[:-3]
        _PROPS.setdefault(_m, []).append(_p['id'])


def _current(module):
    src, tree = symex.module_ast(module)
    out = {}
    for node in tree.body:
        defs = [('', node)] if isinstance(node, ast.FunctionDef) else \
            [(node.name + '.', n) for n in node.body if isinstance(n, ast.FunctionDef)] if isinstance(node, ast.ClassDef) else []
        for pre, f in defs:
            a = f.args
            ps = [p.arg for p in a.posonlyargs + a.args]
            nd = len(a.defaults)
            dfl = [None] * (len(ps) - nd) + [ast.unparse(d) for d in a.defaults]
            out[pre + f.name] = ([[p, d] for p, d in zip(ps, dfl)], f.lineno)
    return src, out


def check(U, module):
    src, cur = _current(module)
    n = 0
    for name, want in sorted(_TAB.get(module, {}).items()):
        if name not in cur:
            continue                                   # removed / renamed: reported by the units of that function
        if name.split('.')[-1].startswith('_'):
            continue                                   # private helpers: all callers are inside the library and change with them
        have, line = cur[name]
        where = f'{module}.py:{line}'
        n += 1
        bad = None
        for k, (p, d) in enumerate(want):
            if k >= len(have):
                bad = f'parameter #{k} `{p}` is gone'
            elif have[k][0] != p:
                bad = f'parameter #{k} is `{have[k][0]}`, callers pass `{p}` in that position'
            elif have[k][1] != d:
                bad = f'default of `{p}` is `{have[k][1]}`, documented `{d}`'
            if bad:
                break
        if bad is None:
            for p, d in have[len(want):]:
                if d is None:
                    bad = f'new parameter `{p}` without a default: existing calls no longer bind'
                    break
        U.direct('signature', f'{name}: positional-interface-unchanged', 'failed' if bad else 'proved',
                 (bad + f'; recorded interface ({", ".join(p if d is None else f"{p}={d}" for p, d in want)})') if bad else '',
                 where, backend='inspect')
    U.add_meta(functions=[{'function': f'teneva/{module}.py (parameter lists of all functions)', 'lines': [1, len(src.splitlines())],
                           'sha256_16': symex.hashlib.sha256(src.encode()).hexdigest()[:16], 'dropped': []}])
    U.direct('cover', 'some-function-checked', 'ok' if n else 'vacuous', '' if n else 'no recorded function found in the module', module,
             backend='inspect')


for _m in sorted(_TAB):
    def _mk(m=_m):
        @unit(f'api.{m}', props=tuple(sorted(set(_PROPS.get(m, [])))))
        def u(U):
            check(U, m)
    if _PROPS.get(_m) and any(not k.split('.')[-1].startswith('_') for k in _TAB[_m]):
        _mk()
