"""Sidecar contracts for teneva/func.py (C12)."""
import z3
from ttvc.units import unit
from ttvc.symex import VOpt, VStr, VRec, VSeq, VArr, VFunc, VTuple, VRef, VList, VSym, NONE, Z
from ttvc import models as M, theory as T, pt as PT
from contracts import spec as S

cheb = z3.Function('cheb', z3.IntSort(), z3.RealSort(), z3.RealSort())     # Chebyshev polynomial T_k(x), by its recurrence
_k, _k1, _k2 = z3.Ints('k!f k1!f k2!f')
_x = z3.Real('x!f')
CHEB = [z3.ForAll([_x], z3.And(cheb(0, _x) == 1, cheb(1, _x) == _x), patterns=[cheb(0, _x), cheb(1, _x)]),
        z3.ForAll([_k, _k1, _k2, _x], z3.Implies(z3.And(_k >= 0, _k1 == _k + 1, _k2 == _k + 2),
                                                 cheb(_k2, _x) == 2 * _x * cheb(_k1, _x) - cheb(_k, _x)),
                  patterns=[z3.MultiPattern(cheb(_k, _x), cheb(_k1, _x), cheb(_k2, _x))])]


@unit('func.func_basis', props=('C12',))
def u_basis(U):
    """func_basis(X, m): row k of the result is T_k(X) elementwise for 0 <= k < m, T_k defined by the three-term recurrence
    (pointwise tier: X is observed at one generic position; m >= 1)."""
    fn = U.func('func', 'func_basis')
    st = U.state()
    m = z3.Int('m')
    x = z3.Real('x')
    sh = (z3.Int('s0'),)
    X = PT.pt(sh, x)
    RA = z3.ArraySort(z3.IntSort(), z3.RealSort())
    t = z3.Int('t!b')

    def ones_func(ex, s, args, kwargs, node):
        shp = args[0]
        ok = isinstance(shp, VTuple) and len(shp.items) == 2
        ex.oblige(s, 'call-pre', 'basis-array-has-one-row-per-polynomial-and-the-shape-of-X', z3.BoolVal(ok), node)
        arr = ex.fresh('Tones', RA)
        s.assume(z3.ForAll([t], arr[t] == 1, patterns=[arr[t]]))
        return s.alloc(VSeq(arr, Z(shp.items[0]), lambda e: e, tag='real'))

    def inv(ex, s, j):
        Ts = s.deref(s.vars['T'])
        k = j + 2
        return [('rows', Ts.n == m),
                ('rows-so-far-are-the-Chebyshev-polynomials', z3.ForAll([t], z3.Implies(z3.And(0 <= t, t < k), Ts.arr[t] == cheb(t, x)),
                                                                        patterns=[Ts.arr[t]]))]

    ex = U.executor(fn, loops={0: {'inv': inv}}, axioms=CHEB)
    st.vars.update(X=X, m=m, kind=VStr('cheb'), ones_func=VFunc('ones_func', ones_func))
    res = U.run(ex, st, pre=[m >= 1, sh[0] >= 1])
    U.cover('precondition-satisfiable', U.pre, axioms=CHEB)
    kk = z3.Int('kk')
    for p, o in res:
        if o.kind != 'return':
            U.post('no-exception-for-the-Chebyshev-kind', p, False, axioms=CHEB)
            continue
        Ts = p.deref(o.value)
        U.post('one-row-per-polynomial', p, Ts.n == m, axioms=CHEB)
        U.post('row-k-is-T_k(X)', p, z3.Implies(z3.And(0 <= kk, kk < m), Ts.arr[kk] == cheb(kk, x)), axioms=CHEB)
        U.canary('canary-all-rows-are-ones', p, z3.Implies(z3.And(0 <= kk, kk < m), Ts.arr[kk] == 1), axioms=CHEB)
