"""Spec vocabulary shared by the sidecar contracts (DESIGN.md section 2)."""
import z3
from ttvc.symex import VOpt, VStr, VRec, VSeq, VArr, VRef, NONE, Z, strcode
from ttvc import theory as T
from ttvc import models as M

STOP_REASONS = ('e_vld', 'e', 'nswp', 'm', 'func', 'cb', 'conv')


def opt_real(name):
    return VOpt(z3.Bool(name + '_none'), z3.Real(name))


def opt_int(name):
    return VOpt(z3.Bool(name + '_none'), z3.Int(name))


def opt_str(name):
    return VOpt(z3.Bool(name + '_none'), VStr(z3.Int(name + '_str')))


def as_opt(v):
    """Normalise None / plain value / optional to a VOpt."""
    if isinstance(v, VOpt):
        return v
    if v is NONE:
        return VOpt(z3.BoolVal(True), VStr(z3.IntVal(0)))
    return VOpt(z3.BoolVal(False), v)


def as_opt_num(v):
    """Normalise None / number / optional number to a VOpt with a numeric value."""
    if isinstance(v, VOpt):
        return v
    if v is NONE:
        return VOpt(z3.BoolVal(True), z3.IntVal(0))
    return VOpt(z3.BoolVal(False), Z(v))


def stop_is(v, reason):
    """info['stop'] == reason  (v: VOpt of VStr)."""
    v = as_opt(v)
    return z3.And(z3.Not(v.isnone), v.val.code == strcode(reason))


def stop_in(v, reasons):
    v = as_opt(v)
    return z3.And(z3.Not(v.isnone), z3.Or([v.val.code == strcode(r) for r in reasons]))


def same_opt(a, b):
    """Two optional values are equal (both None or both the same value)."""
    if not (isinstance(a, VStr) or isinstance(b, VStr) or (isinstance(a, VOpt) and isinstance(a.val, VStr))
            or (isinstance(b, VOpt) and isinstance(b.val, VStr))):
        a, b = as_opt_num(a), as_opt_num(b)
    a, b = as_opt(a), as_opt(b)
    av = a.val.code if isinstance(a.val, VStr) else a.val
    bv = b.val.code if isinstance(b.val, VStr) else b.val
    return z3.And(a.isnone == b.isnone, z3.Implies(z3.Not(a.isnone), av == bv))


def info_record(st, prefix='info', with_m=True):
    """The `info` dict of cross / als / als_func as a record of symbolic fields."""
    f = {'stop': opt_str(prefix + '_stop'), 'e': z3.Real(prefix + '_e'), 'e_vld': z3.Real(prefix + '_e_vld'),
         'nswp': z3.Int(prefix + '_nswp'), 't': z3.Real(prefix + '_t'), 'r': z3.Real(prefix + '_r')}
    if with_m:
        f.update({'m': z3.Int(prefix + '_m'), 'm_cache': z3.Int(prefix + '_m_cache'),
                  'm_max': opt_int(prefix + '_m_max'), 'with_cache': z3.Bool(prefix + '_with_cache')})
    return st.alloc(VRec(f)), dict(f)


def tt_param(st, name, d=None):
    """A TT-tensor parameter: symbolic list of cores.  Returns (ref, arr, d)."""
    arr = z3.Const(name, T.TT)
    d = d if d is not None else z3.Int('d_' + name)
    ref = st.alloc(VSeq(arr, d, M.mk_core, tag='core'))
    return ref, arr, d


def core_param(name):
    t = z3.Const(name, T.Core)
    return M.mk_core(t), t


def mat_param(name):
    t = z3.Const(name, T.Mat)
    return M.mk_mat(t), t
