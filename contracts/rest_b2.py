"""Sidecar contract for ANOVA.build_2 of teneva/anova.py (C13: conditional means per pair of modes; C10: the cache of masks is per call).

Data as in contracts/anova_more.py: I_trn is the (N x d) integer matrix with columns ICOL[k], y_trn the real vector y of length N;
self.domain is the list of d integer vectors dmv(k) = DARR(DC[k]) of lengths dml(k) = DLEN(DC[k]) (the coded list of ANOVA.build, unit
anova_more.ANOVA.build), self.f0 a real, self.f1 the list of d first-order tables F1[k] with key sets DOM1[k] (unit anova_more.ANOVA.build_1).
Spec symbols ccnt2 / csum2 / cmean2 / tri / pos: ttvc/mx_rest_b2.py.

unit rest_b2.ANOVA.build_2 - the real four-loop nest with symbolic d, N and domains.  Proved, for every d >= 1:
  * self.f2 is assigned a NEW list (whatever self.f2 was before - here an arbitrary list of pair tables - is dropped) of d(d-1)/2 tables;
  * storage order: the table of the pair of modes k1 < k2 sits at position  pos(d, k1, k2) = tri(d, k1) + k2 - k1 - 1,  and this is the
    position pair_num_to_num(k1, k2) returns (2 pos = k1 (2d - 3 - k1) + 2 (k2 - 1), the statement of unit anova.ANOVA.pair_num_to_num;
    derived from the closed form 2 tri(d, a) = a (2d - 1 - a), itself proved by induction);
  * that table has every pair (x1 in domain[k1], x2 in domain[k2]) as a key, every key (x1, x2) consists of observed values of the two
    modes, and
        f2[pos][x1, x2] = 0                                                   if no sample carries the pair (ccnt2(..) = 0),
                        = cmean2(y, ICOL[k1], x1, ICOL[k2], x2, N) - f0 - f1[k1][x1] - f1[k2][x2]       otherwise
    (cmean2 = the mean of y over the samples s with I[s, k1] = x1 and I[s, k2] = x2; its defining equation mean * count = sum is a
    separate quantifier-free obligation);
  * C10 / the cache of masks: `cache` is a dict created empty inside the call (a fresh heap object; nothing is read from or written to
    the object or an argument), it is keyed by PAIRS (mode, value) only, and whatever is stored under (k, x) is the mask
    I_trn[:, k] == x of full length N (loop invariant `cached-masks-are-the-masks-of-their-(mode, value)-keys`: a cache keyed by the
    value alone or by the wrong mode breaks it);
  * f0 / f1 / domain / I_trn / y_trn are not modified, no other attribute is written, the result is None, no exception (KeyError of
    the f1 lookups and the empty-mean case are excluded by proved obligations).
Preconditions (class invariants established by ANOVA.build / build_1, see the units named above): N >= 1, every point of domain[k]
occurs in column k and is a key of f1[k].
NOT covered: floating-point rounding of the means (A-REAL); np.unique-sortedness of the domain is not needed and not used.
"""
import z3
from ttvc.units import unit
from ttvc.symex import VRec, VSeq, VRef, NONE, Z
from ttvc import models as M, theory as T
from ttvc import mx_anova as XAN
from ttvc import mx_rest_b2 as XB2
from contracts import anova as CA, anova_more as CAM

b2_AX = T.axioms('rest_b2_csum2', 'rest_b2_sym', 'rest_b2_tri')


def b2_value(y, ICOL, N, f0, F1, a, x1, b, x2):
    """the entry of the pair table of the modes (a, b) at the pair of values (x1, x2)"""
    return z3.If(XB2.b2_ccnt2(ICOL[a], x1, ICOL[b], x2, N) == 0, z3.RealVal(0),
                 XB2.b2_cmean2(y, ICOL[a], x1, ICOL[b], x2, N) - f0 - F1[a][x1] - F1[b][x2])


def b2_tab_facts(dom, val, a, b, dmv, dml, y, ICOL, N, f0, F1, t1, t2, x1, x2):
    """(keys, values) of `the dict (dom, val) is the pair table of the modes (a, b)`, open in t1, t2 / x1, x2"""
    keys = z3.Implies(z3.And(0 <= t1, t1 < dml(a), 0 <= t2, t2 < dml(b)), dom[dmv(a)[t1]][dmv(b)[t2]])
    vals = z3.Implies(dom[x1][x2], z3.And(XAN.ccnt(ICOL[a], x1, N) >= 1, XAN.ccnt(ICOL[b], x2, N) >= 1,
                                          val[x1][x2] == b2_value(y, ICOL, N, f0, F1, a, x1, b, x2)))
    return keys, vals


@unit('rest_b2.ANOVA.build_2', props=('C13', 'C10'))
def b2_u_build_2(U):
    fn = U.func('anova', 'ANOVA.build_2')
    CAM.expect_for_loops(fn, 4)
    st = U.state()
    N, d, nold = z3.Ints('N d nold')
    f0 = z3.Real('f0')
    I_trn, ICOL, y_trn, y = CAM._data(st, N, d)
    DC = z3.Const('domain', XAN.IA)
    dmv, dml = (lambda k: XAN.DARR(DC[k])), (lambda k: XAN.DLEN(DC[k]))
    domref = XAN.ivec_seq(None, st, DC, d)
    F1, DOM1 = z3.Const('f1', XAN.RAA), z3.Const('dom1', CAM.BAA)
    f1ref = CAM._f1_tables(st, F1, DOM1, d)
    oldf2 = XB2.b2_pair_table_seq(None, st, z3.Const('f2old', XAN.IA), nold)
    fields0 = {'domain': domref, 'f0': f0, 'f1': f1ref, 'f2': oldf2}
    selfrec = st.alloc(VRec(fields0))
    heap0 = set(st.heap)
    aq, bq, t1q, t2q, x1q, x2q, arq, kq, tq, mq = z3.Ints('a!q b!q t1!q t2!q x1!q x2!q ar!q k!q t!q m!q')
    pos = lambda a, b: XB2.b2_pos(d, a, b)
    e1, e2 = (lambda m: XB2.b2_e1(d, m)), (lambda m: XB2.b2_e2(d, m))

    def facts(dom, val, a, b, t1=t1q, t2=t2q, x1=x1q, x2=x2q):
        return b2_tab_facts(dom, val, a, b, dmv, dml, y, ICOL, N, f0, F1, t1, t2, x1, x2)

    def f2_of(s):
        ref = s.deref(s.vars['self']).fields.get('f2')
        o = s.deref(ref) if isinstance(ref, VRef) else None
        if not (isinstance(o, VSeq) and o.tag == 'tables2'):
            raise M.ContractMismatch('self.f2 is not the list of pair tables')
        return o

    def cache_of(s):
        c = s.deref(s.vars.get('cache'))
        if not isinstance(c, XB2.b2_MaskCache):
            raise M.ContractMismatch('cache is not the dict of masks')
        return c

    def cur_of(s):
        c = s.deref(s.vars.get('f2_curr'))
        if not isinstance(c, XB2.b2_PairTab):
            raise M.ContractMismatch('f2_curr is not a dict from pairs of indices to reals')
        return c

    def mode(s, name):
        v = s.vars.get(name)
        if not M.is_intsort(v):
            raise M.ContractMismatch(f'{name} is not an integer')
        return Z(v)

    def cache_ok(c):
        h = c.has[arq][aq][bq]
        return ('cached-masks-are-the-masks-of-their-(mode, value)-keys',
                z3.ForAll([arq, aq, bq], z3.Implies(h, z3.And(arq == 2, 0 <= aq, aq < d, c.col[arq][aq][bq] == ICOL[aq], c.xv[arq][aq][bq] == bq,
                                                              c.ln[arq][aq][bq] == N)), patterns=[h]))

    def tables_ok(F, done):
        """every stored table (position m) is the pair table of the modes (e1(d, m), e2(d, m)) of the m-th pair of the enumeration, and
        the processed pairs (`done(a, b)`) have their positions inside the list"""
        c = F.arr[mq]
        rngm = z3.And(0 <= mq, mq < F.n)
        keys, vals = facts(XAN.T2DOM(c), XAN.T2VAL(c), e1(mq), e2(mq))
        return [('processed-pairs-sit-at-their-positions',
                 z3.ForAll([aq, bq], z3.Implies(z3.And(0 <= aq, aq < bq, bq < d, done(aq, bq)), z3.And(0 <= pos(aq, bq), pos(aq, bq) < F.n)), patterns=[pos(aq, bq)])),
                ('every-pair-of-observed-values-is-a-key',
                 z3.ForAll([mq, t1q, t2q], z3.Implies(rngm, keys), patterns=[z3.MultiPattern(F.arr[mq], dmv(e1(mq))[t1q], dmv(e2(mq))[t2q])])),
                ('every-key-holds-zero-or-the-conditional-mean-minus-the-lower-order-terms',
                 z3.ForAll([mq, x1q, x2q], z3.Implies(rngm, vals), patterns=[XAN.T2DOM(c)[x1q][x2q], XAN.T2VAL(c)[x1q][x2q]]))]

    def inv0(ex, s, j):                      # j = k1: all pairs with a smaller first mode are done
        F = f2_of(s)
        return [('one-table-per-processed-pair', F.n == XB2.b2_tri(d, j)), cache_ok(cache_of(s))] + tables_ok(F, lambda a, b: a < j)

    def inv1(ex, s, j):                      # k2 = k1 + 1 + j
        F, k1 = f2_of(s), mode(s, 'k1')
        return [('first-mode-in-range', z3.And(0 <= k1, k1 < d)), ('next-table-goes-to-the-position-of-the-current-pair', F.n == pos(k1, k1 + 1 + j)),
                cache_ok(cache_of(s))] + [(l + '(kept)', g) for l, g in tables_ok(F, lambda a, b: z3.Or(a < k1, z3.And(a == k1, b < k1 + 1 + j)))]

    def cur_ok(s, k1, k2, rows, cols_):
        """the table under construction: keys for the processed rows (all columns) and for `cols_` columns of the current row"""
        cur = cur_of(s)
        keys, vals = facts(cur.dom, cur.val, k1, k2)
        out = [('processed-pairs-of-values-are-keys', z3.ForAll([t1q, t2q], z3.Implies(t1q < rows, keys), patterns=[z3.MultiPattern(dmv(k1)[t1q], dmv(k2)[t2q])])),
               ('every-key-holds-zero-or-the-conditional-mean-minus-the-lower-order-terms(current)',
                z3.ForAll([x1q, x2q], vals, patterns=[cur.dom[x1q][x2q], cur.val[x1q][x2q]]))]
        if cols_ is not None:
            out.insert(1, ('processed-values-of-the-current-row-are-keys',
                           z3.ForAll([t2q], z3.Implies(z3.And(0 <= t2q, t2q < cols_), cur.dom[dmv(k1)[rows]][dmv(k2)[t2q]]), patterns=[dmv(k2)[t2q]])))
        return out

    def inv2(ex, s, j):                      # j = number of processed points of domain[k1]
        k1, k2 = mode(s, 'k1'), mode(s, 'k2')
        return [('modes-in-range', z3.And(0 <= k1, k1 < k2, k2 < d)), cache_ok(cache_of(s))] + cur_ok(s, k1, k2, j, None)

    def inv3(ex, s, j):                      # j = number of processed points of domain[k2]; the row is that of loop 2
        k1, k2, row = mode(s, 'k1'), mode(s, 'k2'), s.ghost['_j2']
        x1 = s.vars.get('x1')
        if not M.is_intsort(x1):
            raise M.ContractMismatch('x1 is not an integer')
        return [('modes-in-range', z3.And(0 <= k1, k1 < k2, k2 < d)), ('row-in-range', z3.And(0 <= row, row < dml(k1))),
                ('x1-is-the-current-point-of-the-first-mode', Z(x1) == dmv(k1)[row]), cache_ok(cache_of(s))] + cur_ok(s, k1, k2, row, j)

    def hook(ex, h, pre_, j):
        XAN.havoc_attr(ex, h, 'self', 'f2')

    ex = U.executor(fn, loops={0: {'inv': inv0, 'havoc_hook': hook}, 1: {'inv': inv1, 'havoc_hook': hook}, 2: {'inv': inv2}, 3: {'inv': inv3}},
                    callees={'np.mean': XB2.b2_np_mean}, axioms=b2_AX,
                    type_hints={'self.f2': lambda ex_, s_: XB2.b2_pair_table_seq(ex_, s_), 'cache': XB2.b2_dict_hint(XB2.b2_mask_cache),
                                'f2_curr': XB2.b2_dict_hint(XB2.b2_pair_table)})
    ex.anova, ex.rest_b2, ex.attr_havoc = True, True, {'self.f2'}
    ex.mode = 'ematch'
    st.vars.update(self=selfrec, I_trn=I_trn, y_trn=y_trn)
    pre = [N >= 1, d >= 1, nold >= 0,
           z3.ForAll([kq], z3.Implies(z3.And(0 <= kq, kq < d), dml(kq) >= 0), patterns=[DC[kq]]),
           z3.ForAll([kq, tq], z3.Implies(z3.And(0 <= kq, kq < d, 0 <= tq, tq < dml(kq)),
                                          z3.And(XAN.ccnt(ICOL[kq], dmv(kq)[tq], N) >= 1, DOM1[kq][dmv(kq)[tq]])), patterns=[dmv(kq)[tq]])]
    res = U.run(ex, st, pre=pre)
    U.cover('precondition-satisfiable', U.pre, axioms=b2_AX)

    # closed form of the number of pairs with a smaller first mode, by induction over the first mode (constants: arbitrary d, a)
    dd, aa = z3.Ints('d!l a!l')
    closed = lambda d_, a_: 2 * XB2.b2_tri(d_, a_) == a_ * (2 * d_ - 1 - a_)
    U.lemma('pairs-with-a-smaller-first-mode: 2 tri(d, a) = a (2d - 1 - a).base', [XB2.b2_tri(dd, 0) == 0], closed(dd, z3.IntVal(0)), qf=True, kind='lemma-base')
    U.lemma('pairs-with-a-smaller-first-mode: 2 tri(d, a) = a (2d - 1 - a).step',
            [aa >= 0, closed(dd, aa), XB2.b2_tri(dd, aa + 1) == XB2.b2_tri(dd, aa) + dd - 1 - aa], closed(dd, aa + 1), qf=True, kind='lemma-step')

    kk1, kk2, pp, jj1, jj2, xx1, xx2, ar_, a_, b_ = z3.Ints('kk1 kk2 pp jj1 jj2 xx1 xx2 ar_ a_ b_')
    for p, o in res:
        if o.kind != 'return':
            U.post('no-exception', p, False, axioms=b2_AX, mode='ematch')
            continue
        F = f2_of(p)
        f = p.deref(selfrec).fields
        U.post('returns-None', p, z3.BoolVal(o.value is NONE))
        U.post('f2-is-a-new-list-and-no-other-attribute-is-written', p,
               z3.BoolVal(set(f) == set(fields0) and isinstance(f['f2'], VRef) and f['f2'].oid not in heap0 and all(f[k] is fields0[k] for k in ('domain', 'f0', 'f1'))))
        U.post('constant-term-first-order-tables-domain-and-data-untouched', p,
               z3.BoolVal(p.heap[domref.oid].arr is DC and p.heap[f1ref.oid].arr is F1 and p.vars.get('I_trn') is I_trn and p.vars.get('y_trn') is y_trn
                          and p.heap[oldf2.oid].n is nold))
        cref = p.vars.get('cache')
        U.post('mask-cache-is-a-dict-created-in-this-call-(nothing-carried-over)', p,
               z3.BoolVal(isinstance(cref, VRef) and cref.oid not in heap0 and isinstance(p.heap[cref.oid], XB2.b2_MaskCache)))
        c = cache_of(p)
        U.post('every-cached-mask-is-the-mask-of-its-(mode, value)-key', list(p.pc) + [c.has[ar_][a_][b_]],
               z3.And(ar_ == 2, 0 <= a_, a_ < d, c.col[ar_][a_][b_] == ICOL[a_], c.xv[ar_][a_][b_] == b_, c.ln[ar_][a_][b_] == N), axioms=b2_AX, mode='ematch')
        # number of tables: instances of the closed form (proved above for arbitrary constants) and of the definition of tri at a = d - 1
        inst = [z3.Implies(a >= 0, closed(d, a)) for a in (d - 1, d)] + [XB2.b2_tri(d, d) == XB2.b2_tri(d, d - 1) + d - 1 - (d - 1)]
        U.post('number-of-tables-is-d(d-1)/2', [h for h in p.pc] + inst, 2 * F.n == d * (d - 1), qf=True)
        # storage position = what pair_num_to_num returns
        rng = [0 <= kk1, kk1 < kk2, kk2 < d]
        at_pos = pp == pos(kk1, kk2)
        U.lemma('table-position-of-a-pair-of-modes-is-the-one-pair_num_to_num-returns',
                rng + [2 * pp == CA.pair_number_twice(d, kk1, kk2), closed(d, kk1), pos(kk1, kk2) == XB2.b2_tri(d, kk1) + kk2 - kk1 - 1], at_pos, qf=True)
        ctx = list(p.pc) + rng + [2 * pp == CA.pair_number_twice(d, kk1, kk2), at_pos]
        tab = F.arr[pp]
        keys, vals = facts(XAN.T2DOM(tab), XAN.T2VAL(tab), kk1, kk2, jj1, jj2, xx1, xx2)
        U.post('position-in-range', ctx, z3.And(0 <= pp, pp < F.n), axioms=b2_AX, mode='ematch')
        U.post('every-pair-of-observed-values-of-the-two-modes-is-a-key-of-their-table', ctx, keys, axioms=b2_AX, mode='ematch')
        U.post('every-key-is-a-pair-of-observed-values-and-holds-zero-or-the-conditional-mean-minus-f0-and-the-first-order-terms', ctx, vals, axioms=b2_AX, mode='ematch')
        cnt = XB2.b2_ccnt2(ICOL[kk1], xx1, ICOL[kk2], xx2, N)
        entry = XAN.T2VAL(tab)[xx1][xx2]
        U.post('non-empty-case: (entry + f0 + f1[k1][x1] + f1[k2][x2]) * count = sum-of-y-over-the-samples-that-carry-the-pair',
               [cnt >= 1, entry == b2_value(y, ICOL, N, f0, F1, kk1, xx1, kk2, xx2)],
               (entry + f0 + F1[kk1][xx1] + F1[kk2][xx2]) * z3.ToReal(cnt) == XB2.b2_csum2(y, ICOL[kk1], xx1, ICOL[kk2], xx2, N), qf=True,
               extra=[z3.Implies(cnt >= 1, XB2.b2_cmean2(y, ICOL[kk1], xx1, ICOL[kk2], xx2, N) * z3.ToReal(cnt) == XB2.b2_csum2(y, ICOL[kk1], xx1, ICOL[kk2], xx2, N))])
        U.canary('canary-no-keys', ctx + [0 <= jj1, jj1 < dml(kk1), 0 <= jj2, jj2 < dml(kk2)], z3.Not(XAN.T2DOM(tab)[dmv(kk1)[jj1]][dmv(kk2)[jj2]]), axioms=b2_AX)
        U.canary('canary-entries-are-zero', ctx + [XAN.T2DOM(tab)[xx1][xx2]], entry == 0, axioms=b2_AX)
        U.canary('canary-entries-are-never-zero', ctx + [XAN.T2DOM(tab)[xx1][xx2]], entry != 0, axioms=b2_AX)
        U.canary('canary-no-tables', p, F.n == 0, axioms=b2_AX)
        U.canary('canary-cache-stays-empty', list(p.pc) + [d >= 2, dml(0) >= 1, dml(1) >= 1], z3.Not(c.has[2][0][dmv(0)[0]]), axioms=b2_AX)


# ----------------------------------------------------------------------------------------------
# Hand-made mutants (MUT_BASE=/tmp/base tools/mut.sh anova.py '<sed>' rest_b2.ANOVA.build_2) and the named obligation that reports each.
# R abbreviates the sed address '/def build_2/,/def calc(/' that restricts the edit to build_2.
#
# cache of masks (C10)
#   R s/cache\[k1, x1\] = idx1/cache[k2, x1] = idx1/            (wrong mode)       inv-keep loop3.cached-masks-are-the-masks-of-their-(mode, value)-keys, loop3.every-key-holds-..(current)
#   R s/cache\[k1, x1\]/cache[x1]/                               (value only)       inv-keep loop3.cached-masks-are-the-masks-of-their-(mode, value)-keys
#   R s/cache\[k2, x2\] = idx2/cache[k2, x2] = idx1/            (wrong mask)       inv-keep loop3.cached-masks-are-..
#   R s/idx2 = cache\[k2, x2\]/idx2 = cache[k1, x2]/            (wrong lookup)     inv-keep loop3.every-key-holds-zero-or-the-conditional-mean-minus-the-lower-order-terms(current)
#   R s/idx2 = I_trn\[:, k2\] == x2/idx2 = I_trn[:, k1] == x2/                     inv-keep loop3.cached-masks-are-.., loop3.every-key-holds-..(current)
#   /self.f2.append(f2_curr)/a\        self.cache = cache         (cache kept on the object)   post f2-is-a-new-list-and-no-other-attribute-is-written (refuted)
# values
#   R s/- self.f1\[k2\]\[x2\]/+ self.f1[k2][x2]/                                  inv-keep loop3.every-key-holds-..(current)
#   R s/np.mean(y_trn\[idx\]) - self.f0/np.mean(y_trn[idx])/                       inv-keep loop3.every-key-holds-..(current)
#   R s/if idx.sum() == 0:/if idx.sum() != 0:/                                      safety mean-of-a-non-empty-selection, inv-keep loop3.every-key-holds-..(current)
#   R s/value = 0\./value = 1./                                                     inv-keep loop3.every-key-holds-..(current)
#   R s/idx = idx1 & idx2/idx = idx1 \& idx1/                                       inv-keep loop3.every-key-holds-..(current)
#   R s/f2_curr\[x1, x2\] = value/f2_curr[x2, x1] = value/                         inv-keep loop3.processed-values-of-the-current-row-are-keys, loop3.every-key-holds-..(current)
# pairs of modes / storage order
#   R s/start=k1+1)/start=k1)/                                                      inv-init loop2.modes-in-range, safety key-present, inv-keep loop3 / loop2 / loop1 (keys, values)
#   R s/enumerate(self.domain\[k1+1:\], start=k1+1)/enumerate(self.domain[k1:], start=k1)/     inv-init loop2.modes-in-range, inv-keep loop1.every-..(kept), loop0.one-table-per-processed-pair
#   R s/enumerate(self.domain\[:-1\])/enumerate(self.domain[:-2])/                 safety slice-in-range, post number-of-tables-is-d(d-1)/2 (refuted), position-in-range, the two table posts
#   R s/        self.f2 = \[\]/        pass/                     (not rebuilt)      inv-init loop0.one-table-per-processed-pair (+ two more), post f2-is-a-new-list-.. (refuted), post constant-term-..-untouched (refuted)
# quiet (equivalent, everything proved): enumerate(self.domain) for enumerate(self.domain[:-1]); idx2 & idx1; cache = {}; 0 == idx.sum(); the two f1 terms
#   subtracted in the other order; y_trn[idx].mean(); range-based loops `for k1 in range(len(self.domain) - 1): dm1 = self.domain[k1]` (both levels);
#   no cache for idx1 (`idx1 = I_trn[:, k1] == x1` only).
# undecided (Unsupported / ContractMismatch): `if (k1, x1) in cache:` instead of try / except; `except (KeyError, IndexError):`; idx1 | idx2; a mask `!=`
#   stored into the cache; `for x2 in dm2[::-1]`; y_trn[idx].sum() / idx.sum(); self.f2.append moved out of the loop over k2 (unbound name).
