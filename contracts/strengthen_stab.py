"""Strengthened C16 contracts (stabilised arithmetic): additional units for functions that already have units in contracts/act.py and
contracts/transformation.py.  What is added is what the property text says beyond the exponent bookkeeping:

  * "return a mantissa of MODERATE SIZE": the mantissa mul_scalar(use_stab=True) returns has modulus in [1, 2) (or is below the 1e-100
    threshold of core_stab), and - the reason why the stabilised product "stays finite where plain floats overflow" - the running product
    has been rescaled after EVERY core: at the head of every pass max|v| < 2, so that every product v @ G formed by the loop is bounded
    entrywise by 2 * rows(G) * max|G|, independently of how many cores came before and of how the scale is distributed over them.
    Overflow itself is invisible under A-REAL (exact reals); this structural bound is what is expressible, and it is what a change that
    skips the rescaling of one core breaks.
  * "the relative accuracy ... is the true relative distance (or the documented saturation values)": accuracy must RETURN - the float
    power 2.**(p1 - p2) of two Python floats raises OverflowError for an exponent >= 1024, so the power may only be formed where the
    saturation guards have bounded the exponent difference.  (This is partiality of Python's `**`, a domain condition like division by
    zero, not rounding.)

Units: core.core_stab.matrix.maxabs (the callee contract used below), act_two.mul_scalar.stab.moderate, act_two.accuracy.pow_range.
NOT covered: the bound on the product v @ G itself (a three-factor nonlinear inequality; the invariant gives its only non-trivial
premise), norm(use_stab=True) (its mantissa is sqrt of the mul_scalar mantissa; the exponent halving is in act_one.norm.stab), floating
point rounding (A-REAL).
"""
import z3
from ttvc.units import unit
from ttvc.symex import VSeq, VArr, VTuple, Z, quick_unsat
from ttvc import models as M, theory as T
from ttvc import mx_stab2 as X
from contracts import spec as S
from contracts import transformation as TR
from contracts.act import same_shape

THR = z3.RealVal('1e-100')            # default threshold of core_stab


def moderate(m, thr):
    """max-modulus m of a stabilised array: normalised into [1, 2), or below the threshold (then it was left alone)."""
    return z3.Or(z3.And(m >= 1, m < 2), z3.And(m >= 0, m <= thr))


# ----------------------------------------------------------------------------------------------
# core.core_stab on a matrix: the max-modulus of the mantissa is that of the input divided by 2^p, hence in [1, 2) when rescaled

AXS = T.axioms('shape', 'pow2r')


@unit('core.core_stab.matrix.maxabs', props=('C16',))
def u_core_stab_maxabs(U):
    fn = U.func('core', 'core_stab')
    ex = U.executor(fn, axioms=AXS)
    ex.stab2_maxabs = True
    st = U.state()
    G, g = S.mat_param('G')
    p0, thr = z3.Int('p0'), z3.Real('thr')
    st.vars.update(G=G, p0=p0, thr=thr)
    res = U.run(ex, st, pre=[thr > 0, T.rows(g) >= 1, T.cols(g) >= 1])
    U.cover('precondition-satisfiable', U.pre, axioms=AXS)
    for p, o in res:
        if o.kind != 'return':
            U.post('no-exception', p, False)
            continue
        if len(p.ghost.get('maxabs', [])) != 1:
            # the contract is keyed to ONE evaluation of `np.max(np.abs(G))` (hook stab2_maxabs); if the source computes the
            # max-modulus in another way (e.g. `np.abs(G).max()`) the hook has not seen it: the contract does not talk about this code
            raise M.ContractMismatch('core_stab: the max-modulus of the input is not computed by one np.max(np.abs(.)) call')
        ok = isinstance(o.value, VTuple) and len(o.value.items) == 2 and isinstance(o.value.items[0], VArr) and o.value.items[0].t is not None
        U.post('returns-array-and-exponent-after-one-max-modulus', p, z3.BoolVal(ok))
        if not ok:
            continue
        Q, pe = o.value.items
        vmax = p.ghost['maxabs'][0][1]
        mq = X.maxabsM(Q.t)
        U.post('threshold-test-is-on-the-max-modulus-of-the-input', p, vmax == X.maxabsM(g), axioms=AXS)
        e = Z(pe) - p0
        c = T.pow2r(z3.ToReal(e))
        hints = [c > 0, X.scale_inst(1 / c, g), X.maxabsM(g) >= 0]
        for arg, fl in p.ghost.get('floor', []):
            r0, r1 = z3.ToReal(fl), z3.ToReal(fl + 1)
            hints += [T.pow2r(r0) > 0, T.pow2r(r0 + 1) == 2 * T.pow2r(r0), r1 == r0 + 1,
                      z3.Implies(vmax > 0, (r0 <= T.log2(vmax)) == (T.pow2r(r0) <= vmax)),
                      z3.Implies(vmax > 0, (r1 <= T.log2(vmax)) == (T.pow2r(r1) <= vmax))]
        hy = list(p.pc) + hints
        U.post('above-threshold: mantissa-max-modulus-is-input-max-modulus-over-2^p', hy, z3.Implies(vmax > thr, mq * c == vmax), qf=True)
        U.post('above-threshold: mantissa-max-modulus-in-[1,2)', hy, z3.Implies(vmax > thr, z3.And(mq >= 1, mq < 2)), qf=True)
        U.post('at-or-below-threshold: array-and-max-modulus-unchanged', hy, z3.Implies(vmax <= thr, z3.And(Q.t == g, mq <= thr)), qf=True)
        U.canary('canary-mantissa-always-normalised', hy, mq >= 1)
    U.canary('canary-always-rescaled', U.pre, False, axioms=AXS)


def call_core_stab_maxabs(ex, st, args, kwargs, node):
    """Call-site contract of core_stab(v, p) on a matrix with the default threshold: the postconditions of core.core_stab.matrix
    (contracts/transformation.py: stab_post) plus those of core.core_stab.matrix.maxabs above.  As in the stock handler the two cases are
    followed as separate paths."""
    if len(args) != 2 or kwargs:
        raise M.ContractMismatch('core_stab is not called as core_stab(v, p)')
    G = st.deref(args[0])
    p0 = Z(ex.need_num(st, args[1], node))
    if not (isinstance(G, VArr) and G.ndim == 2 and G.t is not None and G.tag == 'mat'):
        raise M.ContractMismatch('core_stab: the argument is not a matrix with a denotation')
    if not M.is_intsort(p0):
        ex.oblige(st, 'call-pre', 'core_stab: integer exponent', False, node)
    ex.oblige(st, 'call-pre', 'core_stab: non-empty matrix', z3.And(Z(G.shape[0]) >= 1, Z(G.shape[1]) >= 1), node)
    vmax = X.maxabsM(G.t)
    st.assume(vmax >= 0)
    st.ghost['stab_calls'] = st.ghost.get('stab_calls', 0) + 1
    if ex.decide(st, vmax <= THR, node):
        return VTuple([G, p0])
    q, p = ex.fresh('Qstab', T.Mat), ex.fresh_int('pstab')
    for lbl, f in TR.stab_post(G.t, p0, THR, q, p, vmax).items():
        st.assume(f)
    st.assume(X.maxabsM(q) >= 1, X.maxabsM(q) < 2)
    return VTuple([M.mk_mat(q), p])


# ----------------------------------------------------------------------------------------------
# act_two.mul_scalar(use_stab=True): every product is formed with a rescaled left operand; the mantissa returned is of moderate size
#
# The statement is attached to the EVENT "v @ G is formed" (hook of ttvc/mx_stab2.py), not to a place in the loop: a source that rescales
# at the head of a pass (and once after the loop) instead of at its end meets it as well.  The loop invariant is chosen accordingly
# (candidate-invariant selection, sound whatever the choice because every clause that is used is also proved): if the running product is
# already of moderate size where the loop is cut (after the peeled first pass), "max|v| in [1, 2) or <= 1e-100 after every core" is
# the invariant and must be kept by every pass; if it is not, the invariant is silent about magnitudes and the products formed by the body
# have to justify their left operand on their own.

AXM = T.axioms('shape', 'mulI', 'core', 'stab2_lin')


@unit('act_two.mul_scalar.stab.moderate', props=('C16',))
def u_mul_scalar_moderate(U):
    fn = U.func('act_two', 'mul_scalar')
    st = U.state()
    Y1, A1, d = S.tt_param(st, 'Y1', z3.Int('d'))
    Y2, A2, _ = S.tt_param(st, 'Y2', d)
    cut = {}

    def inv(ex, s, j):
        v = s.vars['v']
        if not (isinstance(v, VArr) and v.ndim == 2 and v.tag == 'mat' and v.t is not None):
            raise M.ContractMismatch('mul_scalar(): v is not a matrix after the first pass')
        m = X.maxabsM(v.t)
        out = [('accumulated-product-is-a-row-block', z3.And(T.rows(v.t) == 1, T.cols(v.t) == T.mulI(T.d2(A1[j - 1]), T.d2(A2[j - 1]))))]
        if z3.is_int_value(j):           # the call for inv-init of one peeled path: does the candidate hold where the loop is cut?
            cut['rescaled'] = quick_unsat(list(ex.axioms) + list(s.pc) + [z3.Not(moderate(m, THR))])
        if cut['rescaled']:
            out += [('accumulated-product-has-been-rescaled-after-every-core: max-modulus-below-2', m < 2),
                    ('accumulated-product-is-normalised: max-modulus-in-[1,2)-or-at-most-1e-100', moderate(m, THR))]
        return out

    def mm_hook(ex, s, l, r, node):
        if not (isinstance(l, VArr) and l.tag == 'mat' and l.t is not None):
            raise M.ContractMismatch('mul_scalar(): the left operand of @ is not a matrix with a denotation')
        ex.oblige(s, 'safety', 'left-operand-of-every-product-has-been-rescaled: max-modulus-below-2', X.maxabsM(l.t) < 2, node)

    ex = U.executor(fn, loops={0: {'inv': inv, 'peel': 1}}, callees={'core.core_stab': call_core_stab_maxabs}, axioms=AXM)
    ex.mode = 'ematch'
    ex.stab2_mm_hook = mm_hook
    st.vars.update(Y1=Y1, Y2=Y2, use_stab=True)
    res = U.run(ex, st, pre=[T.wf(A1, d), T.wf(A2, d), same_shape(A1, A2, d)])
    U.cover('precondition-satisfiable', U.pre, axioms=AXM)
    for p, o in res:
        if o.kind != 'return':
            U.post('no-exception', p, False, axioms=AXM, mode='ematch')
            continue
        ok = isinstance(o.value, VTuple) and len(o.value.items) == 2 and M.is_num(o.value.items[0]) and M.is_intsort(Z(o.value.items[1]))
        U.post('returns-mantissa-and-integer-exponent', p, z3.BoolVal(ok))
        if not ok:
            continue
        m_ = M.to_real(o.value.items[0])
        am = z3.If(m_ >= 0, m_, -m_)
        U.post('mantissa-of-moderate-size: modulus-below-2', p, am < 2, axioms=AXM, mode='ematch')
        U.post('mantissa-normalised: modulus-in-[1,2)-or-at-most-1e-100', p, moderate(am, THR), axioms=AXM, mode='ematch')
        U.canary('canary-mantissa-always-at-least-1', p, am >= 1, axioms=AXM)
        U.canary('canary-mantissa-always-tiny', p, am <= THR, axioms=AXM)


# ----------------------------------------------------------------------------------------------
# act_two.accuracy: the power 2.**(p1 - p2) is only formed where it is representable
#
# p1, p2 are the half-integer exponents of the two stabilised norms - Python floats (norm returns `p / 2` of a Python int), so
# `2.**(p1 - p2)` raises OverflowError for p1 - p2 >= 1024 (gate ex.stab2_pow of ttvc/mx_stab2.py); np.isinf(c) can never catch that.
# The property promises a value ("the true relative distance or the documented saturation values") for norms anywhere between 2^-30000
# and 2^+30000, i.e. for exponent differences far beyond 1024: the guards `p1 - p2 > 500` / `< -500` must come first.
# The callee contracts are those of contracts/act.py (_accuracy_unit): sub returns a well-formed tensor, norm(., use_stab=True) what
# unit act_one.norm.stab proves; the value of the result is the business of unit act_two.accuracy and not repeated here.

@unit('act_two.accuracy.pow_range', props=('C16',))
def u_accuracy_pow_range(U):
    fn = U.func('act_two', 'accuracy')
    AXA = T.axioms('shape', 'real', 'pow2r', 'pow2add')
    st = U.state()
    Y1, A1, d = S.tt_param(st, 'Y1', z3.Int('d'))
    Y2, A2, _ = S.tt_param(st, 'Y2', d)

    def c_sub(ex, s, a, kw, node):
        P, Q = s.deref(a[0]), s.deref(a[1])
        if not (isinstance(P, VSeq) and isinstance(Q, VSeq) and P.tag == 'core' and Q.tag == 'core'):
            raise M.ContractMismatch('accuracy(): sub is not called with two TT lists')
        ex.oblige(s, 'call-pre', 'sub: two well-formed tensors of the same shape',
                  z3.And(Q.n == P.n, T.wf(P.arr, P.n), T.wf(Q.arr, P.n), same_shape(P.arr, Q.arr, P.n)), node)
        D = ex.fresh('Dsub', T.TT)
        s.assume(T.wf(D, P.n))
        return s.alloc(VSeq(D, P.n, M.mk_core, 'core'))

    def c_norm(ex, s, a, kw, node):
        Ys = s.deref(a[0])
        stab = kw.get('use_stab', a[1] if len(a) > 1 else False)
        if not (isinstance(Ys, VSeq) and Ys.tag == 'core') or stab is not True:
            raise M.ContractMismatch('accuracy(): norm is not called as norm(<TT>, use_stab=True)')
        ex.oblige(s, 'call-pre', 'norm: well-formed tensor', T.wf(Ys.arr, Ys.n), node)
        z, h = ex.fresh_real('mant'), ex.fresh_real('halfexp')
        sq = T.ent(T.schain(Ys.arr, Ys.arr, Ys.n - 1), 0, 0)
        s.assume(z >= 0, z3.IsInt(2 * h), T.pow2r(h) > 0, z3.Implies(sq > 0, (z * T.pow2r(h)) * (z * T.pow2r(h)) == sq),
                 z3.Implies(sq <= 0, z == 0))
        s.ghost.setdefault('norms', []).append((z, h))
        return VTuple([z, h])

    ex = U.executor(fn, callees={'act_two.sub': c_sub, 'act_one.norm': c_norm}, axioms=AXA)
    ex.stab2_pow = True
    st.vars.update(Y1=Y1, Y2=Y2)
    res = U.run(ex, st, pre=[T.wf(A1, d), T.wf(A2, d), same_shape(A1, A2, d)])
    U.cover('precondition-satisfiable', U.pre, axioms=AXA)
    hi, lo = [], []
    for p, o in res:
        if o.kind != 'return':
            U.post('no-exception', p, False, axioms=AXA)
            continue
        ns = p.ghost.get('norms', [])
        if len(ns) != 2:
            raise M.ContractMismatch('accuracy(): expected exactly two calls of norm(., use_stab=True)')
        U.post('returns-a-number', p, z3.BoolVal(M.is_num(o.value)))
        (z1, p1), (z2, p2) = ns
        # is this return reachable with an exponent difference that no double power could represent?  (e-matching only, 'unknown' counts
        # as reachable - the semantics of a cover)
        hi.append(not quick_unsat(list(AXA) + list(p.pc) + [p1 - p2 == 5000]))
        lo.append(not quick_unsat(list(AXA) + list(p.pc) + [p1 - p2 == -5000]))
        U.canary('canary-every-return-has-an-exponent-difference-below-1024', p, p1 - p2 < 1024, axioms=AXA)
    # the far-apart cases are answered by a return: a power formed before the guards leaves every returning path only the differences
    # below 1024 (the obligation above is assumed after it has been reported)
    U.post('some-path-returns-for-an-exponent-difference-of-5000', [], z3.BoolVal(any(hi)))
    U.post('some-path-returns-for-an-exponent-difference-of--5000', [], z3.BoolVal(any(lo)))
    U.canary('canary-contradictory-precondition', U.pre, False, axioms=AXA)


# ----------------------------------------------------------------------------------------------
# Seeded changes and hand-made mutants (MUT_BASE=/tmp/base tools/mut.sh <file> '<sed>' <unit>); obligation that fails
#
# act_two.mul_scalar.stab.moderate
#   seeded C16-5 (first pass `continue`s before core_stab)      safety.left-operand-of-every-product-has-been-rescaled: max-modulus-below-2
#                                                                (the first product G0 @ G1 is formed from two raw factors)
#   act_two.py 's/^        if use_stab:/        if use_stab and i > 0:/'            safety.left-operand-of-every-product-has-been-rescaled...
#   act_two.py 's/^        if use_stab:/        if use_stab and i == 0:/'           inv-keep.loop0.accumulated-product-has-been-rescaled-after-every-core...
#   act_two.py 's/^        if use_stab:/        if use_stab and i < len(Y1) - 1:/'  inv-keep.loop0.accumulated-product-has-been-rescaled-after-every-core...
#   act_two.py 's/v, p = teneva.core_stab(v, p)/G, p = teneva.core_stab(G, p)/'     safety.left-operand... + inv-keep... + post.mantissa-of-moderate-size...
#   act_two.py 's/    v = v.item()/    v = 2 * v.item()/'                           post.mantissa-of-moderate-size: modulus-below-2, post.mantissa-normalised...
#   equivalent, all proved: core_stab inside the `if i == 0:` branch before `continue`; core_stab at the HEAD of every pass i > 0 and once
#   after the loop (the invariant then carries no magnitude clause, the products justify themselves); `(v @ G) * 4` before core_stab.
#   Known imprecision: when the running product is not of moderate size where the loop is cut AND the source neither rescales at the head of
#   the pass nor after the loop, the two mantissa posts are reported next to the genuine safety failure (seeded C16-5: for d >= 2 the last
#   pass does rescale, but the magnitude-free invariant cannot say so).
#
# act_two.accuracy.pow_range
#   seeded C16-2 (power hoisted above the guards)                safety.float-power-2.0**x-in-the-double-range: x-below-1024-else-OverflowError,
#                                                                post.some-path-returns-for-an-exponent-difference-of-5000, canary ... below-1024 vacuous
#   act_two.py 's/if p1 - p2 > 500:/if p1 - p2 > 5000:/'         safety.float-power-2.0**x-in-the-double-range...
#   act_two.py 's/c = 2\.\*\*(p1 - p2)/c = 2.**p1 \/ 2.**p2/'    safety.float-power-2.0**x-in-the-double-range... (2 instances; equal over the reals)
#   act_two.py '/if p1 - p2 > 500:/,+1d'                         safety.float-power-2.0**x-in-the-double-range...
#   act_two.py 's/c = 2\.\*\*(p1 - p2)/c = 2.**(3 * (p1 - p2))/' safety.float-power-2.0**x-in-the-double-range...
#   act_two.py 's/if p1 - p2 > 500:/if p2 - p1 > 500:/'          safety.float-power-2.0**x-in-the-double-range...
#   not a violation of THIS unit (and proved): guard at 1000 instead of 500 (2^1000 is a double); 2.**(p2 - p1) (wrong value: unit
#   act_two.accuracy).  Equivalent, all proved: `dp = p1 - p2; if abs(dp) > 500: return 1e299 if dp > 0 else 0.; c = 2.**dp`;
#   `c = 2.**min(p1 - p2, 600.)` above the guards.
#
# core.core_stab.matrix.maxabs
#   core.py 's/Q = G \/ 2\.\*\*p/Q = G \/ 2.**(p-1)/'            post.above-threshold: mantissa-max-modulus-in-[1,2) (refuted), ...-over-2^p
#   core.py 's/Q = G \/ 2\.\*\*p/Q = G * 2.**p/'                 post.above-threshold: mantissa-max-modulus-in-[1,2) (refuted), ...-over-2^p
#   core.py 's/if v_max <= thr:/if v_max >= thr:/'               post.at-or-below-threshold: array-and-max-modulus-unchanged (refuted), both above-threshold posts
#   core.py 's/p = int(np.floor(np.log2(v_max)))/p = int(np.floor(np.log2(v_max))) + 1/'   post.above-threshold: mantissa-max-modulus-in-[1,2) (refuted)
#   core.py 's/v_max = np.max(np.abs(G))/v_max = np.max(np.abs(2 * G))/'                   post.threshold-test-is-on-the-max-modulus-of-the-input, ...
