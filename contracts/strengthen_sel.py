"""Strengthened sidecar contracts (tier T1) for three functions whose existing units were silent on seeded property-breaking changes:

  maxvol.maxvol_rect.distinct[.no_upper_limit]   C08  the greedy row addition only ever takes a row that is not selected yet, so the
                                                      added rows are pairwise distinct and distinct from the rows delivered by maxvol
  tensors.const.zero_list                        C19  const(n, v, I_zero, i_non_zero): ValueError exactly for a conflicting request ...
  anova_sel.ANOVA.build_2                        C11  the pair tables are built without a mean over an empty selection ...

Model-table entries and spec symbols: ttvc/mx_sel.py (gates `ex.sel_marks`, `ex.sel_const`, `ex.sel_pairs`)."""
import ast
import z3
from ttvc.units import unit
from ttvc.symex import VOpt, VStr, VRec, VSeq, VArr, VFunc, VTuple, VRef, VList, VSym, VOpaque, NONE, Z
from ttvc import models as M, theory as T, lin as L
from ttvc import mx_sel as X
from contracts import spec as S
from contracts.maxvol import valid_rows

IA = X.IA
x_, y_ = z3.Ints('x!d y!d')


# ----------------------------------------------------------------------------------------------
# maxvol_rect: distinctness of the selected rows (C08: "returns between r+dr_min and min(n, r+dr_max) DISTINCT rows").
#
# The function keeps a mark vector S (1 = row still available): S = ones; S[I0] = 0 for the rows I0 delivered by maxvol; in every
# pass the row i = argmax of the residual norms RESTRICTED TO THE AVAILABLE ROWS is appended and marked.  Loop invariant (j rows added):
#   * the marks are 0 or 1 and every selected row I[x], x < r + j, is marked unavailable (S[I[x]] <= 0);
#   * the first r entries of I are still the rows delivered by maxvol;
#   * every added row differs from every row before it in I  (I[x] != I[y] for x < y, r <= y < r + j);
#   * at least n - r - j rows are still available (cntpos(S, n) >= n - r - j) - so, as long as r + j < r_max <= n, the arg-max over
#     the available rows is an available row (pigeonhole through the count; the restriction is essential: when every remaining
#     row has residual 0 the unrestricted arg-max returns row 0, a row that is selected already);
# and in every pass the obligation `the-appended-row-was-still-available`.
# Postconditions: the added rows are pairwise distinct and distinct from maxvol's rows; ALL returned rows are pairwise distinct
# provided the r rows delivered by maxvol are (maxvol's own distinctness rests on B[I] = identity in exact arithmetic and is left to
# the bounded suite: the unit maxvol.maxvol proves validity of the row numbers only).
# NOT covered: values of B (A = B A[I], B[I] = identity, row norms <= e): bounded suite.  Number of rows / limits / validity of the
# row numbers: units maxvol.maxvol_rect[.no_upper_limit] (the clauses are repeated in the invariant only as far as safety needs them).

def _rect_distinct_unit(U, dr_max_none):
    fn = U.func('maxvol', 'maxvol_rect')
    st = U.state()
    A, a = S.mat_param('A')
    n, r = T.rows(a), T.cols(a)
    e, e0, k0 = z3.Real('e'), z3.Real('e0'), z3.Int('k0')
    dr_min, dr_max = z3.Int('dr_min'), z3.Int('dr_max')
    r_min = r + dr_min
    r_max0 = n if dr_max_none else r + dr_max
    r_max = z3.If(r_max0 <= n, r_max0, n)
    AX = T.axioms('shape', 'cntpos', 'scat0')

    def parts(s):
        B, I, Sm, F, I0 = (s.vars.get(k) for k in ('B', 'I', 'S', 'F', 'I0'))
        ok = isinstance(B, VArr) and B.ndim == 2 and X._is_ivec(I) and X._is_ivec(Sm) and X._is_ivec(I0) and isinstance(F, VArr) and F.ndim == 1
        if not ok:
            raise M.ContractMismatch('maxvol_rect: B is not a matrix / I, I0 are not index vectors / S is not an integer mark vector / F not a vector')
        return B, I, Sm, F, I0

    def distinct_from_earlier(I, lo, hi):
        return z3.ForAll([x_, y_], z3.Implies(z3.And(0 <= x_, x_ < y_, lo <= y_, y_ < hi), I.t[x_] != I.t[y_]), patterns=[z3.MultiPattern(I.t[x_], I.t[y_])])

    def inv(ex, s, j):
        B, I, Sm, F, I0 = parts(s)
        if not getattr(F, 'sel_free', False):
            raise M.ContractMismatch('maxvol_rect: F is not the result of plain elementwise arithmetic')
        return [('B-has-one-column-per-selected-row', z3.And(Z(B.shape[0]) == n, Z(B.shape[1]) == r + j)),
                ('I-has-room-for-r_max-rows', Z(I.shape[0]) == r_max),
                ('selected-row-numbers-valid', valid_rows(I, n, r + j)),
                ('work-vectors', z3.And(Z(F.shape[0]) == n, Z(Sm.shape[0]) == n)),
                ('marks-are-0-or-1', z3.ForAll([x_], z3.Implies(z3.And(0 <= x_, x_ < n), z3.Or(Sm.t[x_] == 0, Sm.t[x_] == 1)), patterns=[Sm.t[x_]])),
                ('selected-rows-are-marked-unavailable', z3.ForAll([x_], z3.Implies(z3.And(0 <= x_, x_ < r + j), Sm.t[I.t[x_]] <= 0), patterns=[I.t[x_]])),
                ('first-r-rows-are-those-of-maxvol', z3.ForAll([x_], z3.Implies(z3.And(0 <= x_, x_ < r), I.t[x_] == I0.t[x_]), patterns=[I.t[x_]])),
                ('added-rows-differ-from-all-earlier-rows', distinct_from_earlier(I, r, r + j)),
                ('enough-rows-still-available', X.cntpos(Sm.t, n) >= n - r - j)]

    def hook(ex, h, pre_, j):
        F = h.vars.get('F')
        if isinstance(F, VArr):
            F.sel_free = True            # type guard of the invariant (checked at loop entry and at the end of the body)
        h.ghost['sel_marks'] = []

    def body_end(ex_, s_, o_, j_):
        if o_.kind == 'break':
            ex_.oblige(s_, 'post', 'stops-early-only-at-or-above-the-minimum-number-of-rows', r + j_ >= r_min, None, assume=False)
        elif o_.kind == 'normal':
            B, I, Sm, F, I0 = parts(s_)
            marks = [m for m in s_.ghost.get('sel_marks', []) if m[0] == 'S']
            # stated for the element-wise marking `S[i] = c` of the current source; a pass that marks differently (or not at all) is
            # judged by the invariant alone
            for _, S_old, pos in marks[:1] if len(marks) == 1 else []:
                ex_.oblige(s_, 'post', 'the-appended-row-is-the-marked-one-and-was-still-available', z3.And(I.t[r + j_] == pos, S_old[pos] > 0), None, assume=False)

    ex = U.executor(fn, loops={0: {'inv': inv, 'body_end': body_end, 'havoc_hook': hook}}, axioms=AX, lenient=True)
    ex.sel_marks = True
    st.vars.update(A=A, e=e, dr_min=dr_min, dr_max=NONE if dr_max_none else dr_max, e0=e0, k0=k0)
    res = U.run(ex, st, pre=[n >= 1, r >= 1, e >= 1, e0 >= 1, k0 >= 0, n > r])
    U.cover('precondition-satisfiable', U.pre, axioms=AX)
    nret = 0
    for p, o in res:
        if o.kind != 'return':
            continue
        nret += 1
        I, B = [p.deref(v) for v in o.value.items]
        I0 = p.vars.get('I0')
        if not (X._is_ivec(I) and X._is_ivec(I0)):
            raise M.ContractMismatch('maxvol_rect: the returned row numbers are not an index vector')
        nI = Z(I.shape[0])
        U.post('first-r-rows-are-those-of-maxvol', list(p.pc) + [0 <= x_, x_ < r], I.t[x_] == I0.t[x_], axioms=AX)
        U.post('added-rows-differ-from-each-other-and-from-the-rows-of-maxvol', list(p.pc) + [0 <= x_, x_ < y_, r <= y_, y_ < nI], I.t[x_] != I.t[y_], axioms=AX)
        d0 = z3.ForAll([x_, y_], z3.Implies(z3.And(0 <= x_, x_ < y_, y_ < r), I0.t[x_] != I0.t[y_]), patterns=[z3.MultiPattern(I0.t[x_], I0.t[y_])])
        xx, yy = z3.Ints('xx yy')
        U.post('all-rows-pairwise-distinct-provided-the-rows-of-maxvol-are', list(p.pc) + [d0, 0 <= xx, xx < yy, yy < nI], I.t[xx] != I.t[yy], axioms=AX)
        U.canary('canary-rows-of-maxvol-distinct-without-the-proviso', list(p.pc) + [0 <= xx, xx < yy, yy < r], I.t[xx] != I.t[yy], axioms=AX)
        U.canary('canary-path-contradictory', list(p.pc) + [d0], False, axioms=AX)
    U.post('some-path-returns', U.pre, z3.BoolVal(nret >= 1))


@unit('maxvol.maxvol_rect.distinct', props=('C08',))
def u_rect_distinct(U):
    _rect_distinct_unit(U, False)


@unit('maxvol.maxvol_rect.distinct.no_upper_limit', props=('C08',))
def u_rect_distinct_none(U):
    _rect_distinct_unit(U, True)


# ----------------------------------------------------------------------------------------------
# tensors.const with a zero list (C19: "takes only the values v and 0, is zero at every listed zero index and still v at the
# protected index (conflicting requests raise ValueError)").
#
# Input: n (d mode sizes), v, I_zero = a list of m multi-indices (lists / vectors of length d, entries 0 <= . < n_t),
# i_non_zero = the protected multi-index (same form) or None.  For every listed index the function searches, round-robin from a
# pointer k that survives from one listed index to the next, a mode where the listed index differs from the protected one and
# zeroes the entry of the core of that mode.
# `while` loop (j modes skipped so far, pointer at entry k0): the tensor is untouched, skiped = j, k = (k0 + j) mod d (for j <= d), and
#   the listed index agrees with the protected one in the j modes k0, k0+1, .. (cyclically) that were skipped (all modes once j >= d).
#   The invariant does not mention the give-up bound of the source (any bound from d - 1 skips on is correct).  Hence
#     raise-iff  ValueError is raised ONLY when the listed index equals the protected index in ALL d modes (a conflicting request)
#   and, conversely, the function returns only when every listed index was zeroed in a mode where it differs (ghost witness W[x]).
# `for` loop (j listed indices done): d rank-one cores of the requested mode sizes; every core entry is the constant of that core
#   or 0; the entries at the protected index are untouched; listed index x < j has a zero factor in mode W[x].
# Postconditions (return): the core-level statements above and, by induction along the chain of 1 x 1 slices,
#     * the tensor is 0 at every listed index            (a product with a zero factor),
#     * the tensor is v at the protected index           (the argument of unit tensors.const.plain on the untouched entries).
# Case .no_protected_index: i_non_zero = None - never raises, every listed index is zeroed in the mode under the pointer.
# NOT covered: negative entries of the multi-indices (NumPy would count them from the end); I_zero / i_non_zero given as 2-D / 1-D
# ndarrays behave the same element by element but are not a separate case here; "only the values v and 0" is stated per core entry
# (a product of such entries is the full product or 0), not for the dense tensor.

def _const_zero_unit(U, protected):
    from contracts.tensors import chain_scalar_lemma, AXE
    fn = U.func('tensors', 'const')
    loops_ = [x for x in ast.walk(fn.node) if isinstance(x, (ast.For, ast.While))]
    if [type(x) for x in loops_] != [ast.For, ast.While]:
        raise M.ContractMismatch('tensors.const: the contract expects one for loop over the zero list with one while loop inside')
    AX = AXE + T.axioms('cscale')
    d, m = z3.Ints('d m')
    narr, nz = z3.Const('n', IA), z3.Const('i_non_zero', IA)
    IZ = z3.Const('I_zero', z3.ArraySort(z3.IntSort(), IA))
    v0 = z3.Real('v')
    t, q, x = z3.Ints('t!z q!z x!z')
    tt, qq, xx, kk = z3.Ints('tt qq xx kk')
    st = U.state()
    st.ghost['W'] = z3.Const('W!0', IA)

    def sw(s):
        return Z(s.vars['s']), Z(s.vars['v'])

    def e0(s, k):
        s_, w = sw(s)
        return z3.If(k == d - 1, T.rmul(s_, T.rmul(w, 1)), T.rmul(w, 1))

    def tensor(s):
        Ys = s.deref(s.vars['Y'])
        if not (isinstance(Ys, VSeq) and Ys.tag == 'core'):
            raise M.ContractMismatch('const: Y is not a list of cores')
        return Ys

    def dims(R, k):
        return z3.And(T.d0(R[k]) == 1, T.d1(R[k]) == narr[k], T.d2(R[k]) == 1)

    def two_valued(s, R, k, pos):
        return z3.Or(T.sl(R[k], pos) == T.sc(e0(s, k)), T.sl(R[k], pos) == T.sc(0))

    def zeroed(R, W, r_):
        out = [0 <= W[r_], W[r_] < d, T.sl(R[W[r_]], IZ[r_][W[r_]]) == T.sc(0)]
        if protected:
            out.append(IZ[r_][W[r_]] != nz[W[r_]])
        return z3.And(*out)

    def inv_for(ex, s, j):
        Ys, k, W = tensor(s), Z(s.vars['k']), s.ghost['W']
        R = Ys.arr
        out = [('d-cores', Ys.n == d), ('pointer-in-range', z3.And(0 <= k, k < d)),
               ('rank-one-cores-of-the-requested-mode-sizes', z3.ForAll([t], z3.Implies(z3.And(0 <= t, t < d), dims(R, t)), patterns=[R[t]])),
               ('every-core-entry-is-the-constant-of-its-core-or-zero',
                z3.ForAll([t, q], z3.Implies(z3.And(0 <= t, t < d), two_valued(s, R, t, q)), patterns=[T.sl(R[t], q)])),
               ('processed-indices-have-a-zero-factor-in-a-mode' + ('-where-they-differ-from-the-protected-index' if protected else ''),
                z3.ForAll([x], z3.Implies(z3.And(0 <= x, x < j), zeroed(R, W, x)), patterns=[W[x]]))]
        if protected:
            out.append(('entries-at-the-protected-index-untouched',
                        z3.ForAll([t], z3.Implies(z3.And(0 <= t, t < d), T.sl(R[t], nz[t]) == T.sc(e0(s, t))), patterns=[T.sl(R[t], nz[t])])))
        return out

    def hook_for(ex, h, pre_, j):
        h.ghost['W'] = ex.fresh('W', IA)
        h.ghost['W_in'] = h.ghost['W']
        h.ghost['sel_cset'], h.ghost['sel_corestore'] = [], []

    def body_end_for(ex_, s_, o_, j_):
        if o_.kind not in ('normal', 'continue'):
            return
        cs, stores = s_.ghost.get('sel_cset', []), s_.ghost.get('sel_corestore', [])
        if not stores:
            return                        # nothing was stored into the tensor in this pass: the witness stays as it is
        if len(stores) != 1 or len(cs) != 1 or not stores[0][1].eq(cs[0][3]):
            raise M.ContractMismatch('const: a pass over one listed index does not consist of exactly one element store G[0, q, 0] = x into one core')
        s_.ghost['W'] = z3.Store(s_.ghost['W_in'], j_, stores[0][0])        # ghost: the mode in which this listed index was zeroed

    def inv_while(ex, s, j):
        Ys, k, sk = tensor(s), Z(s.vars['k']), Z(s.vars['skiped'])
        if z3.is_int_value(j):
            s.ghost['w0'] = (k, Ys.arr, Ys.n)          # the state at loop entry (the call for inv-init)
        k0, Y0, n0 = s.ghost['w0']
        iz = s.vars['i_zero']
        if not X._is_ivec(iz):
            raise M.ContractMismatch('const: the loop variable over the zero list is not an index vector')
        # stated without reference to the give-up bound of the source: once j >= d every mode has been compared (the pointer then
        # merely stays in range), so a laxer bound (`skiped > d + 1`) or the tight one (`skiped >= d`) keeps the invariant
        out = [('tensor-untouched-while-searching', z3.And(Ys.arr == Y0, Ys.n == n0)),
               ('skip-counter-counts-the-skipped-modes', sk == j),
               ('pointer-in-range', z3.And(0 <= k, k < d)),
               ('pointer-is-the-entry-pointer-plus-the-skips-cyclically', z3.Implies(j <= d, k == z3.If(k0 + j < d, k0 + j, k0 + j - d)))]
        if protected:
            out.append(('listed-index-agrees-with-the-protected-one-in-every-skipped-mode',
                        z3.ForAll([t], z3.Implies(z3.And(0 <= t, t < d, z3.Or(j >= d, z3.And(k0 <= t, t < k0 + j), t < k0 + j - d)), iz.t[t] == nz[t]),
                                  patterns=[iz.t[t]])))
        return out

    ex = U.executor(fn, loops={0: {'inv': inv_for, 'havoc_hook': hook_for, 'body_end': body_end_for}, 1: {'inv': inv_while}}, axioms=AX)
    ex.mode = 'ematch'
    ex.sel_const = True
    I_zero = st.alloc(VSeq(IZ, m, lambda a: VArr((d,), a, 'ivec', 'i'), tag='ivecs'))
    st.vars.update(n=st.alloc(VSeq(narr, d, lambda a: a, tag='int')), v=v0, I_zero=I_zero,
                   i_non_zero=st.alloc(VSeq(nz, d, lambda a: a, tag='int')) if protected else NONE)
    pre = [d >= 2, m >= 0, z3.ForAll([t], z3.Implies(z3.And(0 <= t, t < d), narr[t] >= 1), patterns=[narr[t]]),
           z3.ForAll([x, t], z3.Implies(z3.And(0 <= x, x < m, 0 <= t, t < d), z3.And(0 <= IZ[x][t], IZ[x][t] < narr[t])), patterns=[IZ[x][t]])]
    if protected:
        pre.append(z3.ForAll([t], z3.Implies(z3.And(0 <= t, t < d), z3.And(0 <= nz[t], nz[t] < narr[t])), patterns=[nz[t]]))
    res = U.run(ex, st, pre=pre)
    U.cover('precondition-satisfiable', U.pre, axioms=AX)
    nret = nraise = 0
    for p, o in res:
        if o.kind == 'raise':
            nraise += 1
            if not protected:
                U.raise_iff('never-raises-without-a-protected-index', p, False, axioms=AX, mode='ematch')
                continue
            iz = p.vars['i_zero']
            U.raise_iff('raises-only-when-a-listed-index-equals-the-protected-index-in-every-mode', list(p.pc) + [0 <= tt, tt < d], iz.t[tt] == nz[tt],
                        axioms=AX, mode='ematch')
            U.raise_iff('raises-ValueError', p, o.exc == 'ValueError')
            U.canary('canary-raise-path-contradictory', p, False, axioms=AX)
            continue
        nret += 1
        Ys = p.deref(o.value)
        if not (isinstance(Ys, VSeq) and Ys.tag == 'core'):
            raise M.ContractMismatch('const: the result is not a list of cores')
        R, W = Ys.arr, p.ghost['W']
        s_, w = sw(p)
        U.post('d-cores', p, Ys.n == d, axioms=AX, mode='ematch')
        U.post('rank-one-cores-of-the-requested-mode-sizes', list(p.pc) + [0 <= tt, tt < d], dims(R, tt), axioms=AX, mode='ematch')
        U.post('every-core-entry-is-the-constant-of-its-core-or-zero', list(p.pc) + [0 <= tt, tt < d], two_valued(p, R, tt, qq), axioms=AX, mode='ematch')
        U.post('returns-only-when-every-listed-index-was-zeroed-in-a-mode' + ('-where-it-differs-from-the-protected-index' if protected else ''),
               list(p.pc) + [0 <= xx, xx < m], zeroed(R, W, xx), axioms=AX, mode='ematch')
        U.canary('canary-every-entry-zero', list(p.pc) + [0 <= tt, tt < d], T.sl(R[tt], qq) == T.sc(0), axioms=AX)
        U.canary('canary-return-path-contradictory', p, False, axioms=AX)
        # ---- value 0 at a listed index xx: the chain of 1 x 1 slices has a zero factor in mode W[xx]
        ix = IZ[xx]
        entry = lambda k: T.ent(T.sl(R[k], ix[k]), 0, 0)
        ctx = list(p.pc) + [0 <= xx, xx < m]
        prod, facts = chain_scalar_lemma(U, 'const_zero', ctx, R, ix, d, entry, AX)
        Wx = W[xx]
        ctxz = ctx + facts + [zeroed(R, W, xx)]
        Zr = lambda k: z3.Implies(k >= Wx, prod(k) == 0)
        U.lemma('product-vanishes-from-the-zeroed-mode-on.base', ctxz, Zr(z3.IntVal(0)), axioms=AX, mode='ematch', kind='lemma-base')
        # hint: the instance of the recursion of the running product at kk (an instance of a hypothesis, `facts`)
        U.lemma('product-vanishes-from-the-zeroed-mode-on.step', ctxz + [kk >= 1, kk < d, Zr(kk - 1)], Zr(kk), axioms=AX, mode='ematch', kind='lemma-step',
                extra=[prod(kk) == T.rmul(prod(kk - 1), entry(kk))])
        allZ = z3.ForAll([kk], z3.Implies(z3.And(0 <= kk, kk < d), Zr(kk)), patterns=[prod(kk)])
        U.post('tensor-is-zero-at-every-listed-index', ctxz + [allZ], T.ent(T.chain(R, ix, d - 1), 0, 0) == 0, axioms=AX, mode='ematch')
        U.canary('canary-context-of-the-zero-lemma', ctxz + [allZ], False, axioms=AX)
        if not protected:
            continue
        # ---- value v at the protected index: the argument of tensors.const.plain on the untouched entries
        ctxp = list(p.pc)
        entryp = lambda k: z3.If(k == d - 1, T.rmul(s_, T.rmul(w, 1)), T.rmul(w, 1))
        prodp, factsp = chain_scalar_lemma(U, 'const_protected', ctxp, R, nz, d, entryp, AX)
        wpow = z3.Function('wpow', z3.IntSort(), z3.RealSort())
        k_, k2_ = z3.Ints('k!c k2!c')
        mdef = [wpow(0) == w, z3.ForAll([k_, k2_], z3.Implies(z3.And(k_ >= 0, k2_ == k_ + 1, k2_ < d), wpow(k2_) == T.rmul(wpow(k_), w)),
                                        patterns=[z3.MultiPattern(wpow(k_), wpow(k2_))])]
        Q = lambda k: prodp(k) == z3.If(k == d - 1, T.rmul(s_, wpow(k)), wpow(k))
        lc = [T.rmul(wpow(kk - 1), T.rmul(s_, w)) == T.rmul(s_, T.rmul(wpow(kk - 1), w))]
        U.lemma('protected: product-is-w^(k+1).base', ctxp + factsp + mdef, Q(z3.IntVal(0)), axioms=AX, kind='lemma-base')
        U.lemma('protected: product-is-w^(k+1).step', ctxp + factsp + mdef + [kk >= 1, kk < d, Q(kk - 1)] + lc, Q(kk), axioms=AX, kind='lemma-step')
        U.lemmas.append('instance of left-commutativity of the real product: a*(s*b) = s*(a*b)')
        root = p.ghost.get('root', [])
        if root:
            (absv, dd, wr), = root
            U.post('root-taken-of-|v|-with-exponent-1/d', p, z3.And(dd == z3.ToReal(d), absv == z3.If(v0 >= 0, v0, -v0), wr == w), axioms=AX)
            powfact = [wpow(d - 1) == absv]
            U.lemmas.append('L-ROOT: (x ** (1/d)) ** d = x for x >= 0 (used as wpow(d-1) = |v|)')
        else:
            U.post('tiny-values-are-carried-by-the-last-core-alone', p, z3.And(w == 1, s_ == v0), axioms=AX)
            U.lemma('powers-of-one.base', ctxp + mdef + [w == 1], wpow(0) == 1, axioms=AX, kind='lemma-base')
            U.lemma('powers-of-one.step', ctxp + mdef + [w == 1, kk >= 1, kk < d, wpow(kk - 1) == 1], wpow(kk) == 1, axioms=AX, kind='lemma-step')
            absv = z3.RealVal(1)
            powfact = [wpow(d - 1) == 1]
        U.post('tensor-is-s*w^d-at-the-protected-index', ctxp + factsp + mdef + [Q(d - 1)] + powfact,
               T.ent(T.chain(R, nz, d - 1), 0, 0) == T.rmul(s_, absv), axioms=AX, mode='ematch')
        U.post('sign-times-modulus-is-v', list(p.pc), s_ * absv == v0, qf=True)
        U.lemmas.append('rmul(x, y) = x * y (the abstract product of the element theory is the real product)')
    U.post('some-path-returns', U.pre, z3.BoolVal(nret >= 1))
    if protected:
        U.post('some-path-raises', U.pre, z3.BoolVal(nraise >= 1))


@unit('tensors.const.zero_list', props=('C19',))
def u_const_zero(U):
    _const_zero_unit(U, True)


@unit('tensors.const.zero_list.no_protected_index', props=('C19',))
def u_const_zero_free(U):
    _const_zero_unit(U, False)


# ----------------------------------------------------------------------------------------------
# anova.ANOVA.build_2: the pair tables are built without a mean over an empty selection (C11: "ANOVA in both variants ... finite
# entries ... never NaN", for repeated / sparse samples in particular).
#
# Data as in the units anova_more.ANOVA.build_0 / build_1: I_trn = the (N x d) integer matrix with columns ICOL[k], y_trn = the real
# vector y of length N; self.domain = the list of the d vectors of observed values (any lengths), self.f0 a number, self.f1 the list of
# the d first-order tables, every domain point of mode k being a key of table k (postcondition of build_1).
# For every pair of modes k1 < k2 and every pair of domain points (x1, x2) the function takes the joint mask
#       idx[s] = (I_trn[s, k1] == x1) and (I_trn[s, k2] == x2)
# (the two factors come out of a cache keyed by (mode, value)) and stores 0 if NO sample is selected and
# mean(y[idx]) - f0 - f1[k1][x1] - f1[k2][x2] otherwise.  Proved:
#   * safety `mean-of-a-non-empty-selection`: np.mean is only ever applied to a selection with at least one sample (the guard must
#     count the SELECTED samples; the number of samples N >= 1 says nothing about the selection);
#   * safety `key-present`: the first-order terms that are looked up exist (no KeyError);
#   * the cache is consistent in all four loops: whatever is stored under (k, x) is the mask of `I_trn[:, k] == x`, of length N;
#   * post `the-mask-is-the-joint-selection-of-the-two-index-values` in every pass of the innermost loop;
#   * the function returns None, never raises, and does not touch f0 / f1 / domain.
# NOT covered: the contents of self.f2 beyond "a list of pair tables" (number and order of the tables: unit anova.ANOVA.cores_2.pairing
# for the consumer side; values: bounded suite C13); mmean is an uninterpreted function of (y, mask, N).

def _build_2_unit(U):
    from ttvc import mx_anova as XA, vec as V
    fn = U.func('anova', 'ANOVA.build_2')
    loops_ = [n_ for n_ in ast.walk(fn.node) if isinstance(n_, (ast.For, ast.While))]
    if len(loops_) != 4 or not all(isinstance(n_, ast.For) for n_ in loops_):
        raise M.ContractMismatch('ANOVA.build_2: the contract expects the four nested for loops (modes k1 < k2, domain points x1, x2)')
    st = U.state()
    N, d = z3.Ints('N d')
    f0 = z3.Real('f0')
    ICOL, y = z3.Const('Icol', z3.ArraySort(z3.IntSort(), IA)), z3.Const('y', XA.RA)
    I_trn, y_trn = XA.IMat2((N, d), ICOL), V.RVec(N, y)
    DOM, F1 = z3.Const('domain', IA), z3.Const('f1', IA)
    domref = XA.ivec_seq(None, st, DOM, d)
    f1ref = XA.table_seq(None, st, F1, d)
    selfrec = st.alloc(VRec({'domain': domref, 'f0': f0, 'f1': f1ref}))
    a_, b_, s_, k_, j_ = z3.Ints('a!q b!q s!q k!q j!q')

    def cache_of(s):
        c = s.deref(s.vars.get('cache'))
        if not isinstance(c, X.MaskCache):
            raise M.ContractMismatch('build_2: cache is not the dict of masks')
        return c

    def cache_ok(s):
        c = cache_of(s)
        return [('cached-masks-have-one-entry-per-sample-and-belong-to-a-mode',
                 z3.ForAll([a_, b_], z3.Implies(c.has[a_][b_], z3.And(0 <= a_, a_ < d, c.clen[a_][b_] == N)), patterns=[c.has[a_][b_], c.clen[a_][b_]])),
                ('cached-mask-of-(k,x)-selects-the-samples-with-value-x-in-mode-k',
                 z3.ForAll([a_, b_, s_], z3.Implies(c.has[a_][b_], c.val[a_][b_][s_] == (ICOL[a_][s_] == b_)), patterns=[c.val[a_][b_][s_]]))]

    def f2_of(s):
        ref = s.deref(s.vars['self']).fields.get('f2')
        o = s.deref(ref) if ref is not None else None
        if not (isinstance(o, VSeq) and o.tag == 'tables2'):
            raise M.ContractMismatch('self.f2 is not the list of pair tables')
        return o

    def inv_modes(ex, s, j):
        f2_of(s)
        return cache_ok(s)

    def inv_points(ex, s, j):
        f2_of(s)
        if not isinstance(s.deref(s.vars.get('f2_curr')), X.PairMap):
            raise M.ContractMismatch('build_2: f2_curr is not a dict of pairs')
        return cache_ok(s)

    def hook(ex, h, pre_, j):
        XA.havoc_attr(ex, h, 'self', 'f2')

    def body_end_inner(ex_, s_st, o_, j3):
        if o_.kind != 'normal':
            return
        idx = s_st.vars.get('idx')
        k1, k2, x1, x2 = (s_st.vars.get(nm) for nm in ('k1', 'k2', 'x1', 'x2'))
        if not (X._is_bvec(idx) and all(M.is_intsort(v_) for v_ in (k1, k2, x1, x2))):
            raise M.ContractMismatch('build_2: idx is not a boolean mask / k1, k2, x1, x2 are not integers')
        sq = z3.Int('s!j')
        branch = 'pair-never-observed' if isinstance(s_st.vars.get('value'), (int, float)) else 'pair-observed'
        U.canary(f'canary-innermost-pass-contradictory[{branch}]', list(s_st.pc), False, axioms=T.axioms('bcnt'))
        ex_.oblige(s_st, 'post', 'the-mask-is-the-joint-selection-of-the-two-index-values',
                   z3.And(Z(idx.shape[0]) == N, idx.t[sq] == z3.And(ICOL[Z(k1)][sq] == Z(x1), ICOL[Z(k2)][sq] == Z(x2))), None, assume=False)

    ex = U.executor(fn, loops={0: {'inv': inv_modes, 'havoc_hook': hook}, 1: {'inv': inv_modes, 'havoc_hook': hook}, 2: {'inv': inv_points},
                               3: {'inv': inv_points, 'body_end': body_end_inner}},
                    callees={'np.mean': X.np_mean, 'dict': X.new_dict}, axioms=T.axioms('bcnt'),
                    type_hints={'self.f2': lambda ex_, s_st: X.pair_table_seq(ex_, s_st)})
    ex.anova, ex.sel_pairs, ex.attr_havoc = True, True, {'self.f2'}
    ex.mode = 'ematch'
    st.vars.update(self=selfrec, I_trn=I_trn, y_trn=y_trn)
    dpt = XA.DARR(DOM[k_])[j_]
    pre = [N >= 1, d >= 2,
           z3.ForAll([k_], z3.Implies(z3.And(0 <= k_, k_ < d), XA.DLEN(DOM[k_]) >= 0), patterns=[DOM[k_]]),
           # postcondition of build_1 (unit anova_more.ANOVA.build_1: every-observed-value-of-the-mode-is-a-key)
           z3.ForAll([k_, j_], z3.Implies(z3.And(0 <= k_, k_ < d, 0 <= j_, j_ < XA.DLEN(DOM[k_])), XA.TDOM(F1[k_])[dpt]), patterns=[dpt])]
    res = U.run(ex, st, pre=pre)
    AXB = T.axioms('bcnt')
    U.cover('precondition-satisfiable', U.pre, axioms=AXB)
    nret = 0
    for p, o in res:
        if o.kind != 'return':
            U.post('no-exception', p, False, axioms=AXB, mode='ematch')
            continue
        nret += 1
        f = p.deref(selfrec).fields
        U.post('returns-None', p, z3.BoolVal(o.value is NONE))
        U.post('constant-term-first-order-tables-and-domain-untouched', p,
               z3.BoolVal(f['f0'] is f0 and f['f1'] is f1ref and f['domain'] is domref and p.heap[domref.oid].arr is DOM
                          and p.heap[f1ref.oid].arr is F1 and set(f) == {'f0', 'f1', 'domain', 'f2'}))
        U.post('f2-is-a-list-of-pair-tables', p, z3.BoolVal(isinstance(p.deref(f.get('f2')), VSeq) and p.deref(f['f2']).tag == 'tables2'))
        U.canary('canary-return-path-contradictory', p, False, axioms=AXB)
    U.post('some-path-returns', U.pre, z3.BoolVal(nret >= 1))


@unit('anova_sel.ANOVA.build_2', props=('C11', 'C13'))
def u_build_2(U):
    _build_2_unit(U)


# ----------------------------------------------------------------------------------------------
# Hand-made mutants (MUT_BASE=/tmp/base tools/mut.sh <file> '<sed>' <unit>) and the obligation that reports them.
#
# maxvol.maxvol_rect.distinct[.no_upper_limit]                                  (maxvol.py)
#   seeded C08-1  s/np.argmax(np.where(S > 0, F, -np.inf))/np.argmax(F)/          post the-appended-row-is-the-marked-one-and-was-still-available,
#                                                                                inv-keep loop0.added-rows-differ-from-all-earlier-rows
#   s/        S\[i\] = 0/        pass/                                            inv-keep loop0.selected-rows-are-marked-unavailable
#   s/np.where(S > 0, F, -np.inf)/np.where(S >= 0, F, -np.inf)/                   post the-appended-row-..still-available, inv-keep loop0.added-rows-differ-..
#   s/    S\[I0\] = 0/    pass/                                                   inv-init loop0.selected-rows-are-marked-unavailable
#   s/np.argmax(np.where(S > 0, F, -np.inf))/np.argmax(S * F)/                    post the-appended-row-..still-available, inv-keep loop0.added-rows-differ-..
#   s/np.where(S > 0, F, -np.inf)/np.where(S > 0, F, np.inf)/                     post the-appended-row-..still-available, inv-keep loop0.added-rows-differ-..
#   s/        S\[i\] = 0/        S[k] = 0/                                        post the-appended-row-..still-available, inv-keep loop0.selected-rows-are-marked-..
#   s/        I\[k\] = i/        I[k] = I[k-1]/                                   post the-appended-row-..still-available, inv-keep loop0.added-rows-differ-..
#   quiet (equivalent): np.where(S == 1, F, -np.inf); `mask = S > 0; i = int(np.argmax(np.where(mask, F, -np.inf)))`
#   undecided: `Fm = F.copy(); Fm[S == 0] = -np.inf; i = np.argmax(Fm)` (Unsupported: argmax of an array the engine does not follow);
#     `cand = np.where(S > 0)[0]; i = cand[np.argmax(F[cand])]` (Unsupported); `S[I[:k+1]] = 0` instead of `S[i] = 0` (Unsupported: vector
#     marking inside the loop); np.where(S < 1, -np.inf, F) (Unsupported)
#
# tensors.const.zero_list[.no_protected_index]                                  (tensors.py)
#   seeded C19-6  s/if skiped > d:/if skiped >= d - 1:/                           raise-iff raises-only-when-a-listed-index-equals-the-protected-index-in-every-mode
#   s/if skiped > d:/if skiped > 1:/                                              raise-iff raises-only-when-..-in-every-mode
#   53s/if k >= d:/if k > d:/                                                     inv-keep loop1.pointer-in-range, loop1.pointer-is-the-entry-pointer-plus-the-skips-cyclically
#   55s/if k >= d:/if k > d:/                                                     inv-keep loop0.pointer-in-range (both units)
#   s/Y\[k\]\[0, i_zero\[k\], 0\] = 0\./Y[k][0, i_zero[k], 0] = 1./               inv-keep loop0.every-core-entry-is-the-constant-of-its-core-or-zero, loop0.processed-indices-have-a-zero-factor-..
#   s/i_zero\[k\] != i_non_zero\[k\]/i_zero[k] == i_non_zero[k]/                  inv-keep loop1.listed-index-agrees-.., loop0.entries-at-the-protected-index-untouched, post some-path-raises
#   s/Y\[k\]\[0, i_zero\[k\], 0\] = 0\./Y[k][0, i_non_zero[k], 0] = 0./           inv-keep loop0.entries-at-the-protected-index-untouched, loop0.processed-indices-have-a-zero-factor-..
#   s/Y\[k\]\[0, i_zero\[k\], 0\] = 0\./pass/                                     inv-keep loop0.processed-indices-have-a-zero-factor-.. (both units)
#   quiet (equivalent for the property): `if skiped > d + 1:`, `if skiped >= d:` (any give-up bound from d - 1 skips on), `46s/k += 1/k += 2/`
#     (the pointer after a zeroed mode is free), the loop body rewritten with the branches swapped and `k = k + 1 if k + 1 < d else 0`
#   undecided: `G = Y[k]; G[0, i_zero[k], 0] = 0.` (Unsupported: aliasing), `for _ in range(d + 2):` instead of `while True:` (ContractMismatch)
#   not detectable here (partial correctness): deleting the give-up test makes a conflicting request loop forever
#
# anova_sel.ANOVA.build_2                                                       (anova.py)
#   seeded C11-4  s/if idx.sum() == 0:/if idx.size == 0:/                         safety mean-of-a-non-empty-selection
#   s/if idx.sum() == 0:/if idx1.sum() == 0:/                                     safety mean-of-a-non-empty-selection
#   s/if idx.sum() == 0:/if idx.sum() < 0:/                                       safety mean-of-a-non-empty-selection
#   s/idx = idx1 \& idx2/idx = idx1/                                              safety mean-of-a-non-empty-selection, post the-mask-is-the-joint-selection-of-the-two-index-values
#   s/cache\[k1, x1\] = idx1/cache[k2, x1] = idx1/                                inv-keep loop3.cached-mask-of-(k,x)-selects-.., post the-mask-is-the-joint-selection-..
#   s/idx2 = I_trn\[:, k2\] == x2/idx2 = I_trn[:, k1] == x2/                      inv-keep loop3.cached-mask-of-(k,x)-selects-.., post the-mask-is-the-joint-selection-..
#   s/self.f1\[k2\]\[x2\]/self.f1[k2][x1]/                                        safety key-present
#   s/enumerate(self.domain\[k1+1:\], start=k1+1)/enumerate(self.domain[k1+1:], start=k1)/     safety key-present
#   quiet (equivalent): `if not idx.any():`, `if idx.sum() < 1:`, the branches swapped with `y_trn[idx].mean()`
#   undecided: np.count_nonzero(idx), np.any(idx), np.logical_and(idx1, idx2) (not in the model table), `if (k1, x1) in cache:` instead of try / except
