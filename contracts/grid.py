"""Sidecar contracts for teneva/grid.py (C18, C17): grid maps over the reals in the pointwise tier."""
import z3
from ttvc.units import unit
from ttvc.symex import VOpt, VStr, VRec, VSeq, VArr, VFunc, VTuple, VRef, VList, NONE, Z
from ttvc import models as M, theory as T, pt as PT
from contracts import spec as S

H = z3.RealVal('1/2')


def clip(x, lo, hi):
    return z3.If(x < lo, lo, z3.If(x > hi, hi, x))


# ---- spec functions of the property statement (C18), per element
def spec_i2p(i, a, b, n, kind):
    t = z3.ToReal(i) / z3.ToReal(n - 1)
    if kind == 'uni':
        return a + t * (b - a)
    return PT.cosf(M.PI * t) * (b - a) / 2 + (b + a) / 2


def spec_scale(x, a, b, kind):
    if kind == 'uni':
        return clip((x - a) / (b - a), 0, 1)
    return clip((x - (b + a) / 2) * (2 / (b - a)), -1, 1)


def call_prep_opts(ex, st, args, kwargs, node):
    """grid_prep_opts(a, b, n, d, reps) at the call sites of the grid maps: the options are broadcast to the shape of
    the data, so at the generic position each option contributes the value that belongs to that column."""
    a, b, n = args[0], args[1], args[2]
    shp = st.ghost.get('pt_shape')
    if shp is None:
        raise M.Unsupported('grid_prep_opts outside the pointwise tier')
    out = []
    for v, kind in ((a, 'f'), (b, 'f'), (n, 'i')):
        if v is NONE:
            out.append(NONE)
        else:
            e = Z(ex.need_num(st, v, node))
            out.append(PT.pt(shp, M.to_real(e) if kind == 'f' else e))
    return VTuple(out)


def call_prep_opt(ex, st, args, kwargs, node):
    v = args[0]
    shp = st.ghost.get('pt_shape')
    if shp is None or v is NONE:
        raise M.Unsupported('grid_prep_opt outside the pointwise tier')
    kind = kwargs.get('kind', args[2] if len(args) > 2 else M.TypeVal('float'))
    e = Z(ex.need_num(st, v, node))
    return PT.pt(shp, e if kind.name == 'int' else M.to_real(e))


def _setup(U, fname, kind, xname, xreal):
    fn = U.func('grid', fname)
    ax = PT.TRIG if kind == 'cheb' else []
    callees = {'grid.grid_prep_opts': call_prep_opts, 'grid.grid_prep_opt': call_prep_opt}
    ex = U.executor(fn, callees=callees, axioms=ax)
    st = U.state()
    m_, d_ = z3.Ints('m d')
    a, b = z3.Reals('a b')
    n = z3.Int('n')
    x = z3.Real('x') if xreal else z3.Int('i')
    st.ghost['pt_shape'] = (m_, d_)
    st.vars.update({xname: PT.pt((m_, d_), x), 'a': a, 'b': b, 'n': n, 'kind': VStr(kind)})
    pre = [m_ >= 1, d_ >= 1, a < b, n >= 2]
    return fn, ex, st, (x, a, b, n), pre, ax


def _i2p_unit(U, kind):
    fn, ex, st, (i, a, b, n), pre, ax = _setup(U, 'ind_to_poi', kind, 'I', False)
    res = U.run(ex, st, pre=pre + [i >= 0, i <= n - 1])
    U.cover('precondition-satisfiable', U.pre, axioms=ax)
    for p, o in res:
        if o.kind != 'return':
            U.post('no-exception', p, False, axioms=ax)
            continue
        X = p.deref(o.value)
        U.post('elementwise-node-formula', p, X.t == spec_i2p(i, a, b, n, kind), axioms=ax)
        U.post('points-lie-in-the-box', p, z3.And(X.t >= a, X.t <= b), axioms=ax)
        lo, hi = (a, b) if kind == 'uni' else (b, a)
        U.post('index-0-maps-to-the-first-end', p, z3.Implies(i == 0, X.t == lo), axioms=ax)
        U.post('index-n-1-maps-to-the-other-end', p, z3.Implies(i == n - 1, X.t == hi), axioms=ax)
        U.post('same-shape-as-the-indices', p, z3.BoolVal(X.shape == st.ghost['pt_shape']))
        U.canary('canary-constant', p, X.t == a, axioms=ax)


def _scale_unit(U, kind):
    fn, ex, st, (x, a, b, n), pre, ax = _setup(U, 'poi_scale', kind, 'X', True)
    del st.vars['n']
    res = U.run(ex, st, pre=pre)
    U.cover('precondition-satisfiable', U.pre)
    lo, hi = (0, 1) if kind == 'uni' else (-1, 1)
    for p, o in res:
        if o.kind != 'return':
            U.post('no-exception', p, False)
            continue
        X = p.deref(o.value)
        U.post('affine-map-with-clipping', p, X.t == spec_scale(x, a, b, kind))
        U.post('range', p, z3.And(X.t >= lo, X.t <= hi))
        U.post('box-ends-map-to-range-ends', p, z3.And(z3.Implies(x == a, X.t == lo), z3.Implies(x == b, X.t == hi)))
        U.canary('canary-identity', p, X.t == x)


def call_poi_scale(ex, st, args, kwargs, node):
    X = st.deref(args[0])
    a, b = Z(ex.need_num(st, args[1], node)), Z(ex.need_num(st, args[2], node))
    kind = args[3].concrete() if len(args) > 3 and isinstance(args[3], VStr) else 'uni'
    if not PT.is_pt(X) or kind not in ('uni', 'cheb'):
        raise M.Unsupported('poi_scale outside the pointwise tier')
    ex.oblige(st, 'call-pre', 'poi_scale: a < b', a < b, node)
    return PT.pt(X.shape, spec_scale(M.to_real(X.t), M.to_real(a), M.to_real(b), kind))


def _p2i_unit(U, kind):
    fn, ex, st, (x, a, b, n), pre, ax = _setup(U, 'poi_to_ind', kind, 'X', True)
    ex.callees['grid.poi_scale'] = call_poi_scale
    res = U.run(ex, st, pre=pre)
    U.cover('precondition-satisfiable', U.pre, axioms=ax)
    i = z3.Int('i')
    for p, o in res:
        if o.kind != 'return':
            U.post('no-exception', p, False, axioms=ax)
            continue
        I = p.deref(o.value)
        U.post('integer-result', p, z3.BoolVal(M.is_intsort(I.t) and I.dtype == 'i'))
        U.post('index-in-range', p, z3.And(I.t >= 0, I.t <= n - 1), axioms=ax)
        sc = spec_scale(x, a, b, kind)
        tpar = sc * z3.ToReal(n - 1) if kind == 'uni' else PT.acosf(sc) / M.PI * z3.ToReal(n - 1)
        U.post('nearest-node-in-the-grid-parameter', p, z3.And(z3.ToReal(I.t) - tpar <= H, tpar - z3.ToReal(I.t) <= H), axioms=ax)
        if kind == 'uni':
            U.post('points-left-of-the-box-go-to-index-0', p, z3.Implies(x <= a, I.t == 0), axioms=ax)
            U.post('points-right-of-the-box-go-to-index-n-1', p, z3.Implies(x >= b, I.t == n - 1), axioms=ax)
        else:
            U.post('points-right-of-the-box-go-to-index-0', p, z3.Implies(x >= b, I.t == 0), axioms=ax)
            U.post('points-left-of-the-box-go-to-index-n-1', p, z3.Implies(x <= a, I.t == n - 1), axioms=ax)
        # round trip: the point of node i is mapped back to i  (composition with the proved node formula of ind_to_poi)
        U.post('round-trip-of-every-node', p, z3.Implies(z3.And(0 <= i, i <= n - 1, x == spec_i2p(i, a, b, n, kind)), I.t == i),
               axioms=ax)
        U.canary('canary-always-zero', p, I.t == 0, axioms=ax)


for _k in ('uni', 'cheb'):
    def _mk(k=_k):
        @unit(f'grid.ind_to_poi.{k}', props=('C18',))
        def u1(U):
            _i2p_unit(U, k)

        @unit(f'grid.poi_scale.{k}', props=('C18',))
        def u2(U):
            _scale_unit(U, k)

        @unit(f'grid.poi_to_ind.{k}', props=('C18',))
        def u3(U):
            _p2i_unit(U, k)
    _mk()


# ----------------------------------------------------------------------------------------------
# C17: non-power-of-two mode sizes are rejected with ValueError (ind_tt_to_qtt, core_tt_to_qtt)

import ast as _ast
AXP = T.axioms('pow2', 'pow2r', 'pow2link')


def _pow2_gate(U, module, fname, setup, stop_names):
    fn = U.func(module, fname)

    def stop(stmt):
        return isinstance(stmt, _ast.Assign) and isinstance(stmt.targets[0], _ast.Name) and stmt.targets[0].id in stop_names

    if not any(stop(s_) for s_ in fn.body):
        raise M.ContractMismatch(f'{fname}: the statement after the power-of-two check ({stop_names}) is gone')
    ex = U.executor(fn, axioms=AXP, stop_at=stop)
    st = U.state()
    n = z3.Int('n')
    setup(ex, st, n)
    res = U.run(ex, st, pre=[n >= 1])
    U.cover('precondition-satisfiable', U.pre, axioms=AXP)
    k = z3.Int('k')
    for p, o in res:
        qs = [Z(v) for nm, v in p.vars.items() if nm in ('q', 'd') and M.is_intsort(v) and not isinstance(v, int)]
        hints = []
        for f in qs:
            # instances of the log2 / pow2 axioms at the exponent computed by the code and at a candidate exponent k
            for j in (z3.IntVal(0), f, f + 1, k, k + 1):
                rj = z3.ToReal(j)
                hints += [z3.Implies(j >= 0, T.pow2r(rj) == z3.ToReal(T.pow2(j))),
                          (rj <= T.log2(z3.ToReal(n))) == (T.pow2r(rj) <= z3.ToReal(n)), T.pow2r(rj) > 0]
            hints += [T.pow2(f + 1) == 2 * T.pow2(f), T.pow2(k + 1) == 2 * T.pow2(k), T.pow2(k) >= 1]
        if o.kind == 'raise':
            U.raise_iff('rejects-only-non-powers-of-two', p, z3.Implies(k >= 0, n != T.pow2(k)), axioms=AXP, extra=hints)
            U.raise_iff('raises-ValueError', p, o.exc == 'ValueError')
        elif o.kind == 'stop':
            q = [v for nm, v in p.vars.items() if nm in ('q', 'd') and M.is_intsort(v) and not isinstance(v, int)]
            U.raise_iff('accepts-only-powers-of-two', p, z3.Or([z3.And(Z(x) >= 0, n == T.pow2(Z(x))) for x in q]) if q else False,
                        axioms=AXP, extra=hints)
        else:
            U.post('gate-ends-before-the-conversion', p, False)
    U.canary('canary-accepts-everything', U.pre, False, axioms=AXP)


@unit('grid.ind_tt_to_qtt.gate', props=('C17',))
def u_gate_ind(U):
    def setup(ex, st, n):
        m_, d_ = z3.Ints('m d')
        I = VArr((m_, d_), None, None, 'i')
        ex.callees['grid.grid_prep_opt'] = lambda ex_, s_, a, k, nd: a[0]
        st.vars.update(I=I, n=n)
        st.assume(m_ >= 1, d_ >= 1)
    _pow2_gate(U, 'grid', 'ind_tt_to_qtt', setup, ('I_qtt',))


@unit('core.core_tt_to_qtt.gate', props=('C17',))
def u_gate_core(U):
    def setup(ex, st, n):
        r1, r2 = z3.Ints('r1 r2')
        t = z3.Const('G', T.Core)
        st.assume(T.d0(t) == r1, T.d1(t) == n, T.d2(t) == r2, r1 >= 1, r2 >= 1)
        st.vars.update(G=VArr((r1, n, r2), t, 'core'), e=z3.Real('e'), r=z3.Real('r'))
    _pow2_gate(U, 'core', 'core_tt_to_qtt', setup, ('A',))


# ----------------------------------------------------------------------------------------------
# grid_prep_opts: inconsistent option lengths are rejected (C18)

def _prep_unit(U, kinds):
    fn = U.func('grid', 'grid_prep_opts')

    def stop(stmt):
        return isinstance(stmt, _ast.Assign) and isinstance(stmt.targets[0], _ast.Name) and stmt.targets[0].id == 'a'

    if not any(stop(s_) for s_ in fn.body):
        raise M.ContractMismatch('grid_prep_opts: the normalisation `a = grid_prep_opt(...)` after the length check is gone')
    ex = U.executor(fn, stop_at=stop)
    st = U.state()
    d = S.opt_int('d')
    lens, vals = [], {}
    for nm, k in zip('abn', kinds):
        if k == 'list':
            L = z3.Int('len_' + nm)
            lens.append(L)
            arr = z3.Const('opt_' + nm, z3.ArraySort(z3.IntSort(), z3.RealSort()))
            vals[nm] = st.alloc(VSeq(arr, L, lambda t: t, tag='real'))
            st.assume(L >= 0)
        elif k == 'scalar':
            vals[nm] = z3.Real('opt_' + nm)
        else:
            vals[nm] = NONE
    st.vars.update(a=vals['a'], b=vals['b'], n=vals['n'], d=d, reps=NONE)
    res = U.run(ex, st)
    U.cover('reachable', U.pre)
    if lens:
        target = z3.If(d.isnone, lens[0], d.val)
        bad = z3.Or([L != target for L in lens])
    else:
        bad = z3.BoolVal(False)
    for p, o in res:
        if o.kind == 'raise':
            U.raise_iff('rejects-only-inconsistent-lengths', p, bad)
            U.raise_iff('raises-ValueError', p, o.exc == 'ValueError')
        elif o.kind == 'stop':
            U.raise_iff('accepts-only-consistent-lengths (lists agree with each other and with d when given)', p, z3.Not(bad))
            if lens:
                dv = p.vars['d']
                U.post('dimension-is-the-common-length', p, Z(dv.val if isinstance(dv, VOpt) else dv) == lens[0])
        else:
            U.post('length-check-comes-first', p, False)
    if lens:
        U.canary('canary-never-rejects', U.pre, z3.Not(bad))


for _ks in (('list', 'list', 'list'), ('list', 'scalar', 'list'), ('scalar', 'list', 'none'), ('none', 'none', 'list'),
            ('scalar', 'scalar', 'scalar')):
    def _mk(ks=_ks):
        @unit('grid.grid_prep_opts.' + ''.join(k[0] for k in ks), props=('C18',))
        def u(U):
            _prep_unit(U, ks)
    _mk()
