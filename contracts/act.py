"""Sidecar contracts for teneva/props.py, act_one.py, act_two.py (C01, C11, C16)."""
import z3
from ttvc.units import unit
from ttvc.symex import VOpt, VStr, VRec, VSeq, VArr, VFunc, VTuple, VRef, VList, NONE, Z
from ttvc import models as M, theory as T
from contracts import spec as S

AX = T.axioms('shape', 'mulI', 'block', 'core', 'chain', 'row')
k_ = z3.Int('k!a')


# ----------------------------------------------------------------------------------------------
# props.shape / props.ranks

def shape_post(arr, d, out, n):
    return {'length-d': n == d,
            'mode-sizes': z3.ForAll([k_], z3.Implies(z3.And(0 <= k_, k_ < d), out[k_] == T.d1(arr[k_])), patterns=[out[k_]])}


def ranks_post(arr, d, out, n):
    return {'length-d+1': n == d + 1, 'first-is-1': out[0] == 1,
            'right-ranks': z3.ForAll([k_], z3.Implies(z3.And(1 <= k_, k_ <= d), out[k_] == T.d2(arr[k_ - 1])),
                                     patterns=[out[k_]])}


def _props_unit(U, name, postf):
    fn = U.func('props', name)
    ex = U.executor(fn, axioms=T.axioms('shape'))
    st = U.state()
    Y, arr, d = S.tt_param(st, 'Y')
    st.vars.update(Y=Y)
    res = U.run(ex, st, pre=[d >= 1])
    U.cover('precondition-satisfiable', U.pre)
    for p, o in res:
        if o.kind != 'return':
            U.post('no-exception', p, False)
            continue
        v = p.deref(o.value)
        ok = isinstance(v, VArr) and v.ndim == 1 and v.tag == 'ivec' and v.dtype == 'i'
        U.post('returns-integer-vector', p, z3.BoolVal(ok))
        if ok:
            for lbl, g in postf(arr, d, v.t, Z(v.shape[0])).items():
                U.post(lbl, p, g, axioms=ex.axioms)
    U.canary('canary-all-ones', U.pre, False)


@unit('props.shape', props=('C01',))
def u_shape(U):
    _props_unit(U, 'shape', shape_post)


@unit('props.ranks', props=('C01',))
def u_ranks(U):
    _props_unit(U, 'ranks', ranks_post)


def _call_props(postf, extra):
    def h(ex, st, args, kwargs, node):
        Y = st.deref(args[0])
        if not (isinstance(Y, VSeq) and Y.tag == 'core'):
            raise M.Unsupported('shape/ranks of a non-TT value')
        out = ex.fresh('vec', z3.ArraySort(z3.IntSort(), z3.IntSort()))
        n = Y.n + extra
        for lbl, g in postf(Y.arr, Y.n, out, n).items():
            st.assume(g)
        res = VArr((n,), out, 'ivec', 'i')
        # for a well-formed tensor all mode sizes and ranks are >= 1
        if M.quick_unsat(list(ex.axioms) + list(st.pc) + [z3.Not(T.wf(Y.arr, Y.n))]):
            res.pos = True
        return res
    return h


M.CALLEES['props.shape'] = _call_props(shape_post, 0)
M.CALLEES['props.ranks'] = _call_props(ranks_post, 1)


# ----------------------------------------------------------------------------------------------
# act_one.copy

@unit('act_one.copy.tt', props=('C01', 'C09'))
def u_copy(U):
    fn = U.func('act_one', 'copy')
    ex = U.executor(fn, axioms=T.axioms('shape'))
    st = U.state()
    Y, arr, d = S.tt_param(st, 'Y')
    st.vars.update(Y=Y)
    res = U.run(ex, st, pre=[d >= 0])
    for p, o in res:
        if o.kind != 'return':
            U.post('no-exception', p, False)
            continue
        v = p.deref(o.value)
        U.post('fresh-list', p, z3.BoolVal(isinstance(o.value, VRef) and o.value.oid != Y.oid and p.heap[Y.oid].arr is arr))
        U.post('same-length', p, v.n == d)
        U.post('equal-cores', p, z3.Implies(z3.And(0 <= k_, k_ < d), v.arr[k_] == arr[k_]), axioms=ex.axioms)
        U.post('cores-are-copies', p, z3.BoolVal('ndarray.copy() -> same value, fresh buffer' in M.USED))


@unit('act_one.copy.scalar', props=('C01',))
def u_copy_num(U):
    fn = U.func('act_one', 'copy')
    for nm, val in (('none', NONE), ('int', z3.Int('c')), ('float', z3.Real('x'))):
        ex = U.executor(fn)
        st = U.state()
        st.vars.update(Y=val)
        for p, o in U.run(ex, st):
            U.post(f'{nm}-returned-unchanged', p, z3.BoolVal(o.kind == 'return' and o.value is val))


# ----------------------------------------------------------------------------------------------
# act_one.get  (single multi-index)

def val(arr, ix, d):
    """The denoted tensor entry: first sentence of C01."""
    return T.ent(T.chain(arr, ix, d - 1), 0, 0)


def chain_shape(arr, ix, d):
    return z3.ForAll([k_], z3.Implies(z3.And(0 <= k_, k_ < d),
                                      z3.And(T.rows(T.chain(arr, ix, k_)) == 1, T.cols(T.chain(arr, ix, k_)) == T.d2(arr[k_]))),
                     patterns=[T.chain(arr, ix, k_)])


def lemma_chain_shape(U, name, arr, ix, d, hyps, axioms):
    """Induction on k: chain(Y, i, k) is a 1 x r_{k+1} matrix."""
    kk = z3.Int('kk')
    U.lemma(f'chain-shape({name}).base', hyps, z3.And(T.rows(T.chain(arr, ix, 0)) == 1, T.cols(T.chain(arr, ix, 0)) == T.d2(arr[0])),
            axioms=axioms, mode='ematch', kind='lemma-base')
    U.lemma(f'chain-shape({name}).step',
            list(hyps) + [kk >= 1, kk < d, T.rows(T.chain(arr, ix, kk - 1)) == 1, T.cols(T.chain(arr, ix, kk - 1)) == T.d2(arr[kk - 1])],
            z3.And(T.rows(T.chain(arr, ix, kk)) == 1, T.cols(T.chain(arr, ix, kk)) == T.d2(arr[kk])),
            axioms=axioms, mode='ematch', kind='lemma-step')
    return chain_shape(arr, ix, d)


@unit('act_one.get', props=('C01',))
def u_get(U):
    fn = U.func('act_one', 'get')
    st = U.state()
    Y, arr, d = S.tt_param(st, 'Y')
    ix = z3.Const('ix', T.IDX)
    i = VArr((d,), ix, 'ivec', 'i')

    def inv(ex, s, j):
        Q = s.vars['Q']
        kcur = j + 1           # loop runs k = 1 .. d-1; after j iterations Q = chain(.., j)
        ok = isinstance(Q, VArr) and Q.ndim == 1 and Q.tag == 'vec' and Q.t is not None
        if not ok:
            return [('Q-is-a-row-vector', z3.BoolVal(False))]
        return [('Q-is-the-partial-chain', Q.t == T.chain(arr, ix, j)), ('Q-shape', Z(Q.shape[0]) == T.d2(arr[j]))]

    ex = U.executor(fn, loops={0: {'inv': inv}}, axioms=AX)
    ex.mode = 'ematch'
    st.vars.update(Y=Y, i=i, _to_item=True)
    pre = [T.wf(arr, d), T.index_ok(ix, arr, d)]
    cs = lemma_chain_shape(U, 'Y', arr, ix, d, pre, AX)
    res = U.run(ex, st, pre=pre + [cs])
    U.cover('precondition-satisfiable', U.pre, axioms=AX)
    for p, o in res:
        if o.kind != 'return':
            U.post('no-exception', p, False, axioms=AX, mode='ematch')
            continue
        U.post('result-is-the-chained-entry', p, Z(o.value) == val(arr, ix, d), axioms=AX, mode='ematch')
        U.canary('canary-result-is-zero', p, Z(o.value) == 0, axioms=AX)


# ----------------------------------------------------------------------------------------------
# act_two.add

def addcore(A1, A2, d, j):
    blk = T.cat0(T.cat2(A1[j], T.zc(T.d0(A1[j]), T.d1(A1[j]), T.d2(A2[j]))),
                 T.cat2(T.zc(T.d0(A2[j]), T.d1(A1[j]), T.d2(A1[j])), A2[j]))
    return z3.If(j == 0, T.cat2(A1[j], A2[j]), z3.If(j == d - 1, T.cat0(A1[j], A2[j]), blk))


def same_shape(A1, A2, d):
    return z3.ForAll([k_], z3.Implies(z3.And(0 <= k_, k_ < d), T.d1(A1[k_]) == T.d1(A2[k_])), patterns=[A1[k_]])


def add_post_and_lemmas(U, p, R, Rn, A1, A2, d, axioms):
    """From `R[j] = block core of A1[j], A2[j]` (established by the loop invariant) to the property:
    wf(R), same shape, ranks add up, and val(R, i) = val(A1, i) + val(A2, i) for every multi-index i."""
    kk = z3.Int('kk')
    ix = z3.Const('ix', T.IDX)
    hyp = list(p.pc)
    U.post('length', hyp, Rn == d, axioms=axioms, mode='ematch')
    U.post('boundary-ranks-1', hyp, z3.And(T.d0(R[0]) == 1, T.d2(R[d - 1]) == 1), axioms=axioms, mode='ematch')
    U.post('neighbour-ranks-match', hyp + [kk >= 0, kk < d - 1], T.d2(R[kk]) == T.d0(R[kk + 1]), axioms=axioms, mode='ematch')
    U.post('mode-sizes-kept', hyp + [kk >= 0, kk < d], T.d1(R[kk]) == T.d1(A1[kk]), axioms=axioms, mode='ematch')
    U.post('ranks-add-up', hyp + [kk >= 1, kk < d], T.d0(R[kk]) == T.d0(A1[kk]) + T.d0(A2[kk]), axioms=axioms, mode='ematch')
    U.post('dimensions-positive', hyp + [kk >= 0, kk < d], z3.And(T.d0(R[kk]) >= 1, T.d1(R[kk]) >= 1, T.d2(R[kk]) >= 1),
           axioms=axioms, mode='ematch')
    ixok = T.index_ok(ix, A1, d)
    cs1 = lemma_chain_shape(U, 'Y1', A1, ix, d, hyp + [ixok], axioms)
    cs2 = lemma_chain_shape(U, 'Y2', A2, ix, d, hyp + [ixok], axioms)
    P = lambda k: T.chain(R, ix, k) == T.hcat(T.chain(A1, ix, k), T.chain(A2, ix, k))
    ctx = hyp + [ixok, cs1, cs2]
    U.lemma('chain-of-sum-is-hcat-of-chains.base', ctx, P(z3.IntVal(0)), axioms=axioms, mode='ematch', kind='lemma-base')
    U.lemma('chain-of-sum-is-hcat-of-chains.step', ctx + [kk >= 1, kk < d - 1, P(kk - 1)], P(kk), axioms=axioms, mode='ematch',
            kind='lemma-step')
    U.post('value-is-the-sum', ctx + [P(d - 2)],
           T.chain(R, ix, d - 1) == T.madd(T.chain(A1, ix, d - 1), T.chain(A2, ix, d - 1)), axioms=axioms, mode='ematch')
    U.canary('canary-value-is-first-operand', ctx + [P(d - 2)], T.chain(R, ix, d - 1) == T.chain(A1, ix, d - 1), axioms=axioms)


@unit('act_two.add.tt_tt', props=('C01', 'C11'))
def u_add(U):
    fn = U.func('act_two', 'add')
    st = U.state()
    Y1, A1, d = S.tt_param(st, 'Y1', z3.Int('d'))
    Y2, A2, _ = S.tt_param(st, 'Y2', d)

    def inv(ex, s, j):
        Ys = s.deref(s.vars['Y'])
        return [('length', Ys.n == j),
                ('block-cores', z3.ForAll([k_], z3.Implies(z3.And(0 <= k_, k_ < j), Ys.arr[k_] == addcore(A1, A2, d, k_)),
                                          patterns=[Ys.arr[k_]])),
                ('arguments-untouched', z3.BoolVal(s.heap[Y1.oid].arr is A1 and s.heap[Y2.oid].arr is A2))]

    ex = U.executor(fn, loops={0: {'inv': inv}}, axioms=AX, type_hints={'Y': 'tt'})
    ex.mode = 'ematch'
    st.vars.update(Y1=Y1, Y2=Y2)
    res = U.run(ex, st, pre=[T.wf(A1, d), T.wf(A2, d), same_shape(A1, A2, d)])
    U.cover('precondition-satisfiable', U.pre, axioms=AX)
    for p, o in res:
        if o.kind != 'return':
            U.post('no-exception', p, False, axioms=AX, mode='ematch')
            continue
        R = p.deref(o.value)
        U.post('fresh-result', p, z3.BoolVal(isinstance(o.value, VRef) and o.value.oid not in (Y1.oid, Y2.oid)))
        add_post_and_lemmas(U, p, R.arr, R.n, A1, A2, d, AX)


# ----------------------------------------------------------------------------------------------
# props.erank

@unit('props.erank', props=('C01', 'C11'))
def u_erank(U):
    """erank(Y): for d = 2 the only rank; for d >= 3 the non-negative root x of  a x^2 + b x = sum_k n_k r_k r_{k+1}
    with a = sum of the inner mode sizes (> 0, so no division by zero), b = r_0 n_0 + n_{d-1} r_d."""
    fn = U.func('props', 'erank')
    ex = U.executor(fn, axioms=T.axioms('shape'))
    ex.nl_exact = True
    st = U.state()
    Y, arr, d = S.tt_param(st, 'Y')
    st.vars.update(Y=Y)
    res = U.run(ex, st, pre=[T.wf(arr, d)])
    U.cover('precondition-satisfiable', U.pre, axioms=ex.axioms)
    for p, o in res:
        if o.kind != 'return':
            U.post('no-exception', p, False, axioms=ex.axioms)
            continue
        x = Z(o.value)
        if 'a' not in p.vars:
            U.post('two-cores-report-the-only-rank', p, z3.And(d == 2, x == T.d2(arr[0])), axioms=ex.axioms)
            continue
        a, b, sz = Z(p.vars['a']), Z(p.vars['b']), Z(p.vars['sz'])
        U.post('three-or-more-cores-take-the-quadratic-branch', p, d >= 3, axioms=ex.axioms)
        U.post('inner-mode-sizes-sum-to-a-positive-number', p, a >= 1, axioms=ex.axioms)
        U.post('boundary-term', p, b == T.d1(arr[0]) + T.d1(arr[d - 1]), axioms=ex.axioms)
        U.post('defining-quadratic', list(p.pc), M.to_real(a) * x * x + M.to_real(b) * x == M.to_real(sz), qf=True)
        U.post('non-negative-root', list(p.pc), x >= 0, qf=True)


# ----------------------------------------------------------------------------------------------
# scaling lemma: if R[0] = c * A[0] and R[k] = A[k] for k >= 1 then chain(R, i, k) = c * chain(A, i, k)

AXS = T.axioms('shape', 'mulI', 'core', 'smul', 'chain', 'block')


def scaled_chain_lemma(U, name, ctx, R, A, c, ix, d, axioms):
    """R is A with ONE core multiplied by c (which core is read off the path: the code may scale any of them - the denoted
    tensor is the same).  Lemma by induction: chain(R, i, k) = chain(A, i, k) before that core and c * chain(A, i, k) from it on."""
    from ttvc.symex import quick_unsat
    m = None
    for cand in (z3.IntVal(0), d - 1):
        if quick_unsat(list(axioms) + list(ctx) + [z3.Not(R[cand] == T.cscale(c, A[cand]))]):
            m = cand
            break
    if m is None:
        U.post(f'exactly-one-core-is-scaled({name})', ctx, False, axioms=axioms, mode='ematch')
        m = z3.IntVal(0)
    kk = z3.Int('kk')
    P = lambda k: T.chain(R, ix, k) == z3.If(k >= m, T.smul(c, T.chain(A, ix, k)), T.chain(A, ix, k))
    U.lemma(f'chain-of-the-scaled-tensor-is-the-scaled-chain({name}).base', ctx, P(z3.IntVal(0)), axioms=axioms, mode='ematch', kind='lemma-base')
    U.lemma(f'chain-of-the-scaled-tensor-is-the-scaled-chain({name}).step', ctx + [kk >= 1, kk < d, P(kk - 1)], P(kk), axioms=axioms,
            mode='ematch', kind='lemma-step')
    return z3.ForAll([kk], z3.Implies(z3.And(0 <= kk, kk < d), P(kk)), patterns=[T.chain(R, ix, kk)])


def _mul_num_unit(U, num_first):
    fn = U.func('act_two', 'mul')
    ex = U.executor(fn, axioms=AXS)
    ex.mode = 'ematch'
    st = U.state()
    Y, A, d = S.tt_param(st, 'Yt')
    c = z3.Real('c')
    st.vars.update(Y1=c if num_first else Y, Y2=Y if num_first else c)
    res = U.run(ex, st, pre=[T.wf(A, d)])
    U.cover('precondition-satisfiable', U.pre, axioms=AXS)
    ix = z3.Const('ix', T.IDX)
    tt = z3.Int('tt')
    for p, o in res:
        if o.kind != 'return':
            U.post('no-exception', p, False, axioms=AXS, mode='ematch')
            continue
        Rs = p.deref(o.value)
        R = Rs.arr
        U.post('fresh-result-and-argument-untouched', p, z3.BoolVal(isinstance(o.value, VRef) and o.value.oid != Y.oid and p.heap[Y.oid].arr is A))
        U.post('same-length', p, Rs.n == d, axioms=AXS, mode='ematch')
        U.post('same-core-shapes', p, z3.Implies(z3.And(0 <= tt, tt < d), z3.And(T.d0(R[tt]) == T.d0(A[tt]), T.d1(R[tt]) == T.d1(A[tt]),
                                                                               T.d2(R[tt]) == T.d2(A[tt]))), axioms=AXS, mode='ematch')
        ctx = list(p.pc) + [T.index_ok(ix, A, d)]
        lem = scaled_chain_lemma(U, 'mul', ctx, R, A, c, ix, d, AXS)
        cs = lemma_chain_shape(U, 'Y', A, ix, d, ctx, AXS)
        U.post('value-is-the-number-times-the-entry', ctx + [lem, cs], val(R, ix, d) == c * val(A, ix, d), axioms=AXS, mode='ematch')
        U.canary('canary-value-unchanged', ctx + [lem, cs], val(R, ix, d) == val(A, ix, d), axioms=AXS)


@unit('act_two.mul.num_tt', props=('C01',))
def u_mul_nt(U):
    _mul_num_unit(U, True)


@unit('act_two.mul.tt_num', props=('C01',))
def u_mul_tn(U):
    _mul_num_unit(U, False)


# ----------------------------------------------------------------------------------------------
# call-site contract of add (tensor + tensor), proved by unit act_two.add.tt_tt

def call_add(ex, st, args, kwargs, node):
    Y1, Y2 = st.deref(args[0]), st.deref(args[1])
    if not (isinstance(Y1, VSeq) and isinstance(Y2, VSeq) and Y1.tag == 'core' and Y2.tag == 'core'):
        raise M.Unsupported('add: only the tensor + tensor case has a call-site contract')
    d = Y1.n
    ex.oblige(st, 'call-pre', 'add: two well-formed tensors of the same shape',
              z3.And(Y2.n == d, T.wf(Y1.arr, d), T.wf(Y2.arr, d), same_shape(Y1.arr, Y2.arr, d)), node)
    R = ex.fresh('Radd', T.TT)
    ixq = z3.Const('ix!q', T.IDX)
    t = z3.Int('t!add')
    st.assume(T.wf(R, d),
              z3.ForAll([t], z3.Implies(z3.And(0 <= t, t < d), T.d1(R[t]) == T.d1(Y1.arr[t])), patterns=[R[t]]),
              z3.ForAll([t], z3.Implies(z3.And(1 <= t, t < d), T.d0(R[t]) == T.d0(Y1.arr[t]) + T.d0(Y2.arr[t])), patterns=[R[t]]),
              z3.ForAll([ixq], z3.Implies(T.index_ok(ixq, Y1.arr, d),
                                          T.chain(R, ixq, d - 1) == T.madd(T.chain(Y1.arr, ixq, d - 1), T.chain(Y2.arr, ixq, d - 1))),
                        patterns=[T.chain(R, ixq, d - 1)]))
    return st.alloc(VSeq(R, d, M.mk_core, 'core'))


M.CALLEES['act_two.add'] = call_add


@unit('act_two.sub.tt_tt', props=('C01',))
def u_sub(U):
    fn = U.func('act_two', 'sub')
    ex = U.executor(fn, axioms=AXS)
    ex.mode = 'ematch'
    st = U.state()
    Y1, A1, d = S.tt_param(st, 'Y1', z3.Int('d'))
    Y2, A2, _ = S.tt_param(st, 'Y2', d)
    st.vars.update(Y1=Y1, Y2=Y2)
    res = U.run(ex, st, pre=[T.wf(A1, d), T.wf(A2, d), same_shape(A1, A2, d)])
    U.cover('precondition-satisfiable', U.pre, axioms=AXS)
    ix = z3.Const('ix', T.IDX)
    for p, o in res:
        if o.kind != 'return':
            U.post('no-exception', p, False, axioms=AXS, mode='ematch')
            continue
        Rs = p.deref(o.value)
        R = Rs.arr
        U.post('arguments-untouched', p, z3.BoolVal(p.heap[Y1.oid].arr is A1 and p.heap[Y2.oid].arr is A2))
        U.post('well-formed-same-shape', p, z3.And(Rs.n == d, T.wf(R, d)), axioms=AXS, mode='ematch')
        # the negated copy of Y2 that is handed to add
        N = p.deref(p.vars['Y2']).arr
        ctx = list(p.pc) + [T.index_ok(ix, A1, d)]
        lem = scaled_chain_lemma(U, 'sub', ctx, N, A2, z3.RealVal(-1), ix, d, AXS)
        cs1 = lemma_chain_shape(U, 'Y1', A1, ix, d, ctx, AXS)
        cs2 = lemma_chain_shape(U, 'Y2', A2, ix, d, ctx, AXS)
        U.post('value-is-the-difference', ctx + [lem, cs1, cs2], val(R, ix, d) == val(A1, ix, d) - val(A2, ix, d), axioms=AXS, mode='ematch')
        U.canary('canary-value-is-the-sum', ctx + [lem, cs1, cs2], val(R, ix, d) == val(A1, ix, d) + val(A2, ix, d), axioms=AXS)


# ----------------------------------------------------------------------------------------------
# act_two.outer: concatenation of the two core lists; value = product of the two values

@unit('act_two.outer', props=('C01',))
def u_outer(U):
    fn = U.func('act_two', 'outer')
    ex = U.executor(fn, axioms=AXS)
    ex.mode = 'ematch'
    st = U.state()
    Y1, A1, d1_ = S.tt_param(st, 'Y1', z3.Int('d1'))
    Y2, A2, d2_ = S.tt_param(st, 'Y2', z3.Int('d2'))
    st.vars.update(Y1=Y1, Y2=Y2)
    res = U.run(ex, st, pre=[T.wf(A1, d1_), T.wf(A2, d2_)])
    U.cover('precondition-satisfiable', U.pre, axioms=AXS)
    ix = z3.Const('ix', T.IDX)       # multi-index of the result: first d1 entries for Y1, the rest for Y2
    jx = z3.Const('jx', T.IDX)       # its tail, re-indexed from 0
    t, kk = z3.Int('t!o'), z3.Int('kk')
    for p, o in res:
        if o.kind != 'return':
            U.post('no-exception', p, False, axioms=AXS, mode='ematch')
            continue
        Rs = p.deref(o.value)
        R = Rs.arr
        d = d1_ + d2_
        U.post('fresh-result-and-arguments-untouched', p,
               z3.BoolVal(isinstance(o.value, VRef) and o.value.oid not in (Y1.oid, Y2.oid) and p.heap[Y1.oid].arr is A1 and p.heap[Y2.oid].arr is A2))
        U.post('length-is-the-sum', p, Rs.n == d, axioms=AXS, mode='ematch')
        U.post('cores-of-the-first-then-of-the-second', p,
               z3.And(z3.Implies(z3.And(0 <= t, t < d1_), R[t] == A1[t]), z3.Implies(z3.And(d1_ <= t, t < d), R[t] == A2[t - d1_])),
               axioms=AXS, mode='ematch')
        U.post('well-formed', p, T.wf(R, d), axioms=AXS, mode='ematch')
        ctx = list(p.pc) + [T.index_ok(ix, R, d), z3.ForAll([t], jx[t] == ix[t + d1_], patterns=[jx[t]]),
                            z3.ForAll([t], z3.Implies(z3.And(0 <= t, t < d1_), R[t] == A1[t]), patterns=[R[t]]),
                            z3.ForAll([t], z3.Implies(z3.And(d1_ <= t, t < d), R[t] == A2[t - d1_]), patterns=[R[t]])]
        cs1 = lemma_chain_shape(U, 'Y1', A1, ix, d1_, ctx, AXS)
        cs2 = lemma_chain_shape(U, 'Y2', A2, jx, d2_, ctx, AXS)
        # part 1 (k < d1): the chain of the result is the chain of Y1
        P1 = lambda k: T.chain(R, ix, k) == T.chain(A1, ix, k)
        U.lemma('first-part-of-the-chain-is-that-of-Y1.base', ctx, P1(z3.IntVal(0)), axioms=AXS, mode='ematch', kind='lemma-base')
        U.lemma('first-part-of-the-chain-is-that-of-Y1.step', ctx + [kk >= 1, kk < d1_, P1(kk - 1)], P1(kk), axioms=AXS, mode='ematch', kind='lemma-step')
        v1 = val(A1, ix, d1_)
        # part 2 (k = d1 + m): chain(R, ix, d1 + m) = val(Y1, i) * chain(Y2, j, m)
        m_ = z3.Int('m')
        P2 = lambda m: T.chain(R, ix, d1_ + m) == T.smul(v1, T.chain(A2, jx, m))
        U.lemma('second-part-is-val(Y1)-times-the-chain-of-Y2.base', ctx + [cs1, cs2, P1(d1_ - 1)], P2(z3.IntVal(0)), axioms=AXS, mode='ematch',
                kind='lemma-base')
        U.lemma('second-part-is-val(Y1)-times-the-chain-of-Y2.step', ctx + [cs1, cs2, m_ >= 1, m_ < d2_, P2(m_ - 1)], P2(m_), axioms=AXS,
                mode='ematch', kind='lemma-step')
        U.post('value-is-the-product-of-the-two-values', ctx + [cs1, cs2, P2(d2_ - 1)],
               val(R, ix, d) == v1 * val(A2, jx, d2_), axioms=AXS, mode='ematch')
        U.canary('canary-value-is-that-of-Y2', ctx + [cs1, cs2, P2(d2_ - 1)], val(R, ix, d) == val(A2, jx, d2_), axioms=AXS)


# ----------------------------------------------------------------------------------------------
# act_two.mul, tensor * tensor: Kronecker cores; value = product of the two values (mixed-product rule, proved in Lean)

AXK = T.axioms('shape', 'mulI', 'core', 'chain', 'kron')


@unit('act_two.mul.tt_tt', props=('C01',))
def u_mul_tt(U):
    fn = U.func('act_two', 'mul')
    st = U.state()
    Y1, A1, d = S.tt_param(st, 'Y1', z3.Int('d'))
    Y2, A2, _ = S.tt_param(st, 'Y2', d)
    t = z3.Int('t!m')

    def inv(ex, s, j):
        Ys = s.deref(s.vars['Y'])
        if not (isinstance(Ys, VSeq) and Ys.tag == 'core'):
            raise M.ContractMismatch('mul(): Y is not the list of result cores')
        return [('one-core-per-processed-pair', Ys.n == j),
                ('cores-are-the-Kronecker-cores', z3.ForAll([t], z3.Implies(z3.And(0 <= t, t < j), Ys.arr[t] == T.kc(A1[t], A2[t])),
                                                           patterns=[Ys.arr[t]]))]

    ex = U.executor(fn, loops={0: {'inv': inv}}, axioms=AXK, type_hints={'Y': 'tt'})
    ex.mode = 'ematch'
    st.vars.update(Y1=Y1, Y2=Y2)
    res = U.run(ex, st, pre=[T.wf(A1, d), T.wf(A2, d), same_shape(A1, A2, d)])
    U.cover('precondition-satisfiable', U.pre, axioms=AXK)
    ix = z3.Const('ix', T.IDX)
    kk = z3.Int('kk')
    for p, o in res:
        if o.kind != 'return':
            U.post('no-exception', p, False, axioms=AXK, mode='ematch')
            continue
        Rs = p.deref(o.value)
        if not (isinstance(Rs, VSeq) and Rs.tag == 'core'):
            U.post('result-is-a-list-of-cores', p, False)
            continue
        R = Rs.arr
        U.post('fresh-result-and-arguments-untouched', p,
               z3.BoolVal(isinstance(o.value, VRef) and o.value.oid not in (Y1.oid, Y2.oid) and p.heap[Y1.oid].arr is A1 and p.heap[Y2.oid].arr is A2))
        U.post('same-length', p, Rs.n == d, axioms=AXK, mode='ematch')
        U.post('cores-are-the-Kronecker-cores', p, z3.Implies(z3.And(0 <= t, t < d), R[t] == T.kc(A1[t], A2[t])), axioms=AXK, mode='ematch')
        U.post('well-formed', p, T.wf(R, d), axioms=AXK, mode='ematch')
        U.post('same-mode-sizes-and-product-ranks', p,
               z3.Implies(z3.And(0 <= t, t < d), z3.And(T.d1(R[t]) == T.d1(A1[t]), T.d2(R[t]) == T.mulI(T.d2(A1[t]), T.d2(A2[t])))),
               axioms=AXK, mode='ematch')
        ctx = list(p.pc) + [T.index_ok(ix, A1, d)]
        cs1 = lemma_chain_shape(U, 'Y1', A1, ix, d, ctx, AXK)
        cs2 = lemma_chain_shape(U, 'Y2', A2, ix, d, ctx, AXK)
        P = lambda k: T.chain(R, ix, k) == T.kron(T.chain(A1, ix, k), T.chain(A2, ix, k))
        U.lemma('chain-of-the-product-is-the-Kronecker-product-of-the-chains.base', ctx + [cs1, cs2], P(z3.IntVal(0)), axioms=AXK,
                mode='ematch', kind='lemma-base')
        U.lemma('chain-of-the-product-is-the-Kronecker-product-of-the-chains.step', ctx + [cs1, cs2, kk >= 1, kk < d, P(kk - 1)], P(kk),
                axioms=AXK, mode='ematch', kind='lemma-step')
        lem = z3.ForAll([kk], z3.Implies(z3.And(0 <= kk, kk < d), P(kk)), patterns=[T.chain(R, ix, kk)])
        U.post('value-is-the-product-of-the-entries', ctx + [lem, cs1, cs2], val(R, ix, d) == val(A1, ix, d) * val(A2, ix, d), axioms=AXK,
               mode='ematch')
        U.canary('canary-value-is-that-of-the-first-factor', ctx + [lem, cs1, cs2], val(R, ix, d) == val(A1, ix, d), axioms=AXK)


# ----------------------------------------------------------------------------------------------
# act_two.mul_scalar (plain and stabilised): the result is the 1 x 1 end of the scalar-product chain
#     schain(Y1, Y2, k) = prod_{t <= k} sum_j kron(Y1[t][:, j, :], Y2[t][:, j, :]),
# with use_stab: mantissa * 2^p = that value, p an integer (C16: "a mantissa and a power-of-two exponent whose product is
# the true value").  That the end of this chain is the sum over all multi-indices of val(Y1, i) * val(Y2, i) is the
# distributive law L-SUMPROD (cited lemma, not re-proved).

AXM = T.axioms('shape', 'mulI', 'core', 'smul', 'schain', 'pow2r', 'pow2add')


def _mul_scalar_unit(U, use_stab):
    fn = U.func('act_two', 'mul_scalar')
    st = U.state()
    Y1, A1, d = S.tt_param(st, 'Y1', z3.Int('d'))
    Y2, A2, _ = S.tt_param(st, 'Y2', d)

    def inv(ex, s, j):
        v, p = s.vars['v'], s.vars['p']
        if not (isinstance(v, VArr) and v.ndim == 2 and v.tag == 'mat' and v.t is not None):
            raise M.ContractMismatch('mul_scalar(): v is not a matrix after the first pass')
        if not M.is_intsort(Z(p)):
            return [('exponent-is-an-integer', z3.BoolVal(False))]
        scaled = T.smul(T.pow2r(z3.ToReal(Z(p))), v.t) if use_stab else v.t
        out = [('accumulated-product-is-the-chain-up-to-the-last-processed-core', scaled == T.schain(A1, A2, j - 1)),
               ('accumulated-product-is-a-row-block', z3.And(T.rows(v.t) == 1, T.cols(v.t) == T.mulI(T.d2(A1[j - 1]), T.d2(A2[j - 1]))))]
        if not use_stab:
            out.append(('exponent-untouched', Z(p) == 0))
        return out

    ex = U.executor(fn, loops={0: {'inv': inv, 'peel': 1}}, axioms=AXM)
    ex.mode = 'ematch'
    st.vars.update(Y1=Y1, Y2=Y2, use_stab=use_stab)
    res = U.run(ex, st, pre=[T.wf(A1, d), T.wf(A2, d), same_shape(A1, A2, d)])
    U.cover('precondition-satisfiable', U.pre, axioms=AXM)
    for p, o in res:
        if o.kind != 'return':
            U.post('no-exception', p, False, axioms=AXM, mode='ematch')
            continue
        U.post('arguments-untouched', p, z3.BoolVal(p.heap[Y1.oid].arr is A1 and p.heap[Y2.oid].arr is A2))
        true_value = T.ent(T.schain(A1, A2, d - 1), 0, 0)
        if use_stab:
            ok = isinstance(o.value, VTuple) and len(o.value.items) == 2 and M.is_intsort(Z(o.value.items[1]))
            U.post('returns-mantissa-and-integer-exponent', p, z3.BoolVal(ok))
            if not ok:
                continue
            m_, e_ = o.value.items
            U.post('mantissa-times-2^exponent-is-the-scalar-product', p, T.pow2r(z3.ToReal(Z(e_))) * M.to_real(m_) == true_value,
                   axioms=AXM, mode='ematch')
            U.canary('canary-exponent-always-zero', p, Z(e_) == 0, axioms=AXM)
        else:
            U.post('returns-a-number', p, z3.BoolVal(M.is_num(o.value)))
            if M.is_num(o.value):
                U.post('value-is-the-scalar-product', p, M.to_real(o.value) == true_value, axioms=AXM, mode='ematch')
                U.canary('canary-value-always-zero', p, M.to_real(o.value) == 0, axioms=AXM)


@unit('act_two.mul_scalar', props=('C01',))
def u_mul_scalar(U):
    _mul_scalar_unit(U, False)


@unit('act_two.mul_scalar.stab', props=('C01', 'C16'))
def u_mul_scalar_stab(U):
    _mul_scalar_unit(U, True)


def call_mul_scalar(ex, st, args, kwargs, node):
    """Call-site contract of mul_scalar (proved by the units act_two.mul_scalar[.stab])."""
    Y1, Y2 = st.deref(args[0]), st.deref(args[1])
    if not (isinstance(Y1, VSeq) and isinstance(Y2, VSeq) and Y1.tag == 'core' and Y2.tag == 'core'):
        raise M.Unsupported('mul_scalar: arguments are not TT lists')
    stab = kwargs.get('use_stab', args[2] if len(args) > 2 else False)
    if not isinstance(stab, bool):
        raise M.Unsupported('mul_scalar: use_stab is not a literal')
    d = Y1.n
    ex.oblige(st, 'call-pre', 'mul_scalar: two well-formed tensors of the same shape',
              z3.And(Y2.n == d, T.wf(Y1.arr, d), T.wf(Y2.arr, d), same_shape(Y1.arr, Y2.arr, d)), node)
    true_value = T.ent(T.schain(Y1.arr, Y2.arr, d - 1), 0, 0)
    st.ghost.setdefault('mul_scalar', []).append((Y1.arr, Y2.arr, d, stab))
    if stab:
        m_, e_ = ex.fresh_real('mant'), ex.fresh_int('expo')
        st.assume(T.pow2r(z3.ToReal(e_)) * m_ == true_value)
        return VTuple([m_, e_])
    v = ex.fresh_real('dot')
    st.assume(v == true_value)
    return v


M.CALLEES['act_two.mul_scalar'] = call_mul_scalar


def _norm_unit(U, use_stab):
    fn = U.func('act_one', 'norm')
    AXN = T.axioms('shape', 'real', 'pow2r', 'pow2add')
    ex = U.executor(fn, axioms=AXN)
    st = U.state()
    Y, A, d = S.tt_param(st, 'Y')
    st.vars.update(Y=Y, use_stab=use_stab)
    res = U.run(ex, st, pre=[T.wf(A, d)])
    U.cover('precondition-satisfiable', U.pre, axioms=AXN)
    sq = T.ent(T.schain(A, A, d - 1), 0, 0)              # <Y, Y>
    for p, o in res:
        if o.kind != 'return':
            U.post('no-exception', p, False, axioms=AXN)
            continue
        calls = p.ghost.get('mul_scalar', [])
        U.post('one-scalar-product-of-the-tensor-with-itself', p,
               z3.BoolVal(len(calls) == 1 and calls[0][0] is A and calls[0][1] is A and calls[0][3] == use_stab))
        if use_stab:
            ok = isinstance(o.value, VTuple) and len(o.value.items) == 2 and M.is_num(o.value.items[0]) and M.is_num(o.value.items[1])
            U.post('returns-mantissa-and-exponent', p, z3.BoolVal(ok))
            if not ok:
                continue
            n_, h_ = [M.to_real(x) for x in o.value.items]
            ph = T.pow2r(h_)
            inst = [z3.Implies(h_ + h_ == h_ + h_, T.pow2r(h_ + h_) == ph * ph), ph > 0]          # instances of 'pow2add' / 'pow2r'
            U.post('mantissa-non-negative', p, n_ >= 0, axioms=AXN)
            U.post('exponent-is-an-integer-or-half-integer', p, z3.IsInt(2 * h_), axioms=AXN)
            U.post('(mantissa*2^exponent)^2-is-<Y,Y>-when-positive', p, z3.Implies(sq > 0, (n_ * ph) * (n_ * ph) == sq), axioms=AXN, extra=inst)
            U.post('zero-mantissa-when-<Y,Y>-is-not-positive', p, z3.Implies(sq <= 0, n_ == 0), axioms=AXN, extra=inst)
            U.canary('canary-exponent-always-zero', p, h_ == 0, axioms=AXN)
        else:
            U.post('returns-a-number', p, z3.BoolVal(M.is_num(o.value)))
            if not M.is_num(o.value):
                continue
            n_ = M.to_real(o.value)
            U.post('non-negative', p, n_ >= 0, axioms=AXN)
            U.post('square-is-<Y,Y>-when-positive', p, z3.Implies(sq > 0, n_ * n_ == sq), axioms=AXN)
            U.post('zero-when-<Y,Y>-is-not-positive', p, z3.Implies(sq <= 0, n_ == 0), axioms=AXN)
            U.canary('canary-always-zero', p, n_ == 0, axioms=AXN)


@unit('act_one.norm', props=('C01', 'C11'))
def u_norm(U):
    _norm_unit(U, False)


@unit('act_one.norm.stab', props=('C01', 'C16'))
def u_norm_stab(U):
    _norm_unit(U, True)


# ----------------------------------------------------------------------------------------------
# act_two.accuracy (TT arguments): || Y1 - Y2 || / || Y2 || through the two stabilised norms, the two saturation values
# and the documented sentinel -1 (C01, C11, C16)

def _flt(x):
    """The real number a float literal of the source denotes (exactly)."""
    from fractions import Fraction
    return z3.RealVal(str(Fraction(x)))


def _accuracy_unit(U):
    fn = U.func('act_two', 'accuracy')
    AXA = T.axioms('shape', 'real', 'pow2r', 'pow2add')
    st = U.state()
    Y1, A1, d = S.tt_param(st, 'Y1', z3.Int('d'))
    Y2, A2, _ = S.tt_param(st, 'Y2', d)
    norms = []

    def c_sub(ex, s, a, kw, node):
        P, Q = s.deref(a[0]), s.deref(a[1])
        if not (isinstance(P, VSeq) and isinstance(Q, VSeq) and P.tag == 'core' and Q.tag == 'core'):
            raise M.ContractMismatch('accuracy(): sub is not called with two TT lists')
        ex.oblige(s, 'call-pre', 'sub: two well-formed tensors of the same shape',
                  z3.And(Q.n == P.n, T.wf(P.arr, P.n), T.wf(Q.arr, P.n), same_shape(P.arr, Q.arr, P.n)), node)
        D = ex.fresh('Dsub', T.TT)
        s.assume(T.wf(D, P.n))
        s.ghost['sub'] = (P.arr, Q.arr, D)
        return s.alloc(VSeq(D, P.n, M.mk_core, 'core'))

    def c_norm(ex, s, a, kw, node):
        # postcondition of norm(Y, use_stab=True) proved by unit act_one.norm.stab
        Ys = s.deref(a[0])
        stab = kw.get('use_stab', a[1] if len(a) > 1 else False)
        if not (isinstance(Ys, VSeq) and Ys.tag == 'core') or stab is not True:
            raise M.ContractMismatch('accuracy(): norm is not called as norm(<TT>, use_stab=True)')
        ex.oblige(s, 'call-pre', 'norm: well-formed tensor', T.wf(Ys.arr, Ys.n), node)
        z, h = ex.fresh_real('mant'), ex.fresh_real('halfexp')
        sq = T.ent(T.schain(Ys.arr, Ys.arr, Ys.n - 1), 0, 0)
        s.assume(z >= 0, z3.IsInt(2 * h), T.pow2r(h) > 0, z3.Implies(sq > 0, (z * T.pow2r(h)) * (z * T.pow2r(h)) == sq),
                 z3.Implies(sq <= 0, z == 0))
        norms.append((Ys.arr, z, h))
        s.ghost.setdefault('norms', []).append((Ys.arr, z, h))
        return VTuple([z, h])

    ex = U.executor(fn, callees={'act_two.sub': c_sub, 'act_one.norm': c_norm}, axioms=AXA)
    st.vars.update(Y1=Y1, Y2=Y2)
    res = U.run(ex, st, pre=[T.wf(A1, d), T.wf(A2, d), same_shape(A1, A2, d)])
    U.cover('precondition-satisfiable', U.pre, axioms=AXA)
    for p, o in res:
        if o.kind != 'return':
            U.post('no-exception', p, False, axioms=AXA)
            continue
        ns = p.ghost.get('norms', [])
        sub_ = p.ghost.get('sub')
        ok = len(ns) == 2 and sub_ is not None and sub_[0] is A1 and sub_[1] is A2 and ns[0][0] is sub_[2] and ns[1][0] is A2
        U.post('norm-of-the-difference-and-norm-of-the-second-argument', p, z3.BoolVal(ok))
        if not ok or not M.is_num(o.value):
            U.post('returns-a-number', p, z3.BoolVal(M.is_num(o.value)))
            continue
        (_, z1, p1), (_, z2, p2) = ns
        ret = M.to_real(o.value)
        n1, n2 = z1 * T.pow2r(p1), z2 * T.pow2r(p2)              # || Y1 - Y2 ||  and  || Y2 ||
        near = z3.And(p1 - p2 <= 500, p1 - p2 >= -500)
        absz2 = z3.If(z2 >= 0, z2, -z2)
        inst = [z3.Implies(p1 == (p1 - p2) + p2, T.pow2r(p1) == T.pow2r(p1 - p2) * T.pow2r(p2)), T.pow2r(p1) > 0, T.pow2r(p2) > 0,
                T.pow2r(p1 - p2) > 0]                                   # instances of 'pow2add' / 'pow2r'
        hy = list(p.pc) + inst
        U.post('saturates-at-1e299-when-the-exponents-differ-by-more-than-500', hy, z3.Implies(p1 - p2 > 500, ret == _flt(1e299)), qf=True)
        U.post('zero-when-the-difference-is-smaller-by-more-than-2^500', hy, z3.Implies(p1 - p2 < -500, ret == 0), qf=True)
        U.post('sentinel--1-when-the-reference-norm-mantissa-is-below-1e-100', hy,
               z3.Implies(z3.And(near, absz2 < _flt(1e-100)), ret == -1), qf=True)
        U.post('otherwise-result-times-norm(Y2)-is-norm(Y1-Y2)', hy,
               z3.Implies(z3.And(near, absz2 >= _flt(1e-100)), z3.And(ret * n2 == n1, ret >= 0)), qf=True)
        U.canary('canary-always-sentinel', p, ret == -1, axioms=AXA)


@unit('act_two.accuracy', props=('C01', 'C11', 'C16'))
def u_accuracy(U):
    _accuracy_unit(U)
