"""Sidecar contracts for teneva/utils.py: index helpers (C19), _maxvol dispatch (C08), _rand (C10)."""
import z3
from ttvc.units import unit
from ttvc.symex import VOpt, VStr, VRec, VSeq, VArr, VFunc, VTuple, NONE, Z
from ttvc import models as M, theory as T
from contracts import spec as S

# spec functions: shr(x, k) = x div 2^k (defined by recursion), bit(x, k) = shr(x, k) mod 2
shr = z3.Function('shr', z3.IntSort(), z3.IntSort(), z3.IntSort())
_x, _k, _j = z3.Ints('x_ k_ j_')
SHR_DEF = [z3.ForAll([_x], shr(_x, 0) == _x, patterns=[shr(_x, 0)]),
           z3.ForAll([_x, _k, _j], z3.Implies(z3.And(_k >= 0, _j == _k + 1), shr(_x, _j) == shr(_x, _k) / 2),
                     patterns=[z3.MultiPattern(shr(_x, _k), shr(_x, _j))])]


def bit(x, k):
    return shr(x, k) % 2


def shr_bounds(x, k):
    """Lemma L-SHR (proved below by induction on k):  2^k * shr(x,k) <= x < 2^k * shr(x,k) + 2^k."""
    return z3.And(T.pow2(k) * shr(x, k) <= x, x < T.pow2(k) * shr(x, k) + T.pow2(k))


@unit('utils._vector_index_prepare', props=('C19',))
def u_prepare(U):
    fn = U.func('utils', '_vector_index_prepare')
    ex = U.executor(fn, axioms=T.axioms('pow2'))
    st = U.state()
    q, i = z3.Int('q'), z3.Int('i')
    st.vars.update(q=q, i=i)
    res = U.run(ex, st, pre=[q >= 0])
    U.cover('precondition-satisfiable', U.pre, axioms=ex.axioms)
    n = T.pow2(q)
    bad = z3.Or(i >= n, i < -n)
    for p, o in res:
        if o.kind == 'raise':
            U.raise_iff('raises-only-if-out-of-range', p, bad, axioms=ex.axioms)
            U.raise_iff('raises-ValueError', p, o.exc == 'ValueError')
        else:
            U.raise_iff('returns-only-if-in-range', p, z3.Not(bad), axioms=ex.axioms)
            r = Z(o.value)
            U.post('negative-counted-from-the-end', p, r == z3.If(i >= 0, i, n + i), axioms=ex.axioms)
            U.post('result-in-range', p, z3.And(r >= 0, r < n), axioms=ex.axioms)
    U.canary('canary-never-raises', U.pre, z3.Not(bad), axioms=ex.axioms)


def call_prepare(ex, st, args, kwargs, node):
    q, i = Z(args[0]), Z(args[1])
    n = T.pow2(q)
    ex.oblige(st, 'call-pre', '_vector_index_prepare: index within [-2^q, 2^q)', z3.And(q >= 0, i < n, i >= -n), node)
    r = ex.fresh_int('pos')
    st.assume(r == z3.If(i >= 0, i, n + i), r >= 0, r < n)
    return r


M.CALLEES['utils._vector_index_prepare'] = call_prepare


@unit('utils._vector_index_expand', props=('C19',))
def u_expand(U):
    fn = U.func('utils', '_vector_index_expand')
    ax = T.axioms('pow2') + SHR_DEF
    q, i0 = z3.Int('q'), z3.Int('i0')

    def inv(ex, st, j):
        ind = st.deref(st.vars['ind'])
        i = st.vars['i']
        k = z3.Int('k!inv')
        return [('length', ind.n == j), ('remaining-quotient', z3.And(Z(i) == shr(i0, j), Z(i) >= 0)),
                ('bits-so-far', z3.ForAll([k], z3.Implies(z3.And(0 <= k, k < j), ind.arr[k] == bit(i0, k)),
                                          patterns=[ind.arr[k]]))]

    ex = U.executor(fn, loops={0: {'inv': inv}}, axioms=ax, type_hints={'ind': 'intseq'})
    st = U.state()
    st.vars.update(q=q, i=i0)
    res = U.run(ex, st, pre=[q >= 0])
    U.cover('precondition-satisfiable', U.pre, axioms=ax)
    # lemma L-SHR by induction on k (for arbitrary x >= 0)
    x, k = z3.Ints('x k')
    U.lemma('L-SHR.base', [x >= 0], shr_bounds(x, z3.IntVal(0)), axioms=ax, kind='lemma-base')
    U.lemma('L-SHR.step', [x >= 0, k >= 0, shr(x, k) >= 0, shr_bounds(x, k)],
            z3.And(shr_bounds(x, k + 1), shr(x, k + 1) >= 0), axioms=ax, kind='lemma-step')
    lem = [z3.Implies(i0 >= 0, shr_bounds(i0, q))]
    raises = z3.If(i0 < 0, i0 != -1, i0 >= T.pow2(q))
    kk = z3.Int('kk')
    for p, o in res:
        if o.kind == 'raise':
            U.raise_iff('raises-only-if-unsupported-negative-or-too-large', p, raises, axioms=ax, extra=lem)
            U.raise_iff('raises-ValueError', p, o.exc == 'ValueError')
        else:
            U.raise_iff('returns-only-if-representable', p, z3.Not(raises), axioms=ax, extra=lem)
            ind = p.deref(o.value)
            U.post('q-digits', p, ind.n == q, axioms=ax)
            U.post('little-endian-bits', p, z3.Implies(z3.And(i0 >= 0, 0 <= kk, kk < q), ind.arr[kk] == bit(i0, kk)),
                   axioms=ax)
            U.post('minus-one-is-all-ones', p, z3.Implies(z3.And(i0 < 0, 0 <= kk, kk < q), ind.arr[kk] == 1), axioms=ax)
            U.post('digits-are-bits', p, z3.Implies(z3.And(0 <= kk, kk < q), z3.Or(ind.arr[kk] == 0, ind.arr[kk] == 1)),
                   axioms=ax)
    U.canary('canary-never-raises', U.pre, z3.Not(raises), axioms=ax)


def call_expand(ex, st, args, kwargs, node):
    q, i = Z(args[0]), Z(args[1])
    ex.oblige(st, 'call-pre', '_vector_index_expand: 0 <= i < 2^q or i == -1', z3.And(q >= 0, z3.Or(i == -1, z3.And(i >= 0, i < T.pow2(q)))), node)
    arr = ex.fresh('bits', z3.ArraySort(z3.IntSort(), z3.IntSort()))
    k = z3.Int('k!b')
    st.assume(z3.ForAll([k], z3.Implies(z3.And(0 <= k, k < q), z3.And(arr[k] == z3.If(i >= 0, bit(i, k), 1),
                                                                      z3.Or(arr[k] == 0, arr[k] == 1))), patterns=[arr[k]]))
    return st.alloc(VSeq(arr, q, lambda t: t, tag='int'))


M.CALLEES['utils._vector_index_expand'] = call_expand


@unit('utils._rand', props=('C10',))
def u_rand(U):
    """C10 mechanism 'seed normalisation': None or an int -> a fresh numpy Generator seeded with exactly that value;
    anything else (a Generator object) is used as it is.  The global NumPy generator is never touched."""
    from ttvc import rnd as R
    fn = U.func('utils', '_rand')
    for name, seed in (('int', z3.Int('seed')), ('None', NONE), ('generator', R.VGen('caller'))):
        ex = U.executor(fn)
        st = U.state()
        st.vars.update(seed=seed)
        res = U.run(ex, st)
        if name == 'int':
            U.cover('int-case-reachable', U.pre)
        for p, o in res:
            if o.kind != 'return' or not isinstance(o.value, R.VGen):
                U.post(f'{name}-seed-gives-a-generator', p, False)
                continue
            g = o.value
            if name == 'generator':
                U.post('generator-object-is-used-as-it-is', p, z3.BoolVal(g is seed))
            elif name == 'int':
                ok = isinstance(g.origin, tuple) and g.origin[0] == 'default_rng' and M.is_intsort(g.origin[1])
                U.post('integer-seed-is-passed-unchanged-to-default_rng (including 0 and negative values)', p,
                       (Z(g.origin[1]) == seed) if ok else False)
            else:
                U.post('None-gives-a-fresh-default_rng', p, z3.BoolVal(isinstance(g.origin, tuple) and g.origin[1] is NONE))
