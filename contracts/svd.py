"""Sidecar contracts for teneva/svd.py: truncated matrix factorisations and TT-SVD (C02, C03, C11, C20)."""
import z3
from ttvc.units import unit
from ttvc.symex import VOpt, VStr, VRec, VSeq, VArr, VFunc, VTuple, VRef, VList, NONE, Z
from ttvc import models as M, theory as T, vec as V
from contracts import spec as S

AX = T.axioms('shape', 'mulI', 'sub', 'sq')


def rank_post(q, k, cap, tail, e2, q0):
    """Tail-energy rank selection (C02 / C03): with tail(j) = sum_{t >= j} ss_t^2 (spec function defined by
    recursion over the singular values, see `tail_def`) and cap = int(r):
      1 <= q <= max(1, cap);  q <= max(1, k);
      unless the cap binds (cap >= q0, q0 the uncapped choice): the discarded tail energy is <= e^2 and q is the
      smallest such size (or 1, the rank floor)."""
    free = cap >= q0
    return {
        'rank-at-least-1': q >= 1,
        'rank-at-most-cap': q <= z3.If(cap >= 1, cap, 1),
        'rank-at-most-min-dimension': q <= z3.If(k >= 1, k, 1),
        'discarded-tail-energy-within-e^2-unless-cap-binds': z3.Implies(z3.And(free, q <= k), tail(q) <= e2),
        'smallest-such-rank-unless-cap-binds': z3.Implies(z3.And(free, q >= 2), tail(q - 1) > e2),
    }


def tail_def(name, ss, k):
    """Spec function tail(j) = sum_{t=j}^{k-1} ss[t]^2, by downward recursion (loop-free multi-pattern)."""
    tail = z3.Function(name, z3.IntSort(), z3.RealSort())
    j, j2 = z3.Ints('j!t j2!t')
    ax = [tail(k) == 0,
          z3.ForAll([j, j2], z3.Implies(z3.And(0 <= j, j2 == j + 1, j2 <= k), tail(j) == tail(j2) + T.sqf(ss(j))),
                    patterns=[z3.MultiPattern(tail(j), tail(j2))])]
    return tail, ax


def tail_lemma(U, p, C, tail, tail_ax, k, axioms):
    """Lemma (induction on t): the vector C computed by the code (cumulative sum of the reversed squares) satisfies
    C[t] = tail(k-1-t) for 0 <= t < k.  Returns the quantified statement for use as a hypothesis."""
    t = z3.Int('t!l')
    hyp = list(p.pc) + tail_ax
    U.lemma('cumsum-of-reversed-squares-is-the-tail-energy.base', hyp + [k >= 1], C[0] == tail(k - 1), axioms=axioms,
            kind='lemma-base')
    U.lemma('cumsum-of-reversed-squares-is-the-tail-energy.step', hyp + [t >= 0, t + 1 < k, C[t] == tail(k - 1 - t)],
            C[t + 1] == tail(k - 2 - t), axioms=axioms, kind='lemma-step')
    # the same statement indexed by t (trigger C[t]) and by j = k-1-t (trigger tail(j))
    return z3.And(z3.ForAll([t], z3.Implies(z3.And(0 <= t, t < k), C[t] == tail(k - 1 - t)), patterns=[C[t]]),
                  z3.ForAll([t], z3.Implies(z3.And(0 <= t, t < k), tail(t) == C[k - 1 - t]), patterns=[tail(t)]))


def _skeleton_unit(U, rel, give_to):
    fn = U.func('svd', 'matrix_skeleton')
    ex = U.executor(fn, axioms=AX)
    st = U.state()
    A, a = S.mat_param('A')
    e, r = z3.Real('e'), z3.Real('r')
    st.vars.update(A=A, e=e, r=r, hermitian=False, rel=rel, give_to=VStr(give_to))
    m_, n_ = T.rows(a), T.cols(a)
    pre = [m_ >= 1, n_ >= 1, e >= 0, r >= 0] + ([V.nonzero(a)] if rel else [])   # rel=True divides by the largest singular value
    res = U.run(ex, st, pre=pre)
    U.cover('precondition-satisfiable', U.pre, axioms=AX)
    cap = z3.ToInt(r)
    ii = z3.Int('ii')
    for p, o in res:
        if o.kind != 'return':
            U.post('no-exception', p, False, axioms=AX)
            continue
        L, R = [p.deref(x) for x in o.value.items]
        sv = p.ghost['svd'][0]
        k = sv['k']
        if len(p.ghost.get('cumsum', [])) != 1:
            raise M.ContractMismatch('matrix_skeleton: expected exactly one cumsum')
        (_, Cv), = p.ghost['cumsum']
        sarr = sv['s'].t
        # the spec's energies: the singular values, divided by the largest one when rel=True (from the statement of C03)
        ss = (lambda j: T.divf(sarr[j], sarr[0])) if rel else (lambda j: sarr[j])
        q = Z(L.shape[1])
        qv = p.vars['r']
        dlen = p.vars['dlen']
        tail, tax = tail_def('tail', ss, k)
        lem = tail_lemma(U, p, Cv.t, tail, tax, k, AX)
        U.post('factor-shapes', p, z3.And(Z(L.shape[0]) == m_, Z(R.shape[0]) == q, Z(R.shape[1]) == n_, q == Z(qv)), axioms=AX)
        for lbl, g in rank_post(q, k, cap, tail, e * e, k - Z(dlen)).items():
            U.post(lbl, p, g, axioms=AX, extra=tax + [lem])
        if give_to == 'l':
            U.post('right-factor-has-orthonormal-rows', p, T.mm(R.t, T.tr(R.t)) == T.eye(q), axioms=AX)
            U.post('right-factor-is-leading-rows-of-V', p, R.t == V.trows(sv['V'], q), axioms=AX)
        if give_to == 'r':
            U.post('left-factor-has-orthonormal-columns', p, T.mm(T.tr(L.t), L.t) == T.eye(q), axioms=AX)
            U.post('left-factor-is-leading-columns-of-U', p, L.t == V.lcols(sv['U'], q), axioms=AX)
        U.canary('canary-rank-is-1', p, q == 1, axioms=AX)


for _rel in (False, True):
    for _g in 'lrm':
        def _mk(rel=_rel, g=_g):
            @unit(f'svd.matrix_skeleton.{"rel" if rel else "abs"}.{g}', props=('C02', 'C03', 'C11'))
            def u(U):
                _skeleton_unit(U, rel, g)
        _mk()


# ----------------------------------------------------------------------------------------------
# call-site contracts of the truncated factorisations

def _cap(r):
    r = Z(r)
    return z3.ToInt(r) if r.sort() == z3.RealSort() else r


def call_skeleton(ex, st, args, kwargs, node):
    """matrix_skeleton(A, e, r, [hermitian], rel=, give_to=): proved by the units svd.matrix_skeleton.<abs|rel>.<l|r|m>."""
    A = st.deref(args[0])
    if not (isinstance(A, VArr) and A.ndim == 2):
        raise M.Unsupported('matrix_skeleton of a non-matrix')
    e = ex.need_num(st, args[1], node) if len(args) > 1 else 1e-10
    r = ex.need_num(st, args[2], node) if len(args) > 2 else 1e12
    give = kwargs.get('give_to', VStr('m'))
    give = give.concrete() if isinstance(give, VStr) else None
    rel = kwargs.get('rel', False)
    if give not in ('l', 'r', 'm') or not isinstance(rel, bool):
        raise M.Unsupported('matrix_skeleton: give_to / rel must be literals at the call site')
    ex.oblige(st, 'call-pre', 'matrix_skeleton: non-empty matrix, e >= 0, r >= 0',
              z3.And(Z(A.shape[0]) >= 1, Z(A.shape[1]) >= 1, Z(e) >= 0, Z(r) >= 0), node)
    if rel:
        ex.oblige(st, 'call-pre', 'matrix_skeleton(rel=True): non-zero matrix', V.nonzero(A.t) if A.t is not None else False, node)
    m_, n_ = Z(A.shape[0]), Z(A.shape[1])
    L, R = ex.fresh('Lsk', T.Mat), ex.fresh('Rsk', T.Mat)
    q = T.cols(L)
    cap = _cap(r)
    st.assume(T.rows(L) == m_, T.rows(R) == q, T.cols(R) == n_, q >= 1, q <= z3.If(cap >= 1, cap, 1),
              q <= z3.If(m_ <= n_, m_, n_))
    if give == 'l':
        st.assume(T.mm(R, T.tr(R)) == T.eye(q))
    if give == 'r':
        st.assume(T.mm(T.tr(L), L) == T.eye(q))
    st.ghost.setdefault('fact_calls', []).append(dict(fn='matrix_skeleton', A=A, e=e, r=r, give=give, rel=rel, L=L, R=R))
    return VTuple([M.mk_mat(L), M.mk_mat(R)])


M.CALLEES['svd.matrix_skeleton'] = call_skeleton


def call_matrix_svd(ex, st, args, kwargs, node):
    """matrix_svd(A, e, r): shapes and rank bounds proved by unit svd.matrix_svd; the orthonormality of the rows of the
    right factor (for non-zero retained singular values) is an ASSUMED part of this contract (eigen-equation of
    np.linalg.eigh, A-LAPACK) and is listed in the trusted base."""
    A = st.deref(args[0])
    if not (isinstance(A, VArr) and A.ndim == 2):
        raise M.Unsupported('matrix_svd of a non-matrix')
    e = ex.need_num(st, args[1], node) if len(args) > 1 else 1e-10
    r = ex.need_num(st, args[2], node) if len(args) > 2 else 1e12
    ex.oblige(st, 'call-pre', 'matrix_svd: non-empty matrix, e >= 0, r >= 0',
              z3.And(Z(A.shape[0]) >= 1, Z(A.shape[1]) >= 1, Z(e) >= 0, Z(r) >= 0), node)
    m_, n_ = Z(A.shape[0]), Z(A.shape[1])
    L, R = ex.fresh('Usvd', T.Mat), ex.fresh('Vsvd', T.Mat)
    q = T.cols(L)
    cap = _cap(r)
    st.assume(T.rows(L) == m_, T.rows(R) == q, T.cols(R) == n_, q >= 1, q <= z3.If(cap >= 1, cap, 1),
              q <= z3.If(m_ <= n_, m_, n_))
    st.assume(T.mm(R, T.tr(R)) == T.eye(q))
    M.used('ASSUMED contract clause: matrix_svd returns a right factor with orthonormal rows when the retained singular '
           'values are non-zero (eigen-equation of np.linalg.eigh)')
    st.ghost.setdefault('fact_calls', []).append(dict(fn='matrix_svd', A=A, e=e, r=r, give='l', rel=False, L=L, R=R))
    return VTuple([M.mk_mat(L), M.mk_mat(R)])


M.CALLEES['svd.matrix_svd'] = call_matrix_svd


# ----------------------------------------------------------------------------------------------
# matrix_svd (eigen-decomposition variant)

@unit('svd.matrix_svd', props=('C02', 'C03', 'C11'))
def u_matrix_svd(U):
    fn = U.func('svd', 'matrix_svd')
    ex = U.executor(fn, axioms=AX)
    st = U.state()
    A, a = S.mat_param('A')
    e, r = z3.Real('e'), z3.Real('r')
    st.vars.update(A=A, e=e, r=r)
    m_, n_ = T.rows(a), T.cols(a)
    res = U.run(ex, st, pre=[m_ >= 1, n_ >= 1, e >= 0, r >= 0])
    U.cover('precondition-satisfiable', U.pre, axioms=AX)
    cap = z3.ToInt(r)
    for p, o in res:
        if o.kind != 'return':
            U.post('no-exception', p, False, axioms=AX)
            continue
        L, R = [p.deref(x) for x in o.value.items]
        if len(p.ghost.get('cumsum', [])) != 1 or len(p.ghost.get('sorted', [])) != 1:
            raise M.ContractMismatch('matrix_svd: expected one cumsum and one descending sort of the eigenvalue roots')
        (_, Cv), = p.ghost['cumsum']
        (_, wsorted), = p.ghost['sorted']
        k = Z(wsorted.shape[0])
        U.post('spectrum-has-min-dimension-entries', p, k == z3.If(m_ <= n_, m_, n_), axioms=AX)
        # tail(j) = sum_{t >= j} w_t^2 over the descending singular values w (the roots of the clipped eigenvalues)
        tail, tax = tail_def('tail', lambda j: wsorted.t[j], k)
        lem = tail_lemma(U, p, Cv.t, tail, tax, k, AX)
        q = Z(p.vars['rank'])
        dlen = p.vars['dlen']
        U.post('factor-shapes', p, z3.And(Z(L.shape[0]) == m_, Z(L.shape[1]) == q, Z(R.shape[0]) == q, Z(R.shape[1]) == n_), axioms=AX)
        for lbl, g in rank_post(q, k, cap, tail, e * e, k - Z(dlen)).items():
            U.post(lbl, p, g, axioms=AX, extra=tax + [lem])
        U.canary('canary-rank-is-1', p, q == 1, axioms=AX)


# ----------------------------------------------------------------------------------------------
# svd(): TT-SVD sweep.  L-TTSVD needs every appended core to be the orthonormal left factor of the step, the weights
# travelling with the remainder (C03 mechanism).  The dense input has symbolic dimension; only its shape is interpreted
# and the size compatibility of the reshapes is not modelled (lenient tier).

from contracts.transformation import orthL as _orthL

AXS = T.axioms('shape', 'mulI', 'unfold', 'sub')


@unit('svd.svd', props=('C03', 'C11'))
def u_svd(U):
    fn = U.func('svd', 'svd')
    st = U.state()
    d = z3.Int('d')
    narr = z3.Const('n', z3.ArraySort(z3.IntSort(), z3.IntSort()))
    nref = st.alloc(VSeq(narr, d, lambda t: t, tag='int'))
    e, r = z3.Real('e'), z3.Real('r')
    cap = z3.ToInt(r)
    capf = z3.If(cap >= 1, cap, 1)
    t = z3.Int('t!s')

    def inv(ex, s, j):
        Ys = s.deref(s.vars['Y'])
        q = Z(s.vars['q'])
        Zm = s.deref(s.vars['Z'])
        out = [('length', Ys.n == j), ('bond', q >= 1),
               ('bond-is-last-rank', z3.If(j == 0, q == 1, q == T.d2(Ys.arr[j - 1]))),
               ('first-rank-1', z3.Implies(j >= 1, T.d0(Ys.arr[0]) == 1)),
               ('mode-sizes', z3.ForAll([t], z3.Implies(z3.And(0 <= t, t < j), z3.And(T.d1(Ys.arr[t]) == narr[t], T.d0(Ys.arr[t]) >= 1,
                                                                                      T.d2(Ys.arr[t]) >= 1)), patterns=[Ys.arr[t]])),
               ('neighbour-ranks-match', z3.ForAll([t, T.j_], z3.Implies(z3.And(0 <= t, T.j_ == t + 1, T.j_ < j),
                                                                         T.d2(Ys.arr[t]) == T.d0(Ys.arr[T.j_])),
                                                   patterns=[z3.MultiPattern(Ys.arr[t], Ys.arr[T.j_])])),
               ('ranks-within-cap', z3.ForAll([t], z3.Implies(z3.And(0 <= t, t < j), T.d2(Ys.arr[t]) <= capf), patterns=[Ys.arr[t]])),
               ('appended-cores-are-orthonormal-left-factors', z3.ForAll([t], z3.Implies(z3.And(0 <= t, t < j), _orthL(Ys.arr[t])),
                                                                         patterns=[Ys.arr[t]]))]
        if isinstance(Zm, VArr) and Zm.ndim == 2 and Zm.t is not None:
            out.append(('remainder-has-bond-rows', z3.Implies(j >= 1, Z(Zm.shape[0]) == q)))
        return out

    def body_end(ex_, s_, o_, j_):
        calls = s_.ghost.get('fact_calls', [])
        ok = len(calls) == 1 and calls[0]['give'] == 'r' and not calls[0]['rel']
        ex_.oblige(s_, 'post', 'each-step-keeps-the-left-factor-orthonormal-and-passes-the-weights-on (hypothesis of L-TTSVD)',
                   z3.BoolVal(ok), None, assume=False)
        if len(calls) == 1:
            ex_.oblige(s_, 'post', 'threshold-and-cap-passed-unchanged', z3.And(M.to_real(calls[0]['e']) == e, M.to_real(calls[0]['r']) == r),
                       None, assume=False)

    ex = U.executor(fn, loops={0: {'inv': inv, 'body_end': body_end}}, axioms=AXS, type_hints={'Y': 'tt'}, lenient=True)
    ex.mode = 'ematch'
    st.vars.update(Y_full=M.VNd(nref), e=e, r=r)
    pre = [d >= 2, e >= 0, r >= 0, z3.ForAll([t], z3.Implies(z3.And(0 <= t, t < d), narr[t] >= 1), patterns=[narr[t]])]
    res = U.run(ex, st, pre=pre)
    U.cover('precondition-satisfiable', U.pre, axioms=AXS)
    tt = z3.Int('tt')
    for p, o in res:
        if o.kind != 'return':
            U.post('no-exception', p, False, axioms=AXS, mode='ematch')
            continue
        Ys = p.deref(o.value)
        U.post('d-cores', p, Ys.n == d, axioms=AXS, mode='ematch')
        U.post('well-formed', p, T.wf(Ys.arr, d), axioms=AXS, mode='ematch')
        U.post('mode-sizes-of-the-array', p, z3.Implies(z3.And(0 <= tt, tt < d), T.d1(Ys.arr[tt]) == narr[tt]), axioms=AXS, mode='ematch')
        U.post('ranks-within-cap', p, z3.Implies(z3.And(0 <= tt, tt < d - 1), T.d2(Ys.arr[tt]) <= capf), axioms=AXS, mode='ematch')
        U.post('all-but-the-last-core-orthonormal (hypothesis of L-TTSVD)', p,
               z3.Implies(z3.And(0 <= tt, tt < d - 1), _orthL(Ys.arr[tt])), axioms=AXS, mode='ematch')
        U.canary('canary-last-core-orthonormal', p, _orthL(Ys.arr[d - 1]), axioms=AXS)


# ----------------------------------------------------------------------------------------------
# svd_incomplete: exception-freedom of the array plumbing and shape of the result (C20), shape tier.
# Layout contract of sample_tt (precondition): idx is increasing from 0 to the number of samples, block `mode` holds
# blk[mode] * idx_many[mode] samples, idx_many >= 1; all sample indices are non-negative.

def call_get_interface(ex, st, args, kwargs, node):
    """teneva.get(Y[:mode], i, _to_item=False): the (1 x r) left interface row of the cores built so far."""
    Ys = st.deref(args[0])
    i = st.deref(args[1])
    if kwargs.get('_to_item') is not False or not (isinstance(Ys, VSeq) and Ys.tag == 'core'):
        raise M.Unsupported('get: only the _to_item=False call of svd_incomplete is modelled here')
    ex.oblige(st, 'call-pre', 'get: one index per core', z3.And(Ys.n >= 1, Z(i.shape[0]) == Ys.n) if isinstance(i, VArr) and i.ndim == 1
              else False, node)
    M.used('teneva.get(Y, i, _to_item=False) -> array of shape (1, r_last) (undocumented service flag; contract assumed)')
    return VArr((1, T.d2(Ys.arr[Ys.n - 1])), None, None)


@unit('svd.svd_incomplete.shapes', props=('C20',))
def u_svd_incomplete(U):
    fn = U.func('svd', 'svd_incomplete')
    st = U.state()
    IA = z3.ArraySort(z3.IntSort(), z3.IntSort())
    mI, d = z3.Ints('mI d')
    idx, idm, blk = z3.Const('idx', IA), z3.Const('idx_many', IA), z3.Const('blk', IA)
    I = VArr((mI, d), None, None, 'i')
    I.nonneg = True
    Yv = VArr((mI,), None, None)
    e, r = z3.Real('e'), z3.Real('r')
    cap = z3.ToInt(r)
    capf = z3.If(cap >= 1, cap, 1)
    t, t2 = z3.Ints('t!i t2!i')

    def inv(ex, s, j):
        Ys = s.deref(s.vars['Y_res'])
        mode = j + 1
        return [('one-core-per-processed-mode', Ys.n == mode),
                ('first-rank-1', T.d0(Ys.arr[0]) == 1),
                ('cores-positive', z3.ForAll([t], z3.Implies(z3.And(0 <= t, t < mode), z3.And(T.d0(Ys.arr[t]) >= 1, T.d2(Ys.arr[t]) >= 1)),
                                             patterns=[Ys.arr[t]])),
                ('neighbour-ranks-match', z3.ForAll([t, t2], z3.Implies(z3.And(0 <= t, t2 == t + 1, t2 < mode), T.d2(Ys.arr[t]) == T.d0(Ys.arr[t2])),
                                                    patterns=[z3.MultiPattern(Ys.arr[t], Ys.arr[t2])])),
                ('ranks-within-cap', z3.ForAll([t], z3.Implies(z3.And(0 <= t, t < mode), T.d2(Ys.arr[t]) <= capf), patterns=[Ys.arr[t]])),
                ('last-core-closes-with-rank-1', z3.Implies(mode == d, T.d2(Ys.arr[d - 1]) == 1))]

    def inv_inner(ex, s, j):
        G = s.vars['G']
        ok = isinstance(G, VArr) and G.ndim == 3
        return [('G-shape-kept', z3.BoolVal(ok))] + ([('G-dims', z3.And(Z(G.shape[0]) == Z(s.vars['r0']), Z(G.shape[1]) == Z(s.vars['n']),
                                                                      Z(G.shape[2]) == Z(s.vars['r1'])))] if ok else [])

    ex = U.executor(fn, loops={0: {'inv': inv}, 1: {'inv': inv_inner}}, axioms=T.axioms('shape', 'mulI'),
                    callees={'act_one.get': call_get_interface}, type_hints={'Y_res': 'tt'}, lenient=True)
    st.vars.update(I=I, Y=Yv, idx=VArr((d + 1,), idx, 'ivec', 'i'), idx_many=VArr((d,), idm, 'ivec', 'i'), e=e, r=r)
    pre = [d >= 2, mI >= 1, e >= 0, r >= 1, idx[0] == 0, idx[d] == mI,
           z3.ForAll([t], z3.Implies(z3.And(0 <= t, t < d), z3.And(idm[t] >= 1, blk[t] >= 1)), patterns=[idm[t]]),
           z3.ForAll([t, t2], z3.Implies(z3.And(0 <= t, t2 == t + 1, t2 <= d), idx[t2] - idx[t] == blk[t] * idm[t]),
                     patterns=[z3.MultiPattern(idx[t], idx[t2])]),
           z3.ForAll([t, t2], z3.Implies(z3.And(0 <= t, t2 == t + 1, t2 <= d), idx[t] < idx[t2]), patterns=[z3.MultiPattern(idx[t], idx[t2])]),
           z3.ForAll([t], z3.Implies(z3.And(0 <= t, t <= d), z3.And(idx[t] >= 0, idx[t] <= mI)), patterns=[idx[t]]),
           idm[d - 1] == 1, idm[0] >= 1]
    res = U.run(ex, st, pre=pre)
    U.cover('precondition-satisfiable', U.pre, axioms=ex.axioms)
    tt = z3.Int('tt')
    for p, o in res:
        if o.kind != 'return':
            U.post('no-exception', p, False, axioms=ex.axioms)
            continue
        Ys = p.deref(o.value)
        U.post('one-core-per-mode', p, Ys.n == d, axioms=ex.axioms)
        U.post('boundary-ranks-1', p, z3.And(T.d0(Ys.arr[0]) == 1, T.d2(Ys.arr[d - 1]) == 1), axioms=ex.axioms)
        U.post('neighbour-ranks-match', p, z3.Implies(z3.And(0 <= tt, tt < d - 1), T.d2(Ys.arr[tt]) == T.d0(Ys.arr[tt + 1])), axioms=ex.axioms)
        U.post('ranks-within-cap', p, z3.Implies(z3.And(0 <= tt, tt < d - 1), T.d2(Ys.arr[tt]) <= capf), axioms=ex.axioms)
    U.canary('canary-unreachable', U.pre, False, axioms=ex.axioms)
