"""Sidecar contracts for teneva/als.py and teneva/als_func.py beyond `als._optimize_core.slices` (C07; partly C10, C11).

Models / spec symbols: ttvc/mx_als.py (gate `ex.als = True`); interpretations for the spot check: lemmas/spotcheck_ext_als.py.
"""
import ast as _ast
import z3
from ttvc.units import unit
from ttvc.symex import VOpt, VStr, VRec, VSeq, VArr, VFunc, VTuple, VRef, VList, VOpaque, NONE, Z
from ttvc import models as M, theory as T
from ttvc import mx_als as X
from contracts import spec as S

mm, tr, madd, smul, eye, rows, cols = T.mm, T.tr, T.madd, T.smul, T.eye, T.rows, T.cols
AXL = T.axioms('shape', 'als_shape', 'lsq')


# ----------------------------------------------------------------------------------------------
# als._lstsq — which linear system is handed to scipy.linalg.lstsq (C07 mechanism "per-slice ridge normal equations")
#
# Postconditions (from C07: every core update is the regularised, optionally weighted least-squares minimiser):
#   lamb given:  the solver receives exactly  (A^T W A + lamb I,  A^T W y')  with W = diag(w) (I without weights) and
#                y' = y - A u for an update (u = update_sol), y otherwise; hence, for lamb > 0 (and, with weights, w >= 0 entrywise), the returned x satisfies
#                the regularised normal equations (A^T W A + lamb I) x = A^T W y'   (scipy is trusted for: a square invertible
#                system is solved exactly; A^T W A + lamb I is invertible: axioms 'lsq', spot-checked against scipy itself);
#   lamb None:   the solver receives (A, y') - with weights (diag(w) A, w * y'): note that the weights then enter the objective
#                SQUARED (sum_s (w_s r_s)^2), unlike the lamb branch (sum_s w_s r_s^2); the docstring of als() asks for lamb=None with
#                weights, C07 quantifies over lamb > 0 only - both are stated here as they are; x satisfies the normal equations
#                M^T M x = M^T b of what was handed over;
#   the 4-tuple of the solver is returned unchanged; x has one entry per column of A;
#   overwrite flags: only temporaries are handed over with overwrite_a / overwrite_b, except in the documented case
#                lamb None, w None: A itself iff overwrite_a, y itself iff there is no update.
# NOT covered: that the normal equations characterise the minimiser (convexity; mathematics, not code), floating point
# (A-REAL), the values of residues / rank / s.

def _lstsq_unit(U, with_w, with_u):
    fn = U.func('als', '_lstsq')
    ex = U.executor(fn, axioms=AXL)
    ex.als = True
    ex.mode = 'ematch'
    st = U.state()
    At, yt, wt, ut = z3.Const('A', T.Mat), z3.Const('y', T.Mat), z3.Const('w', T.Mat), z3.Const('u', T.Mat)
    A = M.mk_mat(At)
    y = X.cvec(yt)
    w = X.cvec(wt) if with_w else NONE
    u = X.cvec(ut) if with_u else NONE
    lamb = S.opt_real('lamb')
    ow = z3.Bool('overwrite_a')
    st.vars.update(A=A, y=y, lamb=lamb, w=w, overwrite_a=ow, update_sol=u)
    pre = [rows(At) >= 1, cols(At) >= 1, rows(yt) == rows(At), cols(yt) == 1]
    if with_w:
        pre += [rows(wt) == rows(At), cols(wt) == 1]
    if with_u:
        pre += [rows(ut) == cols(At), cols(ut) == 1]
    res = U.run(ex, st, pre=pre)
    U.cover('precondition-satisfiable', U.pre, axioms=AXL)
    y1 = madd(yt, smul(-1, mm(At, ut))) if with_u else yt            # the right-hand side after the update shift
    seen = set()
    for p, o in res:
        if o.kind != 'return':
            U.post('no-exception', p, False, axioms=AXL)
            continue
        calls = p.ghost.get('solver_calls', [])
        U.post('exactly-one-solver-call', p, z3.BoolVal(len(calls) == 1))
        if len(calls) != 1:
            continue
        c = calls[0]
        Mv, bv, xv = c['M'], c['b'], c['x']
        if not (X.is_mat(Mv) and X.is_cvec(bv) and X.is_cvec(xv)):
            raise M.ContractMismatch('_lstsq: the solver is not called with a (matrix, vector) pair that has a denotation')
        ret = o.value
        U.post('returns-the-solver-result-unchanged', p,
               z3.BoolVal(isinstance(ret, VTuple) and len(ret.items) == 4 and ret.items[0] is xv))
        U.post('solution-has-one-entry-per-column-of-A', p, z3.And(Z(xv.shape[0]) == cols(At), rows(xv.t) == cols(At), cols(xv.t) == 1),
               axioms=AXL, mode='ematch')
        U.post('solver-may-overwrite-its-arguments-as-requested', p, z3.BoolVal(c['ow_a'] is True and c['ow_b'] is True))
        # which branch is this path?  (decided by the path condition)
        lamb_given = M.quick_unsat(list(p.pc) + [lamb.isnone])
        lamb_none = M.quick_unsat(list(p.pc) + [z3.Not(lamb.isnone)])
        if lamb_given and lamb_none:
            continue                  # contradictory path condition: an obligation of the body (reported above) is false on this path
        if lamb_given == lamb_none:
            raise M.ContractMismatch('_lstsq: a path that does not decide `lamb is None`')
        seen.add(lamb_given)
        a_is_param, b_is_param = Mv is A, bv is y
        if lamb_given:
            Mx = X.ridge(At, lamb.val, wt if with_w else None)
            bx = mm(tr(At), X.dscale(wt, y1)) if with_w else mm(tr(At), y1)
            U.post('solver-gets-the-regularised-normal-matrix', p, Mv.t == Mx, axioms=AXL, mode='ematch')
            U.post('solver-gets-the-projected-right-hand-side', p, bv.t == bx, axioms=AXL, mode='ematch')
            U.post('solution-satisfies-the-regularised-normal-equations', p,
                   z3.Implies(z3.And(lamb.val > 0, X.nonneg(wt)) if with_w else lamb.val > 0, X.meq(mm(Mx, xv.t), bx)), axioms=AXL, mode='ematch')
            U.post('only-temporaries-are-overwritten', p, z3.BoolVal(not a_is_param and not b_is_param))
            # vacuity guards: the unregularised equations / the unweighted right-hand side must not be derivable
            U.canary('canary-unregularised-equations', p,
                     z3.Implies(z3.And(lamb.val > 0, X.nonneg(wt)), X.meq(mm(mm(tr(At), At), xv.t), bx)), axioms=AXL)
            if with_w:
                U.canary('canary-weights-ignored', p, bv.t == mm(tr(At), y1), axioms=AXL)
        else:
            Mx = X.dscale(wt, At) if with_w else At
            bx = X.had(y1, wt) if with_w else y1
            U.post('solver-gets-the-row-scaled-design-matrix' if with_w else 'solver-gets-the-design-matrix', p, Mv.t == Mx,
                   axioms=AXL, mode='ematch')
            U.post('solver-gets-the-scaled-right-hand-side' if with_w else 'solver-gets-the-right-hand-side', p, bv.t == bx,
                   axioms=AXL, mode='ematch')
            U.post('solution-satisfies-the-normal-equations', p, X.meq(mm(tr(Mx), mm(Mx, xv.t)), mm(tr(Mx), bx)), axioms=AXL, mode='ematch')
            if with_w:
                U.post('only-temporaries-are-overwritten', p, z3.BoolVal(not a_is_param and not b_is_param))
            else:
                ow_true = M.quick_unsat(list(p.pc) + [z3.Not(ow)])
                ow_false = M.quick_unsat(list(p.pc) + [ow])
                if ow_true == ow_false:
                    raise M.ContractMismatch('_lstsq: a path that does not decide `overwrite_a`')
                U.post('A-itself-is-overwritten-iff-overwrite_a', p, z3.BoolVal(a_is_param == ow_true))
                U.post('y-itself-is-overwritten-iff-there-is-no-update', p, z3.BoolVal(b_is_param == (not with_u)))
            U.canary('canary-exact-solve-without-regularisation', p, X.meq(mm(Mx, xv.t), bx), axioms=AXL)
    U.post('both-branches-reached', U.pre, z3.BoolVal(seen == {True, False}))


for _w in (False, True):
    for _u in (False, True):
        def _mk(w=_w, u=_u):
            @unit(f'als._lstsq.{"w" if w else "-"}{"u" if u else "-"}', props=('C07',))
            def u_(U):
                _lstsq_unit(U, w, u)
        _mk()


# ----------------------------------------------------------------------------------------------
# call-site contract of als._lstsq(A, y, lamb=, w=, update_sol=) - exactly what the units als._lstsq.* prove

def lstsq_terms(At, yt, lamb, wt, ut):
    """(x, facts): the solution as a term and the proved facts about it.  lamb: VOpt / NONE / number; wt, ut: Mat terms or None."""
    y1 = madd(yt, smul(-1, mm(At, ut))) if ut is not None else yt
    lo = S.as_opt_num(lamb)
    lv = M.to_real(lo.val)
    Mr = X.ridge(At, lv, wt)
    br = mm(tr(At), X.dscale(wt, y1)) if wt is not None else mm(tr(At), y1)
    M0 = X.dscale(wt, At) if wt is not None else At
    b0 = X.had(y1, wt) if wt is not None else y1
    x = z3.If(lo.isnone, X.lsq(M0, b0), X.lsq(Mr, br))
    good = z3.And(lv > 0, X.nonneg(wt)) if wt is not None else lv > 0
    facts = [rows(x) == cols(At), cols(x) == 1,
             z3.Implies(z3.And(z3.Not(lo.isnone), good), X.meq(mm(Mr, x), br)),
             z3.Implies(lo.isnone, X.meq(mm(tr(M0), mm(M0, x)), mm(tr(M0), b0)))]
    return x, facts, dict(ridge=Mr, rhs=br, M0=M0, b0=b0, y1=y1, good=good, isnone=lo.isnone)


def call_lstsq(ex, st, args, kwargs, node):
    if len(args) != 2 or not set(kwargs) <= {'lamb', 'w', 'update_sol'}:
        raise M.Unsupported('_lstsq: only the call (A, y, lamb=, w=, update_sol=) has a call-site contract')
    A, y = st.deref(args[0]), st.deref(args[1])
    lamb, w, u = kwargs.get('lamb', 1e-2), st.deref(kwargs.get('w', NONE)), st.deref(kwargs.get('update_sol', NONE))
    shape_only = all(isinstance(v, VArr) and v.t is None for v in (A, y)) and isinstance(A, VArr) and A.ndim == 2 and y.ndim == 1 \
        and (w is NONE or (isinstance(w, VArr) and w.ndim == 1)) and (u is NONE or (isinstance(u, VArr) and u.ndim == 1))
    if not shape_only and not (X.is_mat(A) and X.is_cvec(y) and (w is NONE or X.is_cvec(w)) and (u is NONE or X.is_cvec(u))):
        raise M.Unsupported('_lstsq: arguments without a denotation (matrix, 1-D arrays)')
    ex.oblige(st, 'call-pre', '_lstsq: non-empty design matrix with one row per entry of y',
              z3.And(Z(A.shape[0]) >= 1, Z(A.shape[1]) >= 1, Z(y.shape[0]) == Z(A.shape[0])), node)
    if w is not NONE:
        ex.oblige(st, 'call-pre', '_lstsq: one weight per row', Z(w.shape[0]) == Z(A.shape[0]), node)
    if u is not NONE:
        ex.oblige(st, 'call-pre', '_lstsq: update_sol has one entry per column', Z(u.shape[0]) == Z(A.shape[1]), node)
    if shape_only:                      # shape tier: one solution entry per column (units als._lstsq.*: 'solution-has-one-entry-per-column-of-A')
        xv = VArr((A.shape[1],), None, None)
        st.ghost['lstsq_calls'] = st.ghost.get('lstsq_calls', []) + [dict(A=A, y=y, lamb=lamb, w=w, u=u, x=xv, parts=None)]
        return VTuple([xv, VOpaque('residues'), VOpaque('rank'), VOpaque('s')])
    x, facts, parts = lstsq_terms(A.t, y.t, lamb, None if w is NONE else w.t, None if u is NONE else u.t)
    xs = ex.fresh('xsol', T.Mat)
    st.assume(xs == x, *facts)
    xv = X.cvec(xs, A.shape[1])
    st.ghost['lstsq_calls'] = st.ghost.get('lstsq_calls', []) + [dict(A=A, y=y, lamb=lamb, w=w, u=u, x=xv, parts=parts)]
    return VTuple([xv, VOpaque('residues'), VOpaque('rank'), VOpaque('s')])


# ----------------------------------------------------------------------------------------------
# als._optimize_core - value tier (beyond `als._optimize_core.slices`): the least-squares problem of each slice and the layout of
# its solution.
#
# For every mode index k that is carried by at least one sample (idx = the positions of these samples, increasing):
#   * the design matrix handed to _lstsq is krrows(Yl[idx, :], Yr[:, idx]^T): row s is kron(Yl[idx_s, :], Yr[:, idx_s]) in C order,
#     the right-hand side is y_trn[idx], the weights are w[idx] (or None), lamb is passed through, update_sol is vecC(Q[:, k, :]);
#   * the slice is written back in the SAME C order: vecC(Q'[:, k, :]) = x (plain) / vecC(Q[:, k, :]) + x (update), so that the
#     solver's model values A x are the model values diag(Yl[idx] Q'[:, k, :] Yr[:, idx]) of the samples (axiom 'krvec');
#   * hence Q'[:, k, :] satisfies the regularised normal equations of its slice (lamb > 0; weights >= 0) - composition with the
#     contract of _lstsq;
#   * no other slice changes in this step; slices whose index no sample carries are never changed; the result is a copy.
# The interfaces are general matrices: the first core (Yl with one column) and the last core (Yr with one row) are instances
# (covers).  NOT covered: the values of the interface matrices themselves (als main loop), floating point.

AXO = T.axioms('shape', 'mulI', 'als_shape', 'lsq', 'krvec', 'cputsl')


def _optimize_core_unit(U, with_w, with_u):
    fn = U.func('als', '_optimize_core')
    st = U.state()
    Qt, Ylt, Yrt, yt, wt = z3.Const('Q', T.Core), z3.Const('Yl', T.Mat), z3.Const('Yr', T.Mat), z3.Const('y_trn', T.Mat), z3.Const('w', T.Mat)
    r1, n, r2 = T.d0(Qt), T.d1(Qt), T.d2(Qt)
    ms = z3.Int('ms')
    iarr = z3.Const('i', X.IA)
    Q = M.mk_core(Qt)
    ivec = VArr((ms,), iarr, 'ivec', 'i')
    Yl, Yr = VArr((ms, r1), Ylt, 'mat'), VArr((r2, ms), Yrt, 'mat')
    y = X.cvec(yt, ms)
    w = X.cvec(wt, ms) if with_w else NONE
    lamb = S.opt_real('lamb')
    s_, t_ = z3.Int('s!oc'), z3.Int('t!oc')

    def nosample(t):
        return z3.ForAll([s_], z3.Implies(z3.And(0 <= s_, s_ < ms), iarr[s_] != t), patterns=[iarr[s_]])

    def cur(s):
        Qc = s.vars['Q']
        if not (isinstance(Qc, VArr) and Qc.ndim == 3 and Qc.tag == 'core' and Qc.t is not None):
            raise M.ContractMismatch('_optimize_core: Q is no longer a core with a denotation')
        return Qc

    def inv(ex, s, j):
        Qc = cur(s)
        return [('core-shape-kept', z3.And(T.d0(Qc.t) == r1, T.d1(Qc.t) == n, T.d2(Qc.t) == r2,
                                           Z(Qc.shape[0]) == r1, Z(Qc.shape[1]) == n, Z(Qc.shape[2]) == r2)),
                ('slices-not-yet-visited-are-untouched',
                 z3.ForAll([t_], z3.Implies(z3.And(j <= t_, t_ < n), T.sl(Qc.t, t_) == T.sl(Qt, t_)), patterns=[T.sl(Qc.t, t_)])),
                ('visited-slices-without-a-sample-are-untouched',
                 z3.ForAll([t_], z3.Implies(z3.And(0 <= t_, t_ < j, nosample(t_)), T.sl(Qc.t, t_) == T.sl(Qt, t_)), patterns=[T.sl(Qc.t, t_)]))]

    def havoc_hook(ex, h, pre, j):
        h.vars['Q'].origin = getattr(pre.vars['Q'], 'origin', None)

    def body_end(ex, s, o, j):
        k = j
        calls, stores = s.ghost.get('lstsq_calls', []), s.ghost.get('slice_stores', [])
        if o.kind == 'continue' or (not calls and not stores):
            return                               # (that a slice is skipped only without samples: unit als._optimize_core.slices)
        if o.kind != 'normal':
            return
        ob = lambda lbl, g: ex.oblige(s, 'post', lbl, g, None, assume=False)
        ob('one-solve-and-one-slice-write-per-visited-slice', z3.BoolVal(len(calls) == 1 and len(stores) == 1))
        if len(calls) != 1 or len(stores) != 1:
            return
        c, w_ = calls[0], stores[0]
        idx = s.vars.get('idx')
        if not (isinstance(idx, VArr) and idx.tag == 'ivec' and idx.t is not None):
            raise M.ContractMismatch('_optimize_core: idx is no longer the integer vector of sample positions')
        L = Z(idx.shape[0])
        P, Rm = X.rowg(Ylt, idx.t, L), tr(X.colg(Yrt, idx.t, L))
        Ad = X.krrows(P, Rm)
        Qold, Qnew = w_['old'], cur(s)
        Xold, Xnew = T.sl(Qold.t, k), T.sl(Qnew.t, k)
        xs = c['x'].t
        ob('idx-are-the-sample-positions-of-slice-k',
           z3.ForAll([s_], z3.Implies(z3.And(0 <= s_, s_ < L), z3.And(0 <= idx.t[s_], idx.t[s_] < ms, iarr[idx.t[s_]] == k)),
                     patterns=[idx.t[s_]]))
        # (proved here and then available to the invariant: names the term idx[0], which e-matching needs to refute `no sample`)
        ex.oblige(s, 'post', 'a-written-slice-has-a-sample', z3.And(L > 0, 0 <= idx.t[0], idx.t[0] < ms, iarr[idx.t[0]] == k), None, assume=True)
        ob('design-matrix-rows-are-kron-of-left-and-right-interface-rows-in-C-order', c['A'].t == Ad)
        ob('right-hand-side-are-the-values-of-the-samples-of-the-slice', c['y'].t == X.rowg(yt, idx.t, L))
        ob('weights-are-those-of-the-samples-of-the-slice',
           (c['w'].t == X.rowg(wt, idx.t, L)) if (with_w and c['w'] is not NONE) else z3.BoolVal((c['w'] is NONE) == (not with_w)))
        ob('regularisation-is-passed-through', z3.BoolVal(c['lamb'] is lamb))
        ob('the-written-slice-is-slice-k', w_['j'] == k)
        ob('arrays-handed-to-_lstsq-are-temporaries', z3.BoolVal(all(c['A'] is not v and c['y'] is not v for v in (Yl, Yr, y))))
        if with_u:
            ob('update_sol-is-the-current-slice-flattened-in-C-order', (c['u'].t == X.vecC(Xold)) if c['u'] is not NONE else False)
            ob('slice-k-is-the-old-slice-plus-the-solution-folded-in-the-same-C-order', X.vecC(Xnew) == madd(X.vecC(Xold), xs))
            wk = X.rowg(wt, idx.t, L) if with_w else None
            good = z3.And(z3.Not(lamb.isnone), lamb.val > 0, X.nonneg(wt)) if with_w else z3.And(z3.Not(lamb.isnone), lamb.val > 0)
            resid = madd(X.rowg(yt, idx.t, L), smul(-1, mm(Ad, X.vecC(Xold))))
            ob('the-increment-satisfies-the-regularised-normal-equations-of-the-residual-of-its-samples',
               z3.Implies(good, X.meq(mm(X.ridge(Ad, lamb.val, wk), xs), mm(tr(Ad), X.dscale(wk, resid) if with_w else resid))))
        else:
            ob('no-update_sol-without-update', z3.BoolVal(c['u'] is NONE))
            ob('slice-k-is-the-solution-folded-in-the-same-C-order', X.vecC(Xnew) == xs)
            ob('solver-model-values-are-the-tensor-model-values-at-the-samples', mm(c['A'].t, xs) == X.dg(mm(mm(P, Xnew), tr(Rm))))
            wk = X.rowg(wt, idx.t, L) if with_w else None
            good = z3.And(z3.Not(lamb.isnone), lamb.val > 0, X.nonneg(wt)) if with_w else z3.And(z3.Not(lamb.isnone), lamb.val > 0)
            rhs = mm(tr(Ad), X.dscale(wk, X.rowg(yt, idx.t, L))) if with_w else mm(tr(Ad), X.rowg(yt, idx.t, L))
            ob('slice-k-satisfies-the-regularised-normal-equations-of-its-samples',
               z3.Implies(good, X.meq(mm(X.ridge(Ad, lamb.val, wk), X.vecC(Xnew)), rhs)))
        ob('no-other-slice-changes-in-this-step',
           z3.ForAll([t_], z3.Implies(t_ != k, T.sl(Qnew.t, t_) == T.sl(Qold.t, t_)), patterns=[T.sl(Qnew.t, t_)]))

    ex = U.executor(fn, loops={0: {'inv': inv, 'body_end': body_end, 'havoc_hook': havoc_hook}}, callees={'als._lstsq': call_lstsq}, axioms=AXO)
    ex.als = True
    ex.mode = 'ematch'
    st.vars.update(Q=Q, i=ivec, y_trn=y, Yl=Yl, Yr=Yr, lamb=lamb, w=w, update_sol=True if with_u else NONE)
    pre = [r1 >= 1, n >= 1, r2 >= 1, ms >= 0, rows(Ylt) == ms, cols(Ylt) == r1, rows(Yrt) == r2, cols(Yrt) == ms, rows(yt) == ms, cols(yt) == 1]
    if with_w:
        pre += [rows(wt) == ms, cols(wt) == 1]
    with X.own_slice_writes():
        res = U.run(ex, st, pre=pre)
    U.cover('precondition-satisfiable', U.pre, axioms=AXO)
    U.cover('first-core-reachable-left-interface-with-one-column', U.pre + [r1 == 1, ms >= 1], axioms=AXO)
    U.cover('last-core-reachable-right-interface-with-one-row', U.pre + [r2 == 1, ms >= 1], axioms=AXO)
    for p, o in res:
        if o.kind != 'return':
            U.post('no-exception', p, False, axioms=AXO)
            continue
        Qr = p.deref(o.value)
        ok = isinstance(Qr, VArr) and Qr.ndim == 3 and Qr.tag == 'core' and Qr.t is not None
        U.post('result-has-the-shape-of-the-core', p, z3.And(T.d0(Qr.t) == r1, T.d1(Qr.t) == n, T.d2(Qr.t) == r2) if ok else False,
               axioms=AXO, mode='ematch')
        U.post('slices-without-a-sample-are-unchanged', p,
               z3.ForAll([t_], z3.Implies(z3.And(0 <= t_, t_ < n, nosample(t_)), T.sl(Qr.t, t_) == T.sl(Qt, t_)), patterns=[T.sl(Qr.t, t_)])
               if ok else False, axioms=AXO, mode='ematch')
        org = getattr(Qr, 'origin', None)
        U.post('works-on-a-copy-of-the-core', p, z3.BoolVal(org is not None and org is not Q and getattr(org, 'copy_of', None) is Q))
        U.canary('canary-every-slice-unchanged', p, z3.ForAll([t_], T.sl(Qr.t, t_) == T.sl(Qt, t_)) if ok else False, axioms=AXO)


for _w in (False, True):
    for _u in (False, True):
        def _mk(w=_w, u=_u):
            @unit(f'als._optimize_core.values.{"w" if w else "-"}{"u" if u else "-"}', props=('C07',))
            def u_(U):
                _optimize_core_unit(U, w, u)
        _mk()


# ----------------------------------------------------------------------------------------------
# call-site contract of als._optimize_core at the shape level (proved by als._optimize_core.values.* / .slices:
# 'result-has-the-shape-of-the-core', no exception under these preconditions)

def call_optimize_core(ex, st, args, kwargs, node):
    if len(args) != 5 or not set(kwargs) <= {'lamb', 'w', 'update_sol'}:
        raise M.Unsupported('_optimize_core: only the call (Q, i, y_trn, Yl, Yr, lamb=, w=, update_sol=) has a call-site contract')
    raw = list(args)
    Q, i, y, Yl, Yr = [X._unopt(ex, st, a, node, '_optimize_core-argument') for a in args]
    w = st.deref(kwargs.get('w', NONE))
    if not (isinstance(Q, VArr) and Q.ndim == 3 and isinstance(i, VArr) and i.ndim == 1 and isinstance(y, VArr) and y.ndim == 1
            and isinstance(Yl, VArr) and Yl.ndim == 2 and isinstance(Yr, VArr) and Yr.ndim == 2 and (w is NONE or (isinstance(w, VArr) and w.ndim == 1))):
        raise M.Unsupported('_optimize_core: arguments are not (core, index vector, value vector, two interface matrices[, weights])')
    ms = Z(i.shape[0])
    ex.oblige(st, 'call-pre', '_optimize_core: non-empty core', z3.And(Z(Q.shape[0]) >= 1, Z(Q.shape[1]) >= 1, Z(Q.shape[2]) >= 1), node)
    ex.oblige(st, 'call-pre', '_optimize_core: one value and one row / column of the interfaces per sample',
              z3.And(Z(y.shape[0]) == ms, Z(Yl.shape[0]) == ms, Z(Yr.shape[1]) == ms), node)
    ex.oblige(st, 'call-pre', '_optimize_core: interfaces fit the ranks of the core',
              z3.And(Z(Yl.shape[1]) == Z(Q.shape[0]), Z(Yr.shape[0]) == Z(Q.shape[2])), node)
    if w is not NONE:
        ex.oblige(st, 'call-pre', '_optimize_core: one weight per sample', Z(w.shape[0]) == ms, node)
    g = ex.fresh('Gopt', T.Core)
    st.assume(T.d0(g) == Z(Q.shape[0]), T.d1(g) == Z(Q.shape[1]), T.d2(g) == Z(Q.shape[2]))
    st.ghost['oc_calls'] = st.ghost.get('oc_calls', []) + [
        dict(Q=Q, i=i, y=y, Yl=raw[3], Yr=raw[4], lamb=kwargs.get('lamb'), w=kwargs.get('w', NONE), u=kwargs.get('update_sol', NONE), ret=g)]
    return M.mk_core(g)


def _code(raw):
    """The element code behind an element of a list of (optional) arrays (models._optarr_wrap)."""
    if isinstance(raw, VOpt) and isinstance(raw.val, VArr) and raw.val.ndim == 2:
        t = raw.val.shape[0]
        if z3.is_app(t) and t.decl().eq(M.OROWS):
            return t.arg(0)
    raise M.ContractMismatch('als: an interface operand is not an element of the lists Yl / Yr')


def _core_of(v):
    """The core term behind G[:, i, :] (a gather keeps the outer dimensions d0(G), d2(G))."""
    if isinstance(v, VArr) and v.ndim == 3:
        t = v.shape[0]
        if z3.is_app(t) and t.decl().eq(T.d0):
            return t.arg(0)
    raise M.ContractMismatch('als: a contraction operand is not a gather G[:, i, :] of a core')


# ----------------------------------------------------------------------------------------------
# als.als, constant rank (r=None, allow_swap=False): control + shape tier.
#
# From C07 / C10 / C11:
#   * slice coverage: ValueError iff allow_skip_cores is False and some slice has no sample (stated with `covers`; the code counts
#     distinct values - equivalent for indices inside the mode bounds, axiom 'cover'[0] = pigeonhole, spot-checked), raised
#     before anything is fitted; on the raising path an explicit uncovered value is exhibited;
#   * the result is the working copy (never Y0), has d cores with the shape AND RANKS of Y0 (so it is well formed); Y0, I_trn,
#     y_trn keep their values;
#   * info is reset in this call before anything is read from it (the dict may be the shared default: it starts with a stale
#     'rearrange' key and nothing else, a read of any other key before its write would fail `key-present`); at return it holds
#     exactly e, e_vld, nswp, stop, r, t; nswp = number of executed sweeps; r, e, e_vld are the values of the returned tensor
#     (e relative to the copy taken at the start of the last sweep);
#   * stop is one of nswp / e / e_vld / cb, consistent with utils._info_appr; a reason that was already satisfied BEFORE the first
#     sweep (nswp <= 0, or the validation error of Y0 within e_vld) does not prevent the first sweep: the function then returns
#     after exactly one sweep with that reason (so `stop == 'e_vld'` is justified by the final OR by the initial tensor) - stated
#     as it is; cb returning True stops right after that sweep;
#   * sweep order: pre-sweep right-to-left builds Yr; every sweep goes left-to-right over cores 0..d-2 then right-to-left over
#     d-1..1; each step updates exactly core k from (Y[k], column k of I_trn, y_trn, Yl[k], Yr[k], lamb, w, update_sol) and then
#     writes the interface Yl[k+1] / Yr[k-1] from the neighbouring interface and the NEW core; all contraction shapes agree.
# NOT covered: values of the interfaces / cores (hence descent, restart equivalence, order independence: bounded suite), the
# experimental allow_swap mode, floating point.

from contracts import cross as C
from ttvc.symex import strcode

IM = z3.ArraySort(z3.IntSort(), X.IA)
AXA = T.axioms('shape', 'cover')
ALS_REASONS = ('nswp', 'e', 'e_vld', 'cb')


def _als_setup(U, st, adaptive, with_cb, with_w, with_u):
    Y0, A0, d = S.tt_param(st, 'Y0', z3.Int('d'))
    m = z3.Int('m')
    Icols = z3.Const('I_trn', IM)
    yt, wt = z3.Const('y_trn', T.Mat), z3.Const('w', T.Mat)
    env = dict(Y0=Y0, A0=A0, d=d, m=m, Icols=Icols, yt=yt, wt=wt,
               I_trn=VArr((m, d), Icols, 'icols', 'i'), y_trn=X.cvec(yt, m), w=X.cvec(wt, m) if with_w else NONE,
               nswp=S.opt_int('nswp'), e=S.opt_real('e'), e_vld=S.opt_real('e_vld'), I_vld=C.opt_arr('I_vld'), y_vld=C.opt_arr('y_vld'),
               lamb=S.opt_real('lamb'), skip=z3.Bool('allow_skip_cores'), update_sol=True if with_u else NONE,
               info=st.alloc(VRec({'rearrange': VOpaque('stale key of an earlier call')})))
    def cb_handler(ex, s, args, kwargs, node):
        # A-CB: the callback neither writes nor retains its arguments; it returns an arbitrary value
        r_ = ex.fresh_bool('cb_is_True')
        s.ghost['cb_true'] = r_
        s.ghost['cb_args'] = list(args)
        return r_
    env['cb'] = VFunc('cb', cb_handler) if with_cb else NONE
    return env


def _covers_all(env):
    k = z3.Int('k!cv')
    return z3.ForAll([k], z3.Implies(z3.And(0 <= k, k < env['d']), X.covers(env['Icols'][k], env['m'], T.d1(env['A0'][k]))),
                     patterns=[env['Icols'][k]])


def _accepted_posts(U, p, env, skip):
    """On an accepting path without allow_skip_cores: every mode index of every core is carried by a sample (explicit witness occ)."""
    kc, jc = z3.Int('k!acc'), z3.Int('j!acc')                  # arbitrary core / mode index (free constants)
    col, nk, m = env['Icols'][kc], T.d1(env['A0'][kc]), env['m']
    lem = z3.Implies(z3.And(z3.Not(skip), 0 <= kc, kc < env['d']), X.covers(col, m, nk))
    U.raise_iff('accepted-without-skipping-means-every-slice-is-covered', p, lem, axioms=AXA, mode='ematch')
    U.raise_iff('a-sample-is-exhibited-for-every-slice', p,
                z3.Implies(z3.And(z3.Not(skip), 0 <= kc, kc < env['d'], 0 <= jc, jc < nk),
                           z3.And(0 <= X.occ(col, m, jc), X.occ(col, m, jc) < m, col[X.occ(col, m, jc)] == jc)),
                axioms=AXA, mode='ematch', extra=[lem])


def _als_const_unit(U, with_cb, with_w, with_u):
    fn = U.func('als', 'als')
    st = U.state()
    env = _als_setup(U, st, False, with_cb, with_w, with_u)
    Y0, A0, d, m, Icols, yt, info = env['Y0'], env['A0'], env['d'], env['m'], env['Icols'], env['yt'], env['info']
    nswp, e, e_vld, lamb, skip = env['nswp'], env['e'], env['e_vld'], env['lamb'], env['skip']
    k_, t_ = z3.Int('k!al'), z3.Int('t!al')

    def same_shape(arr):
        return z3.ForAll([k_], z3.Implies(z3.And(0 <= k_, k_ < d), z3.And(T.d0(arr[k_]) == T.d0(A0[k_]), T.d1(arr[k_]) == T.d1(A0[k_]),
                                                                          T.d2(arr[k_]) == T.d2(A0[k_]))), patterns=[arr[k_]])

    def need_wf(ex, s, Yv, node, who):
        Ys = C._tt_of(s, Yv)
        ex.oblige(s, 'call-pre', f'{who}: argument is a well-formed TT-tensor with the shape of Y0',
                  z3.And(Ys.n == d, T.wf(Ys.arr, d), same_shape(Ys.arr)), node)
        return Ys

    def c_erank(ex, s, a, kw, node):
        Ys = need_wf(ex, s, a[0], node, 'erank')
        return C.erank_f(Ys.arr, Ys.n)

    def c_acc(ex, s, a, kw, node):
        Ys, Yo = need_wf(ex, s, a[0], node, 'accuracy'), need_wf(ex, s, a[1], node, 'accuracy (previous sweep)')
        return C.acc_f(Ys.arr, Ys.n, Yo.arr)

    def c_aod(ex, s, a, kw, node):
        Ys = need_wf(ex, s, a[0], node, 'accuracy_on_data')
        return C.aod_f(Ys.arr, Ys.n)

    callees = {'props.erank': c_erank, 'act_two.accuracy': c_acc, 'data.accuracy_on_data': c_aod,
               'als._optimize_core': call_optimize_core, 'np.unique': X.m_unique_als}

    def fields(s):
        return s.heap[info.oid].fields

    def lists(s):
        Y, Yl, Yr = [s.deref(s.vars[x]) for x in ('Y', 'Yl', 'Yr')]
        if not (isinstance(Y, VSeq) and Y.tag == 'core' and isinstance(Yl, VSeq) and Yl.tag == 'optarr' and isinstance(Yr, VSeq) and Yr.tag == 'optarr'):
            raise M.ContractMismatch('als(): Y / Yl / Yr are no longer the list of cores / the lists of interface matrices')
        return Y, Yl, Yr

    def iface(Yl, Yr):
        return [('left-interfaces-fit', z3.And(Yl.n == d, z3.ForAll([k_], z3.Implies(z3.And(0 <= k_, k_ < d), z3.And(
                    Yl.arr[k_] != 0, M.OROWS(Yl.arr[k_]) == m, M.OCOLS(Yl.arr[k_]) == T.d0(A0[k_]))), patterns=[Yl.arr[k_]]))),
                ('right-interfaces-fit', z3.And(Yr.n == d, z3.ForAll([k_], z3.Implies(z3.And(0 <= k_, k_ < d), z3.And(
                    Yr.arr[k_] != 0, M.OROWS(Yr.arr[k_]) == T.d2(A0[k_]), M.OCOLS(Yr.arr[k_]) == m)), patterns=[Yr.arr[k_]])))]

    def common(ex, s):
        Y, Yl, Yr = lists(s)
        f = fields(s)
        stop = S.as_opt(f['stop'])
        return iface(Yl, Yr) + [
            ('info-holds-exactly-the-documented-keys-no-stale-ones', z3.BoolVal(set(f) == {'e', 'e_vld', 'nswp', 'stop', 'r', 't'})),
            ('tensor-keeps-the-shape-and-ranks-of-Y0', z3.And(Y.n == d, same_shape(Y.arr))),
            ('result-list-is-a-copy', z3.BoolVal(s.vars['Y'].oid != Y0.oid and s.heap[Y0.oid].arr is A0)),
            ('inputs-keep-their-values', z3.BoolVal(getattr(s.vars['I_trn'], 't', None) is Icols and getattr(s.vars['y_trn'], 't', None) is yt)),
            ('sweep-counter', f['nswp'] == s.ghost['_j2']),
            ('nswp-not-yet-reached-while-running', z3.Implies(stop.isnone, z3.Or(nswp.isnone, f['nswp'] < nswp.val))),
            ('a-pending-reason-comes-from-before-the-first-sweep',
             z3.Or(stop.isnone, z3.And(s.ghost['_j2'] == 0, S.stop_in(f['stop'], ('e_vld', 'nswp'))))),
            ('a-pending-nswp-reason-is-justified', z3.Implies(S.stop_is(f['stop'], 'nswp'), z3.And(z3.Not(nswp.isnone), nswp.val <= 0))),
            ('a-pending-e_vld-reason-is-justified-by-the-initial-tensor',
             z3.Implies(S.stop_is(f['stop'], 'e_vld'), z3.And(z3.Not(e_vld.isnone), C.aod_f(A0, d) >= 0, C.aod_f(A0, d) <= e_vld.val))),
            ('no-swap-in-constant-rank-mode', z3.BoolVal(s.vars.get('was_swap', False) is False))]

    def inv_cover(ex, s, j):
        return [('slices-checked-so-far-are-covered',
                 z3.ForAll([t_], z3.Implies(z3.And(0 <= t_, t_ < j), X.ndist(Icols[t_], m) == T.d1(A0[t_])), patterns=[Icols[t_]]))]

    def inv_pre(ex, s, j):
        return []

    def inv_while(ex, s, j):
        return common(ex, s)

    def inv_sweep(ex, s, j):
        return common(ex, s)

    def havoc_hook(ex, h, pre, j):
        # constant-rank mode never rebinds I_trn / was_swap (the statements that do are in the adaptive branch): the values of
        # before the loop are kept here, and every body end proves that the body did not rebind them
        for nm in ('I_trn', 'was_swap'):
            if nm in pre.vars:
                h.vars[nm] = pre.vars[nm]
        h.ghost['body0'] = dict(Y=h.deref(h.vars['Y']).arr if 'Y' in h.vars else None, n_oc=len(h.ghost.get('oc_calls', [])),
                                n_ct=len(h.ghost.get('contracts', [])), I_trn=h.vars.get('I_trn'), was_swap=h.vars.get('was_swap'))

    def not_rebound(ex, s):
        b0 = s.ghost['body0']
        ex.oblige(s, 'post', 'constant-rank-sweeps-do-not-rebind-I_trn-or-was_swap',
                  z3.BoolVal(s.vars.get('I_trn') is b0['I_trn'] and s.vars.get('was_swap') is b0['was_swap']), None, assume=False)

    def step_checks(ex, s, o, j, direction):
        """One step of a half sweep: exactly one core update and one interface update, on the right operands, in this order."""
        if o.kind != 'normal':
            return
        not_rebound(ex, s)
        b0 = s.ghost['body0']
        ocs, cts = s.ghost.get('oc_calls', [])[b0['n_oc']:], s.ghost.get('contracts', [])[b0['n_ct']:]
        ob = lambda lbl, g: ex.oblige(s, 'post', lbl, g, None, assume=False)
        pre_sweep = direction == 'pre'
        k = j if direction == 'ltr' else d - 1 - j
        ob(f'{direction}: one-core-update-and-one-interface-update-per-step', z3.BoolVal(len(ocs) == (0 if pre_sweep else 1) and len(cts) == 1))
        if len(ocs) != (0 if pre_sweep else 1) or len(cts) != 1:
            return
        Y, Yl, Yr = lists(s)
        ev = cts[0]
        if not pre_sweep:
            c = ocs[0]
            ob(f'{direction}: the-updated-core-is-core-k', c['Q'].t == b0['Y'][k] if c['Q'].t is not None else False)
            ob(f'{direction}: the-samples-are-indexed-by-column-k', (c['i'].t == Icols[k]) if getattr(c['i'], 'tag', None) == 'ivec' else False)
            ob(f'{direction}: the-interfaces-of-core-k-are-used', z3.And(_code(c['Yl']) == Yl.arr[k], _code(c['Yr']) == Yr.arr[k]))
            ob(f'{direction}: data-regularisation-weights-and-update-flag-are-passed-through',
               z3.BoolVal(getattr(c['y'], 't', None) is yt and c['lamb'] is lamb and c['w'] is env['w'] and c['u'] is env['update_sol']))
            ob(f'{direction}: only-core-k-is-replaced-by-the-result',
               z3.And(Y.arr[k] == c['ret'], z3.ForAll([t_], z3.Implies(t_ != k, Y.arr[t_] == b0['Y'][t_]), patterns=[Y.arr[t_]])))
        want = {'pre': 'riq,qi->ri', 'ltr': 'jk,kjl->jl', 'rtl': 'ijk,kj->ij'}[direction]
        ob(f'{direction}: the-interface-contraction-is-the-documented-one', z3.BoolVal(ev['spec'].replace(' ', '') == want and len(ev['raw']) == 2))
        if ev['spec'].replace(' ', '') != want or len(ev['raw']) != 2 or ev['outraw'] is None:
            ob(f'{direction}: the-interface-is-written-in-place', z3.BoolVal(ev['outraw'] is not None))
            return
        if direction == 'ltr':
            old_if, core_op, nxt, lst = _code(ev['raw'][0]), _core_of(ev['ops'][1]), k + 1, Yl
        else:
            old_if, core_op, nxt, lst = _code(ev['raw'][1]), _core_of(ev['ops'][0]), k - 1, Yr
        ob(f'{direction}: the-next-interface-is-built-from-the-interface-of-core-k-and-the-new-core-k',
           z3.And(old_if == lst.arr[k], core_op == Y.arr[k], _code(ev['outraw']) == lst.arr[nxt]))

    def sweep_end(ex, s, o, j):
        not_rebound(ex, s)
        if with_cb and o.kind == 'normal':          # the while loop goes on: the callback of this sweep did not return True
            ex.oblige(s, 'post', 'callback-True-stops-right-after-that-sweep', z3.Not(s.ghost.get('cb_true', z3.BoolVal(True))), None, assume=False)

    loops = {0: {'inv': inv_cover},
             1: {'inv': inv_pre, 'havoc_hook': havoc_hook, 'body_end': lambda ex, s, o, j: step_checks(ex, s, o, j, 'pre')},
             2: {'inv': inv_while, 'havoc_hook': havoc_hook, 'body_end': sweep_end},
             3: {'inv': inv_sweep, 'havoc_hook': havoc_hook, 'body_end': lambda ex, s, o, j: step_checks(ex, s, o, j, 'ltr')},
             4: {'inv': inv_sweep, 'havoc_hook': havoc_hook, 'body_end': lambda ex, s, o, j: step_checks(ex, s, o, j, 'rtl')}}
    ex = U.executor(fn, loops=loops, callees=callees, axioms=AXA)
    if ex.nloops != 5:
        raise M.ContractMismatch(f'als(): expected 5 loops (coverage check, pre-sweep, while, two half sweeps), found {ex.nloops}')
    ex.als = True
    ex.asserts = True
    ex.mode = 'ematch'
    st.vars.update(I_trn=env['I_trn'], y_trn=env['y_trn'], Y0=Y0, nswp=nswp, e=e, info=info, I_vld=env['I_vld'], y_vld=env['y_vld'],
                   e_vld=e_vld, r=NONE, r_add=z3.Int('r_add'), e_adap=z3.Real('e_adap'), lamb=lamb, w=env['w'], cb=env['cb'],
                   swap_tol=z3.Int('swap_tol'), allow_swap=False, allow_skip_cores=skip, use_stab=False, log=False,
                   update_sol=env['update_sol'])
    pre = [T.wf(A0, d), m >= 0,
           z3.ForAll([k_], z3.Implies(z3.And(0 <= k_, k_ < d), X.inrng(Icols[k_], m, T.d1(A0[k_]))), patterns=[Icols[k_]])]
    res = U.run(ex, st, pre=pre)
    U.cover('precondition-satisfiable', U.pre, axioms=AXA)
    bad = z3.And(z3.Not(skip), z3.Not(_covers_all(env)))
    U.cover('rejecting-reachable', U.pre + [bad], axioms=AXA)
    U.cover('accepting-reachable', U.pre + [z3.Not(bad)], axioms=AXA)
    nret = nraise = 0
    s_ = z3.Int('s!al')
    for p, o in res:
        if o.kind == 'raise':
            nraise += 1
            U.raise_iff('raises-only-if-a-slice-has-no-sample-and-skipping-is-not-allowed', p, bad, axioms=AXA, mode='ematch')
            U.raise_iff('raises-ValueError', p, z3.BoolVal(o.exc == 'ValueError'))
            kk = p.ghost.get('_j0')
            col, nk = Icols[kk], T.d1(A0[kk])
            U.raise_iff('an-uncovered-slice-is-exhibited', p,
                        z3.And(0 <= kk, kk < d, z3.Not(X.covers(col, m, nk)), 0 <= X.miss(col, m, nk), X.miss(col, m, nk) < nk),
                        axioms=AXA, mode='ematch')
            U.raise_iff('no-sample-carries-the-exhibited-index', p,
                        z3.Implies(z3.And(0 <= s_, s_ < m), col[s_] != X.miss(col, m, nk)), axioms=AXA, mode='ematch')
            U.raise_iff('raised-before-anything-is-fitted', p, z3.BoolVal(not p.ghost.get('oc_calls') and not p.ghost.get('contracts')))
            continue
        if o.kind != 'return':
            U.post('only-returns-or-the-coverage-error', p, False, axioms=AXA)
            continue
        nret += 1
        f = fields(p)
        Ys = p.deref(o.value)
        ok = isinstance(o.value, VRef) and isinstance(Ys, VSeq) and Ys.tag == 'core'
        U.raise_iff('accepts-only-covered-slices-or-allowed-skipping', p, z3.Not(bad), axioms=AXA, mode='ematch')
        _accepted_posts(U, p, env, skip)
        if not ok:
            U.post('returns-a-list-of-cores', p, False)
            continue
        jj = p.ghost['_j2']
        U.post('returns-the-working-copy-not-the-initial-tensor', p, z3.BoolVal(o.value.oid != Y0.oid and p.heap[Y0.oid].arr is A0))
        U.post('inputs-keep-their-values', p, z3.BoolVal(p.heap[Y0.oid].arr is A0 and getattr(p.vars['I_trn'], 't', None) is Icols
                                                          and getattr(p.vars['y_trn'], 't', None) is yt))
        U.post('result-has-the-shape-and-ranks-of-Y0', p, z3.And(Ys.n == d, same_shape(Ys.arr)), axioms=AXA, mode='ematch')
        U.post('result-is-a-well-formed-TT-tensor', p, T.wf(Ys.arr, d), axioms=AXA, mode='ematch')
        U.post('info-holds-exactly-the-documented-keys-no-stale-ones', p, z3.BoolVal(set(f) == {'e', 'e_vld', 'nswp', 'stop', 'r', 't'}))
        U.post('exactly-one-documented-stop-reason', p, S.stop_in(f['stop'], ALS_REASONS), axioms=AXA)
        U.post('info-nswp-is-the-number-of-executed-sweeps', p, z3.And(f['nswp'] == jj + 1, f['nswp'] >= 1), axioms=AXA)
        U.post('reported-rank-is-that-of-the-returned-tensor', p, f['r'] == C.erank_f(Ys.arr, Ys.n), axioms=AXA)
        U.post('reported-validation-error-is-that-of-the-returned-tensor', p, f['e_vld'] == C.aod_f(Ys.arr, Ys.n), axioms=AXA)
        Yold = p.deref(p.vars['Yold'])
        U.post('reported-convergence-is-relative-to-the-copy-taken-at-sweep-start', p, f['e'] == C.acc_f(Ys.arr, Ys.n, Yold.arr), axioms=AXA)
        U.post('stop-e-only-if-reported-value-within-threshold', p,
               z3.Implies(S.stop_is(f['stop'], 'e'), z3.And(z3.Not(e.isnone), f['e'] >= 0, f['e'] <= e.val)), axioms=AXA)
        U.post('stop-e_vld-only-if-final-or-initial-validation-error-within-threshold', p,
               z3.Implies(S.stop_is(f['stop'], 'e_vld'),
                          z3.And(z3.Not(e_vld.isnone),
                                 z3.Or(z3.And(f['e_vld'] >= 0, f['e_vld'] <= e_vld.val),
                                       z3.And(f['nswp'] == 1, C.aod_f(A0, d) >= 0, C.aod_f(A0, d) <= e_vld.val)))), axioms=AXA)
        U.post('stop-nswp-only-if-requested-and-reached', p,
               z3.Implies(S.stop_is(f['stop'], 'nswp'), z3.And(z3.Not(nswp.isnone), f['nswp'] >= nswp.val)), axioms=AXA)
        U.post('stop-nswp-after-exactly-nswp-sweeps', p,
               z3.Implies(z3.And(S.stop_is(f['stop'], 'nswp'), nswp.val >= 1), f['nswp'] == nswp.val), axioms=AXA)
        U.post('a-reason-satisfied-before-the-first-sweep-still-costs-one-sweep', p,
               z3.Implies(z3.And(z3.Not(nswp.isnone), nswp.val <= 0), z3.And(f['nswp'] == 1, S.stop_in(f['stop'], ('nswp', 'e_vld')))), axioms=AXA)
        cb_true = p.ghost.get('cb_true', z3.BoolVal(False))
        if with_cb:
            U.post('stop-cb-only-right-after-the-callback-returned-True', p, z3.Implies(S.stop_is(f['stop'], 'cb'), cb_true), axioms=AXA)
            a = p.ghost.get('cb_args', [])
            opts = p.deref(a[2]) if len(a) == 3 else None
            U.post('callback-receives-the-current-tensor-info-and-interfaces', p,
                   z3.BoolVal(len(a) == 3 and isinstance(a[0], VRef) and a[0].oid == o.value.oid and isinstance(a[1], VRef) and a[1].oid == info.oid
                              and isinstance(opts, VRec) and set(opts.fields) == {'Yold', 'Yl', 'Yr'}))
        else:
            U.post('stop-cb-needs-a-callback', p, z3.Not(S.stop_is(f['stop'], 'cb')), axioms=AXA)
        tr_ = p.trace
        last = max(i for i, x in enumerate(tr_) if x == 'loop2:body')
        tail = tr_[last:]
        U.post('a-sweep-goes-left-to-right-then-right-to-left', p,
               z3.BoolVal('loop3:exit' in tail and 'loop4:exit' in tail and tail.index('loop3:exit') < tail.index('loop4:exit')))
        U.post('the-pre-sweep-and-each-half-sweep-visit-d-1-cores', p,
               z3.And(p.ghost['_j1'] == d - 1, p.ghost['_j3'] == d - 1, p.ghost['_j4'] == d - 1), axioms=AXA)
        U.canary('canary-always-stops-by-nswp', p, S.stop_is(f['stop'], 'nswp'), axioms=AXA)
        U.canary('canary-more-than-one-sweep-impossible', p, f['nswp'] == 1, axioms=AXA)
    U.post('return-and-raise-sites-reached', U.pre, z3.BoolVal(nret >= 1 and nraise >= 1))


for _cb in (False, True):
    def _mk(cb=_cb):
        @unit(f'als.als.const.{"cb" if cb else "nocb"}', props=('C07', 'C10', 'C11'))
        def u_(U):
            _als_const_unit(U, cb, cb, cb)           # the callback case also carries weights and update_sol
    _mk()


# ----------------------------------------------------------------------------------------------
# als.als head in the rank-adaptive mode (r given): the slice-coverage check sees the ORTHOGONALISED working copy - its mode sizes
# are those of Y0 (contract of orthogonalize), so the check means the same as in the constant-rank mode.  Also: the assert that
# forbids update_sol together with a rank cap.

def _is_head_end(stmt):
    return isinstance(stmt, _ast.Assign) and isinstance(stmt.targets[0], _ast.Subscript) and _ast.unparse(stmt.targets[0]) == "info['e_vld']"


def _als_validate_adaptive(U, with_u):
    fn = U.func('als', 'als')
    if not any(_is_head_end(s_) for s_ in fn.body):
        raise M.ContractMismatch("als(): the statement `info['e_vld'] = ...` that ends the validation head is gone")
    st = U.state()
    env = _als_setup(U, st, True, False, False, with_u)
    Y0, A0, d, m, Icols, info, skip = env['Y0'], env['A0'], env['d'], env['m'], env['Icols'], env['info'], env['skip']
    k_, t_, s_ = z3.Int('k!av'), z3.Int('t!av'), z3.Int('s!av')
    r = z3.Int('r')

    def c_erank(ex, s, a, kw, node):
        Ys = C._tt_of(s, a[0])
        ex.oblige(s, 'call-pre', 'erank: argument is a well-formed TT-tensor', z3.And(Ys.n == d, T.wf(Ys.arr, d)), node)
        return C.erank_f(Ys.arr, Ys.n)

    def inv_cover(ex, s, j):
        return [('slices-checked-so-far-are-covered',
                 z3.ForAll([t_], z3.Implies(z3.And(0 <= t_, t_ < j), X.ndist(Icols[t_], m) == T.d1(A0[t_])), patterns=[Icols[t_]]))]

    ex = U.executor(fn, loops={0: {'inv': inv_cover}}, callees={'props.erank': c_erank, 'np.unique': X.m_unique_als}, axioms=AXA,
                    stop_at=_is_head_end)
    ex.als = True
    ex.asserts = True
    ex.mode = 'ematch'
    st.vars.update(I_trn=env['I_trn'], y_trn=env['y_trn'], Y0=Y0, nswp=env['nswp'], e=env['e'], info=info, I_vld=env['I_vld'],
                   y_vld=env['y_vld'], e_vld=env['e_vld'], r=r, r_add=z3.Int('r_add'), e_adap=z3.Real('e_adap'), lamb=env['lamb'], w=NONE,
                   cb=NONE, swap_tol=z3.Int('swap_tol'), allow_swap=False, allow_skip_cores=skip, use_stab=False, log=False,
                   update_sol=env['update_sol'])
    pre = [T.wf(A0, d), m >= 0, r >= 1,
           z3.ForAll([k_], z3.Implies(z3.And(0 <= k_, k_ < d), X.inrng(Icols[k_], m, T.d1(A0[k_]))), patterns=[Icols[k_]])]
    res = U.run(ex, st, pre=pre)
    U.cover('precondition-satisfiable', U.pre, axioms=AXA)
    bad = z3.And(z3.Not(skip), z3.Not(_covers_all(env)))
    kinds = set()
    for p, o in res:
        kinds.add((o.kind, o.exc))
        if with_u:
            # update_sol together with a rank cap is rejected by the assert before anything else happens
            U.raise_iff('update_sol-with-a-rank-cap-is-rejected-by-the-assert', p, z3.BoolVal(o.kind == 'raise' and o.exc == 'AssertionError'))
            U.raise_iff('rejected-before-info-is-touched', p, z3.BoolVal(set(p.heap[info.oid].fields) == {'rearrange'}))
            continue
        if o.kind == 'raise':
            U.raise_iff('raises-only-if-a-slice-has-no-sample-and-skipping-is-not-allowed', p, bad, axioms=AXA, mode='ematch')
            U.raise_iff('raises-ValueError', p, z3.BoolVal(o.exc == 'ValueError'))
            kk = p.ghost.get('_j0')
            col, nk = Icols[kk], T.d1(A0[kk])
            U.raise_iff('an-uncovered-slice-is-exhibited', p,
                        z3.And(0 <= kk, kk < d, z3.Not(X.covers(col, m, nk)), 0 <= X.miss(col, m, nk), X.miss(col, m, nk) < nk),
                        axioms=AXA, mode='ematch')
            U.raise_iff('no-sample-carries-the-exhibited-index', p,
                        z3.Implies(z3.And(0 <= s_, s_ < m), col[s_] != X.miss(col, m, nk)), axioms=AXA, mode='ematch')
        elif o.kind == 'stop':
            U.raise_iff('accepts-only-covered-slices-or-allowed-skipping', p, z3.Not(bad), axioms=AXA, mode='ematch')
            _accepted_posts(U, p, env, skip)
            Ys = p.deref(p.vars['Y'])
            U.raise_iff('the-working-copy-is-the-orthogonalised-copy-not-Y0', p,
                        z3.BoolVal(isinstance(Ys, VSeq) and p.vars['Y'].oid != Y0.oid and p.heap[Y0.oid].arr is A0 and Ys.arr is p.ghost.get('orth_result')))
            U.raise_iff('info-is-reset-before-the-fit', p, z3.BoolVal(set(p.heap[info.oid].fields) == {'e', 'e_vld', 'nswp', 'stop', 'r'}))
        else:
            U.post('head-ends-at-the-first-validation-error', p, False)
    if with_u:
        U.post('only-the-assertion-path', U.pre, z3.BoolVal(kinds == {('raise', 'AssertionError')}))
    else:
        U.post('accepting-and-rejecting-paths-reached', U.pre, z3.BoolVal(kinds == {('raise', 'ValueError'), ('stop', None)}))
        U.canary('canary-never-rejects', U.pre, z3.Not(bad), axioms=AXA)


@unit('als.als.validate.adaptive', props=('C07',))
def u_als_validate_adaptive(U):
    _als_validate_adaptive(U, False)


@unit('als.als.validate.adaptive.update_sol', props=('C07',))
def u_als_validate_adaptive_u(U):
    _als_validate_adaptive(U, True)


# ----------------------------------------------------------------------------------------------
# als._optimize_core_adaptive - shape tier (allow_swap=None): two neighbouring cores are merged block by block (one least-squares
# problem per pair (k1, k2) of mode indices that some sample carries) and split again by a truncated SVD with the rank cap r.
#
#   * every block solve gets consistent shapes: A is (#samples of the pair) x (r1 * r3), b / w have one entry per such sample, the
#     solution is folded to (r1, r3) and stored into Q[:, k1, k2, :] of the (r1, n1, n2, r3) array;
#   * the index caches: with an empty cache both mask tables are built (one mask per mode index) and left in the cache under
#     'i1' / 'i2'; tables found in the cache are reused and not rebuilt;
#   * result: G1 of shape (r1, n1, q), G2 of shape (q, n2, r3) with 1 <= q <= max(r, 1): outer ranks and mode sizes kept, new
#     bond within the cap - stated on the paths where the merged block is not identically zero.  On the other path the contract of
#     matrix_skeleton(rel=True) (which divides by the largest singular value) does not apply and NO claim is made here.
#   * every block of the merged core is either the folded solution of its pair - written exactly when the pair's mask selects a
#     sample - or the zero of the allocation (the pinned tree allocated with np.empty: stale memory went into the SVD whenever a
#     pair of neighbouring mode indices had no sample; repaired by np.zeros, and `blocks-...-zero-initialised` fails for np.empty).
# NOT covered: values; the experimental allow_swap branch.

from ttvc import vec as V

AXD = T.axioms('shape', 'mulI')


def _adaptive_unit(U, ltr, cache_kind, with_w):
    fn = U.func('als', '_optimize_core_adaptive')
    st = U.state()
    Q1, q1 = S.core_param('Q1')
    Q2, q2 = S.core_param('Q2')
    r1, n1, r2, n2, r3 = T.d0(q1), T.d1(q1), T.d2(q1), T.d1(q2), T.d2(q2)
    ms, r = z3.Int('ms'), z3.Int('r')
    i1, i2 = VArr((ms,), z3.Const('i1', X.IA), 'ivec', 'i'), VArr((ms,), z3.Const('i2', X.IA), 'ivec', 'i')
    y, Yl, Yr = VArr((ms,), None, None), VArr((ms, r1), None, None), VArr((r3, ms), None, None)
    w = VArr((ms,), None, None) if with_w else NONE
    maps = {}
    if cache_kind == 'none':
        cache = NONE
    else:
        fields = {}
        for key in ('i1', 'i2'):
            if key in cache_kind:
                maps[key] = st.alloc(X.VMaskMap(key, ms))
                fields[key] = maps[key]
        cache = st.alloc(VRec(fields))
    nz_log = []

    def c_skeleton(ex, s, args, kwargs, node):
        # the contract of svd.matrix_skeleton (units svd.matrix_skeleton.rel.*) applies to a NON-ZERO matrix; on the other path
        # nothing is known about the factors
        A = s.deref(args[0])
        if not (isinstance(A, VArr) and A.ndim == 2 and A.tag == 'mat' and A.t is not None):
            raise M.ContractMismatch('_optimize_core_adaptive: matrix_skeleton is not called with the unfolded merged core')
        nz = V.nonzero(A.t)
        s.ghost['Qs'] = A
        if ex.decide(s, nz, node):
            return M.CALLEES['svd.matrix_skeleton'](ex, s, args, kwargs, node)
        s.ghost['zero_block'] = True
        return VTuple([VOpaque('V1 of a zero block'), VOpaque('V2 of a zero block')])

    def q_shape(s):
        Q = s.vars.get('Q')
        if not (isinstance(Q, VArr) and Q.ndim == 4):
            raise M.ContractMismatch('_optimize_core_adaptive: Q is no longer the 4-D merged core')
        return [('merged-core-keeps-its-shape', z3.And(Z(Q.shape[0]) == r1, Z(Q.shape[1]) == n1, Z(Q.shape[2]) == n2, Z(Q.shape[3]) == r3))]

    def inv_none(ex, s, j):
        return []

    def inv_blocks(ex, s, j):
        return q_shape(s)

    def alloc(kind):
        def h(ex, s, args, kwargs, node):
            v = M.FUNCS['np.' + kind](ex, s, args, kwargs, node)
            v.init = kind
            return v
        return h

    def keep_init(ex, h, pre_, j):
        if isinstance(h.vars.get('Q'), VArr) and isinstance(pre_.vars.get('Q'), VArr):
            h.vars['Q'].init = getattr(pre_.vars['Q'], 'init', None)

    def block_end(ex, s, o, j):
        idx = s.vars.get('idx')
        cnt = getattr(idx, 'count', None)
        if cnt is None:
            raise M.ContractMismatch('_optimize_core_adaptive: idx is no longer the boolean mask of the samples of the pair')
        if o.kind == 'continue':
            ex.oblige(s, 'post', 'a-pair-is-skipped-only-if-its-mask-selects-no-sample', cnt == 0, None, assume=False)
            ex.oblige(s, 'post', 'a-skipped-pair-is-not-written', z3.BoolVal(not s.ghost.get('block_stores')), None, assume=False)
            return
        if o.kind != 'normal':
            return
        ex.oblige(s, 'post', 'a-written-block-has-at-least-one-sample', cnt >= 1, None, assume=False)
        bs = s.ghost.get('block_stores', [])
        if len(bs) == 1:
            ex.oblige(s, 'post', 'the-written-block-is-the-block-of-the-pair', z3.And(Z(bs[0][0]) == Z(s.vars['k1']), Z(bs[0][1]) == Z(s.vars['k2'])), None, assume=False)
        calls = s.ghost.get('lstsq_calls', [])
        ex.oblige(s, 'post', 'one-solve-per-visited-pair', z3.BoolVal(len(calls) == 1 and len(s.ghost.get('block_stores', [])) == 1), None, assume=False)
        if len(calls) == 1:
            c = calls[0]
            ex.oblige(s, 'post', 'regularisation-and-weights-reach-the-block-solve',
                      z3.BoolVal(c['lamb'] is lamb and ((c['w'] is NONE) == (not with_w)) and c['u'] is NONE), None, assume=False)

    # loops in source order: the two cache-filling loops, then the pair loops k1 / k2
    def table_hook(name):
        def hook(ex, h, pre_, j):
            # a table under construction holds masks over the ms samples: every store into it proves that length
            # ('cached-masks-have-one-common-length'), and at least one mode index exists (n >= 1)
            tab = h.deref(h.vars.get(name))
            if not isinstance(tab, X.VMaskMap):
                raise M.ContractMismatch(f'_optimize_core_adaptive: {name} is no longer the table of masks')
            tab.n = ms
        return hook

    loops = {0: {'inv': inv_none, 'havoc_hook': table_hook('i1_cache')}, 1: {'inv': inv_none, 'havoc_hook': table_hook('i2_cache')},
             2: {'inv': inv_blocks, 'havoc_hook': keep_init}, 3: {'inv': inv_blocks, 'body_end': block_end, 'havoc_hook': keep_init}}
    ex = U.executor(fn, loops=loops, callees={'als._lstsq': call_lstsq, 'svd.matrix_skeleton': c_skeleton,
                                              'dict': lambda ex_, s, a, k, nd: s.alloc(X.VMaskMap('cache-table')),
                                              'np.zeros': alloc('zeros'), 'np.empty': alloc('empty')}, axioms=AXD)
    if ex.nloops != 4:
        raise M.ContractMismatch(f'_optimize_core_adaptive: expected 4 loops, found {ex.nloops}')
    ex.als = True
    ex.mode = 'ematch'
    lamb = S.opt_real('lamb')
    st.vars.update(Q1=Q1, Q2=Q2, i1=i1, i2=i2, y_trn=y, Yl=Yl, Yr=Yr, e=z3.Real('e'), r=r, lamb=lamb, w=w, ltr=ltr, allow_swap=NONE,
                   swap_tol=z3.Int('swap_tol'), cache=cache)
    pre = [r1 >= 1, n1 >= 1, r2 >= 1, n2 >= 1, r3 >= 1, T.d0(q2) == r2, ms >= 0, st.vars['e'] >= 0, r >= 0]
    res = U.run(ex, st, pre=pre)
    U.cover('precondition-satisfiable', U.pre, axioms=AXD)
    seen = set()
    for p, o in res:
        if o.kind != 'return':
            U.post('no-exception', p, False, axioms=AXD)
            continue
        zero = bool(p.ghost.get('zero_block'))
        seen.add(zero)
        Qs = p.ghost.get('Qs')
        U.post('the-unfolding-handed-to-the-SVD-is-(r1*n1)-x-(n2*r3)', p,
               z3.And(Z(Qs.shape[0]) == T.mul_canon(r1, n1), Z(Qs.shape[1]) == T.mul_canon(n2, r3)) if Qs is not None else False, axioms=AXD, mode='ematch')
        # every block is either the folded least-squares solution of its pair (written exactly when the pair has a sample) or keeps
        # the value of the allocation, which is zero (np.empty would leave stale memory there)
        U.post('blocks-of-pairs-without-a-sample-are-zero-the-merged-core-is-zero-initialised', p,
               z3.BoolVal(getattr(p.vars.get('Q'), 'init', None) == 'zeros'))
        if cache_kind != 'none':
            cf = p.heap[cache.oid].fields
            U.post('both-index-tables-are-in-the-cache-afterwards', p, z3.BoolVal(set(cf) == {'i1', 'i2'}))
            U.post('tables-found-in-the-cache-are-reused-not-rebuilt', p,
                   z3.BoolVal(all(cf.get(k_).oid == v.oid and p.heap[v.oid].writes == 0 for k_, v in maps.items())))
        if zero:
            continue                       # zero merged block: outside the contract of matrix_skeleton(rel=True) - no claim
        G1, G2 = [p.deref(x) for x in o.value.items] if isinstance(o.value, VTuple) and len(o.value.items) == 2 else (None, None)
        ok = isinstance(G1, VArr) and G1.ndim == 3 and isinstance(G2, VArr) and G2.ndim == 3
        U.post('result-is-a-pair-of-cores', p, z3.BoolVal(ok))
        if not ok:
            continue
        q = Z(G1.shape[2])
        U.post('left-core-keeps-outer-rank-and-mode-size', p, z3.And(Z(G1.shape[0]) == r1, Z(G1.shape[1]) == n1), axioms=AXD, mode='ematch')
        U.post('right-core-keeps-mode-size-and-outer-rank', p, z3.And(Z(G2.shape[1]) == n2, Z(G2.shape[2]) == r3), axioms=AXD, mode='ematch')
        U.post('the-two-cores-share-the-new-bond', p, Z(G2.shape[0]) == q, axioms=AXD, mode='ematch')
        U.post('new-bond-at-least-1-and-within-the-cap', p, z3.And(q >= 1, q <= z3.If(r >= 1, r, 1)), axioms=AXD, mode='ematch')
        call = [c for c in p.ghost.get('fact_calls', []) if c['fn'] == 'matrix_skeleton']
        U.post('relative-truncation-with-the-caps-e-and-r-orthogonal-factor-on-the-side-of-the-sweep', p,
               z3.BoolVal(len(call) == 1 and call[0]['rel'] is True and call[0]['give'] == ('r' if ltr else 'l') and call[0]['e'] is st.vars['e']
                          and call[0]['r'] is r))
        U.canary('canary-bond-always-1', p, q == 1, axioms=AXD)
    U.post('zero-and-non-zero-block-paths-reached', U.pre, z3.BoolVal(seen == {True, False}))


for _ltr, _ck, _w in ((True, 'empty', False), (True, 'i1', True), (False, 'empty', True), (False, 'i2', False), (True, 'none', False)):
    def _mk(ltr=_ltr, ck=_ck, w=_w):
        @unit(f'als._optimize_core_adaptive.shapes.{"ltr" if ltr else "rtl"}.{ck}', props=('C07', 'C10', 'C11'))
        def u_(U):
            _adaptive_unit(U, ltr, ck, w)
    _mk()


# ----------------------------------------------------------------------------------------------
# als.als, rank-adaptive mode (r given, allow_swap=False, d >= 3): control tier.  The two-core step is opaque here (its shape
# contract is conditional, see als._optimize_core_adaptive.shapes.*), so nothing is claimed about shapes / ranks of the result
# except what is handed to the step: the rank cap of every step is min(r, bond + r_add) <= r.
#
#   * the working copy is the orthogonalised copy of Y0 (never Y0); Y0 / I_trn / y_trn keep their values; info as in the
#     constant-rank mode (reset before use, exactly the documented keys, nswp = executed sweeps, documented stop reason consistent
#     with _info_appr, reported r / e / e_vld are those of the returned list, cb True stops right after that sweep);
#   * sweep order: left-to-right over the core pairs (k, k+1), k = 0..d-3, then right-to-left over (k-1, k), k = d-1..2; each step
#     (from the second step of a half sweep on - the first one is executed outside the loop cut) replaces exactly these two cores
#     by the result of one _optimize_core_adaptive call on (the two current cores, columns k / k+1 of I_trn, y_trn, the outer
#     interfaces Yl[k], Yr[k+1], e_adap, the rank cap, lamb, w, the direction, the index-table cache chained from the previous step)
#     and then rebuilds the interface between the pair and the rest from the neighbouring interface and the NEW core.
# NOT covered: shapes / ranks / values of the result (bounded suite), the first step of each half sweep (peeled), allow_swap.

def _als_adaptive_unit(U, with_cb):
    fn = U.func('als', 'als')
    st = U.state()
    env = _als_setup(U, st, True, with_cb, with_cb, False)
    Y0, A0, d, m, Icols, yt, info = env['Y0'], env['A0'], env['d'], env['m'], env['Icols'], env['yt'], env['info']
    nswp, e, e_vld, lamb, skip = env['nswp'], env['e'], env['e_vld'], env['lamb'], env['skip']
    r, r_add, e_adap = z3.Int('r'), z3.Int('r_add'), z3.Real('e_adap')
    k_, t_ = z3.Int('k!ad'), z3.Int('t!ad')

    def tt(s, v):
        return C._tt_of(s, v)

    def c_adaptive(ex, s, args, kwargs, node):
        if len(args) != 11 or set(kwargs) != {'ltr', 'allow_swap', 'swap_tol', 'cache'}:
            raise M.ContractMismatch('als(): _optimize_core_adaptive is no longer called with 11 positional arguments + ltr / allow_swap / swap_tol / cache')
        cache = s.deref(kwargs['cache'])
        if not isinstance(cache, VRec):
            raise M.ContractMismatch('als(): the index-table cache is not a dict')
        before = dict(cache.fields)
        for key in ('i1', 'i2'):          # unit als._optimize_core_adaptive.shapes.*: both tables are in the cache afterwards, found ones are reused
            cache.fields.setdefault(key, VOpaque(f'index table {key}'))
        g1, g2 = VOpaque('G1'), VOpaque('G2')
        s.ghost['ad_calls'] = s.ghost.get('ad_calls', []) + [dict(args=list(args), kw=dict(kwargs), cache_before=before, cache_oid=kwargs['cache'].oid)]
        return VTuple([g1, g2])

    callees = {'props.erank': lambda ex, s, a, k, n_: C.erank_f(tt(s, a[0]).arr, tt(s, a[0]).n),
               'data.accuracy_on_data': lambda ex, s, a, k, n_: C.aod_f(tt(s, a[0]).arr, tt(s, a[0]).n),
               'act_two.accuracy': lambda ex, s, a, k, n_: C.acc_f(tt(s, a[0]).arr, tt(s, a[0]).n, tt(s, a[1]).arr),
               'als._optimize_core_adaptive': c_adaptive, 'np.unique': X.m_unique_als}

    def fields(s):
        return s.heap[info.oid].fields

    def lists(s):
        Y, Yl, Yr = [s.deref(s.vars[x]) for x in ('Y', 'Yl', 'Yr')]
        if not (isinstance(Y, VSeq) and Y.tag == 'core' and isinstance(Yl, VSeq) and Yl.tag == 'optarr' and isinstance(Yr, VSeq) and Yr.tag == 'optarr'):
            raise M.ContractMismatch('als(): Y / Yl / Yr are no longer the list of cores / the lists of interface matrices')
        return Y, Yl, Yr

    def common(ex, s):
        Y, Yl, Yr = lists(s)
        f = fields(s)
        stop = S.as_opt(f['stop'])
        Z0 = s.ghost['orth_result']
        return [('lists-keep-their-length', z3.And(Y.n == d, Yl.n == d, Yr.n == d)),
                ('interfaces-are-arrays', z3.And(z3.ForAll([k_], z3.Implies(z3.And(0 <= k_, k_ < d), Yl.arr[k_] != 0), patterns=[Yl.arr[k_]]),
                                                 z3.ForAll([k_], z3.Implies(z3.And(0 <= k_, k_ < d), Yr.arr[k_] != 0), patterns=[Yr.arr[k_]]))),
                ('info-holds-exactly-the-documented-keys-no-stale-ones', z3.BoolVal(set(f) == {'e', 'e_vld', 'nswp', 'stop', 'r', 't'})),
                ('result-list-is-the-orthogonalised-copy', z3.BoolVal(s.vars['Y'].oid != Y0.oid and s.heap[Y0.oid].arr is A0)),
                ('inputs-keep-their-values', z3.BoolVal(getattr(s.vars['I_trn'], 't', None) is Icols and getattr(s.vars['y_trn'], 't', None) is yt)),
                ('sweep-counter', f['nswp'] == s.ghost['_j2']),
                ('nswp-not-yet-reached-while-running', z3.Implies(stop.isnone, z3.Or(nswp.isnone, f['nswp'] < nswp.val))),
                ('a-pending-reason-comes-from-before-the-first-sweep',
                 z3.Or(stop.isnone, z3.And(s.ghost['_j2'] == 0, S.stop_in(f['stop'], ('e_vld', 'nswp'))))),
                ('a-pending-nswp-reason-is-justified', z3.Implies(S.stop_is(f['stop'], 'nswp'), z3.And(z3.Not(nswp.isnone), nswp.val <= 0))),
                ('a-pending-e_vld-reason-is-justified-by-the-initial-tensor',
                 z3.Implies(S.stop_is(f['stop'], 'e_vld'), z3.And(z3.Not(e_vld.isnone), C.aod_f(Z0, d) >= 0, C.aod_f(Z0, d) <= e_vld.val))),
                ('no-swap-without-allow_swap', z3.BoolVal(s.vars.get('was_swap', False) is False))]

    def inv_cover(ex, s, j):
        return [('slices-checked-so-far-are-covered',
                 z3.ForAll([t_], z3.Implies(z3.And(0 <= t_, t_ < j), X.ndist(Icols[t_], m) == T.d1(A0[t_])), patterns=[Icols[t_]]))]

    def cache_keys(s, want):
        c = s.deref(s.vars.get('idx_cache'))
        return [('the-index-table-cache-carries-the-table-of-the-shared-core', z3.BoolVal(isinstance(c, VRec) and set(c.fields) == want))]

    def havoc_hook(ex, h, pre, j):
        for nm in ('I_trn', 'was_swap'):
            if nm in pre.vars:
                h.vars[nm] = pre.vars[nm]
        Y, Yl, Yr = lists(h)
        h.ghost['body0'] = dict(Y=Y.arr, Yl=Yl.arr, Yr=Yr.arr, n_ad=len(h.ghost.get('ad_calls', [])), n_ct=len(h.ghost.get('contracts', [])),
                                I_trn=h.vars.get('I_trn'), was_swap=h.vars.get('was_swap'),
                                cache=h.vars['idx_cache'].oid if isinstance(h.vars.get('idx_cache'), VRef) else None)

    def not_rebound(ex, s):
        b0 = s.ghost['body0']
        ex.oblige(s, 'post', 'sweeps-without-allow_swap-do-not-rebind-I_trn-or-was_swap',
                  z3.BoolVal(s.vars.get('I_trn') is b0['I_trn'] and s.vars.get('was_swap') is b0['was_swap']), None, assume=False)

    def step_checks(ex, s, o, j, ltr):
        if o.kind != 'normal':
            return
        not_rebound(ex, s)
        b0 = s.ghost['body0']
        ads, cts = s.ghost.get('ad_calls', [])[b0['n_ad']:], s.ghost.get('contracts', [])[b0['n_ct']:]
        dr = 'ltr' if ltr else 'rtl'
        ob = lambda lbl, g: ex.oblige(s, 'post', f'{dr}: {lbl}', g, None, assume=False)
        ob('one-two-core-step-and-one-interface-update-per-step', z3.BoolVal(len(ads) == 1 and len(cts) == 1))
        if len(ads) != 1 or len(cts) != 1:
            return
        k = j if ltr else d - 1 - j
        a, b = (k, k + 1) if ltr else (k - 1, k)                 # the pair of cores of this step
        Y, Yl, Yr = lists(s)
        c = ads[0]
        A_ = [s.deref(x) for x in c['args']]
        Q1, Q2, i1, i2, yv = A_[0], A_[1], A_[2], A_[3], A_[4]
        ob('the-two-cores-of-the-step-are-the-current-neighbours',
           z3.And(Q1.t == b0['Y'][a], Q2.t == b0['Y'][b]) if getattr(Q1, 't', None) is not None and getattr(Q2, 't', None) is not None else False)
        ob('the-samples-are-indexed-by-the-two-columns',
           z3.And(i1.t == Icols[a], i2.t == Icols[b]) if getattr(i1, 'tag', None) == 'ivec' and getattr(i2, 'tag', None) == 'ivec' else False)
        ob('the-outer-interfaces-of-the-pair-are-used', z3.And(_code(c['args'][5]) == b0['Yl'][a], _code(c['args'][6]) == b0['Yr'][b]))
        rmax = c['args'][8]
        bond = T.d2(b0['Y'][a])
        ob('the-rank-cap-of-the-step-is-min(r, bond + r_add)-hence-at-most-r',
           z3.And(Z(rmax) <= r, Z(rmax) <= bond + r_add, z3.Or(Z(rmax) == r, Z(rmax) == bond + r_add)) if M.is_num(rmax) else False)
        ob('data-tolerance-regularisation-weights-direction-are-passed-through',
           z3.BoolVal(getattr(yv, 't', None) is yt and c['args'][7] is e_adap and c['args'][9] is lamb and c['args'][10] is env['w']
                      and c['kw']['ltr'] is ltr and c['kw']['allow_swap'] is NONE))
        ob('the-index-table-cache-is-chained-from-the-previous-step',
           z3.BoolVal(c['cache_oid'] == b0['cache'] and set(c['cache_before']) == ({'i1'} if ltr else {'i2'})))
        ob('only-the-two-cores-of-the-step-are-replaced',
           z3.ForAll([t_], z3.Implies(z3.And(t_ != a, t_ != b), Y.arr[t_] == b0['Y'][t_]), patterns=[Y.arr[t_]]))
        ev = cts[0]
        want = 'jk,kjl->jl' if ltr else 'ijk,kj->ij'
        ok = ev['spec'].replace(' ', '') == want and len(ev['raw']) == 2 and ev['outraw'] is None
        ob('the-interface-contraction-is-the-documented-one-and-returns-a-new-array', z3.BoolVal(ok))
        if not ok:
            return
        if ltr:
            old_if, core_op, lst, old_l, pos, other, old_o = _code(ev['raw'][0]), _core_of(ev['ops'][1]), Yl, b0['Yl'], k + 1, Yr, b0['Yr']
            used_if, used_core = b0['Yl'][k], Y.arr[k]
        else:
            old_if, core_op, lst, old_l, pos, other, old_o = _code(ev['raw'][1]), _core_of(ev['ops'][0]), Yr, b0['Yr'], k - 1, Yl, b0['Yl']
            used_if, used_core = b0['Yr'][k], Y.arr[k]
        ob('the-interface-next-to-the-pair-is-rebuilt-from-the-outer-interface-and-the-new-core', z3.And(old_if == used_if, core_op == used_core))
        ob('only-that-interface-is-replaced',
           z3.And(z3.ForAll([t_], z3.Implies(t_ != pos, lst.arr[t_] == old_l[t_]), patterns=[lst.arr[t_]]), other.arr == old_o))

    def inv_ltr(ex, s, j):
        return common(ex, s) + cache_keys(s, {'i1'})

    def inv_rtl(ex, s, j):
        return common(ex, s) + cache_keys(s, {'i2'})

    def sweep_end(ex, s, o, j):
        not_rebound(ex, s)
        if with_cb and o.kind == 'normal':
            ex.oblige(s, 'post', 'callback-True-stops-right-after-that-sweep', z3.Not(s.ghost.get('cb_true', z3.BoolVal(True))), None, assume=False)

    loops = {0: {'inv': inv_cover},
             1: {'inv': lambda ex, s, j: [], 'havoc_hook': havoc_hook},
             2: {'inv': lambda ex, s, j: common(ex, s), 'havoc_hook': havoc_hook, 'body_end': sweep_end},
             3: {'inv': inv_ltr, 'peel': 1, 'havoc_hook': havoc_hook, 'body_end': lambda ex, s, o, j: step_checks(ex, s, o, j, True)},
             4: {'inv': inv_rtl, 'peel': 1, 'havoc_hook': havoc_hook, 'body_end': lambda ex, s, o, j: step_checks(ex, s, o, j, False)}}
    ex = U.executor(fn, loops=loops, callees=callees, axioms=AXA, lenient=True)
    if ex.nloops != 5:
        raise M.ContractMismatch(f'als(): expected 5 loops (coverage check, pre-sweep, while, two half sweeps), found {ex.nloops}')
    ex.als = True
    ex.asserts = True
    ex.als_contract_shapes = False          # control tier: the shapes of the adaptive mode are not followed
    ex.mode = 'ematch'
    st.vars.update(I_trn=env['I_trn'], y_trn=env['y_trn'], Y0=Y0, nswp=nswp, e=e, info=info, I_vld=env['I_vld'], y_vld=env['y_vld'],
                   e_vld=e_vld, r=r, r_add=r_add, e_adap=e_adap, lamb=lamb, w=env['w'], cb=env['cb'],
                   swap_tol=z3.Int('swap_tol'), allow_swap=False, allow_skip_cores=skip, use_stab=False, log=False, update_sol=NONE)
    pre = [T.wf(A0, d), d >= 3, m >= 0, r >= 1, r_add >= 0,
           z3.ForAll([k_], z3.Implies(z3.And(0 <= k_, k_ < d), X.inrng(Icols[k_], m, T.d1(A0[k_]))), patterns=[Icols[k_]])]
    res = U.run(ex, st, pre=pre)
    U.cover('precondition-satisfiable', U.pre, axioms=AXA)
    nret = 0
    for p, o in res:
        if o.kind == 'raise':
            continue                                # the coverage error: unit als.als.validate.adaptive
        if o.kind != 'return':
            U.post('only-returns-or-the-coverage-error', p, False, axioms=AXA)
            continue
        nret += 1
        f = fields(p)
        Ys = p.deref(o.value)
        ok = isinstance(o.value, VRef) and isinstance(Ys, VSeq) and Ys.tag == 'core'
        if not ok:
            U.post('returns-a-list-of-cores', p, False)
            continue
        jj = p.ghost['_j2']
        Z0 = p.ghost['orth_result']
        U.post('returns-the-working-copy-not-the-initial-tensor', p, z3.BoolVal(o.value.oid != Y0.oid and p.heap[Y0.oid].arr is A0))
        U.post('inputs-keep-their-values', p, z3.BoolVal(p.heap[Y0.oid].arr is A0 and getattr(p.vars['I_trn'], 't', None) is Icols
                                                          and getattr(p.vars['y_trn'], 't', None) is yt))
        U.post('result-has-d-cores', p, Ys.n == d, axioms=AXA)
        U.post('info-holds-exactly-the-documented-keys-no-stale-ones', p, z3.BoolVal(set(f) == {'e', 'e_vld', 'nswp', 'stop', 'r', 't'}))
        U.post('exactly-one-documented-stop-reason', p, S.stop_in(f['stop'], ALS_REASONS), axioms=AXA)
        U.post('info-nswp-is-the-number-of-executed-sweeps', p, z3.And(f['nswp'] == jj + 1, f['nswp'] >= 1), axioms=AXA)
        U.post('reported-rank-is-that-of-the-returned-tensor', p, f['r'] == C.erank_f(Ys.arr, Ys.n), axioms=AXA)
        U.post('reported-validation-error-is-that-of-the-returned-tensor', p, f['e_vld'] == C.aod_f(Ys.arr, Ys.n), axioms=AXA)
        Yold = p.deref(p.vars['Yold'])
        U.post('reported-convergence-is-relative-to-the-copy-taken-at-sweep-start', p, f['e'] == C.acc_f(Ys.arr, Ys.n, Yold.arr), axioms=AXA)
        U.post('stop-e-only-if-reported-value-within-threshold', p,
               z3.Implies(S.stop_is(f['stop'], 'e'), z3.And(z3.Not(e.isnone), f['e'] >= 0, f['e'] <= e.val)), axioms=AXA)
        U.post('stop-e_vld-only-if-final-or-initial-validation-error-within-threshold', p,
               z3.Implies(S.stop_is(f['stop'], 'e_vld'),
                          z3.And(z3.Not(e_vld.isnone),
                                 z3.Or(z3.And(f['e_vld'] >= 0, f['e_vld'] <= e_vld.val),
                                       z3.And(f['nswp'] == 1, C.aod_f(Z0, d) >= 0, C.aod_f(Z0, d) <= e_vld.val)))), axioms=AXA)
        U.post('stop-nswp-only-if-requested-and-reached', p,
               z3.Implies(S.stop_is(f['stop'], 'nswp'), z3.And(z3.Not(nswp.isnone), f['nswp'] >= nswp.val)), axioms=AXA)
        U.post('stop-nswp-after-exactly-nswp-sweeps', p,
               z3.Implies(z3.And(S.stop_is(f['stop'], 'nswp'), nswp.val >= 1), f['nswp'] == nswp.val), axioms=AXA)
        if with_cb:
            U.post('stop-cb-only-right-after-the-callback-returned-True', p,
                   z3.Implies(S.stop_is(f['stop'], 'cb'), p.ghost.get('cb_true', z3.BoolVal(False))), axioms=AXA)
        else:
            U.post('stop-cb-needs-a-callback', p, z3.Not(S.stop_is(f['stop'], 'cb')), axioms=AXA)
        U.post('each-half-sweep-visits-the-d-2-neighbouring-pairs', p,
               z3.And(p.ghost['_j1'] == d - 1, p.ghost['_j3'] == d - 2, p.ghost['_j4'] == d - 2), axioms=AXA)
        tr_ = p.trace
        last = max(i for i, x in enumerate(tr_) if x == 'loop2:body')
        tail = tr_[last:]
        U.post('a-sweep-goes-left-to-right-then-right-to-left', p,
               z3.BoolVal('loop3:exit' in tail and 'loop4:exit' in tail and tail.index('loop3:exit') < tail.index('loop4:exit')))
        U.canary('canary-always-stops-by-nswp', p, S.stop_is(f['stop'], 'nswp'), axioms=AXA)
    U.post('a-return-site-is-reached', U.pre, z3.BoolVal(nret >= 1))


for _cb in (False, True):
    def _mk(cb=_cb):
        @unit(f'als.als.adaptive.control.{"cb" if cb else "nocb"}', props=('C07', 'C10'))
        def u_(U):
            _als_adaptive_unit(U, cb)
    _mk()



# ----------------------------------------------------------------------------------------------
# als_func._optimize_core - one core of the functional TT-ALS (all mode slices at once, optional dynamic truncation of the basis).
#
# One level of the (tail-)recursive function, for Q of shape (r1, n, r2), Yl (m x r1), Yr (r2 x m), Hk (m x n):
#   * design matrix: row i is kron(Yl[i, :], Hk[i, :], Yr[:, i]) in C order = krrows(krrows(Yl, Hk), Yr^T) - the SAME C order in
#     which Q is flattened (Q.reshape(-1)) and the solution folded back (sol.reshape(Q.shape)); hence A vec3(Q') are the model
#     values fpred(Yl, Hk, Q', Yr^T) of the samples (axiom 'kr3vec', spot-checked against einsum);
#   * lamb None: plain least squares of (A, y_trn) (update_sol is ignored for the right-hand side; als_func() asserts lamb in
#     that case); lamb given: the ridge system (A^T A + lamb I, A^T y') with y' = y_trn - A vec3(Q) for an update;
#   * Q is overwritten IN PLACE (Q[...] = / Q +=): vec3(Q') = x resp. vec3(Q) + x; for lamb > 0 and no update Q' satisfies the
#     regularised normal equations;
#   * dynamic truncation: the function calls itself on the view Q[:, :-1, :] / Hk[:, :-1] iff n_max is given, n > 1 and
#     max|Q'[:, -1, :]| < thr_pow * max|Q'| with max|Q'| > 0 - the test on the top coefficient is RELATIVE to the largest entry of
#     the core (for Q' = 0 the quotient is 0/0 = nan and nothing is truncated); the result of the inner call is returned, otherwise n;
#     1 <= result <= n by induction (the inner call is used by this very contract for n - 1);
#   * the inner call receives the CURRENT y_trn variable: with update_sol this is the already shifted right-hand side y' (it is
#     shifted again inside) - stated as it is, update_sol together with n_max is outside C07.
# NOT covered: values beyond the equations above, floating point except the 0/0 case, what the inner levels write (view semantics:
# only the leading n-1 slices of Q can change, the top slice keeps the value of this level).

AXF = T.axioms('shape', 'mulI', 'als_shape', 'lsq', 'krvec', 'als3', 'kr3vec', 'sub')


def _func_core_unit(U, with_u):
    fn = U.func('als_func', '_optimize_core')
    st = U.state()
    Qt, Ylt, Yrt, Ht, yt = z3.Const('Q', T.Core), z3.Const('Yl', T.Mat), z3.Const('Yr', T.Mat), z3.Const('Hk', T.Mat), z3.Const('y_trn', T.Mat)
    r1, n, r2 = T.d0(Qt), T.d1(Qt), T.d2(Qt)
    m = z3.Int('m')
    Q = M.mk_core(Qt)
    Yl, Yr, Hk = VArr((m, r1), Ylt, 'mat'), VArr((r2, m), Yrt, 'mat'), VArr((m, n), Ht, 'mat')
    y = X.cvec(yt, m)
    lamb, n_max, thr = S.opt_real('lamb'), S.opt_int('n_max'), z3.Real('thr_pow')
    Ad = X.krrows(X.krrows(Ylt, Ht), tr(Yrt))
    j_ = z3.Int('j!fc')

    def c_self(ex, s, args, kwargs, node):
        """The inner call, by the contract that this unit proves (induction on the number of mode slices)."""
        if len(args) != 7 or set(kwargs) != {'lamb', 'update_sol'}:
            raise M.ContractMismatch('_optimize_core: the inner call no longer has the form (Q, y, Yl, Yr, Hk, n_max, thr_pow, lamb=, update_sol=)')
        Qv = s.deref(args[0])
        base = getattr(Qv, 'view_of', None)
        if not (isinstance(Qv, VArr) and Qv.ndim == 3 and Qv.t is not None and base is not None and base is s.vars.get('Q')):
            raise M.ContractMismatch('_optimize_core: the inner call does not receive a view Q[:, :k, :] of the current Q')
        nv = Z(Qv.shape[1])
        yv, Ylv, Yrv, Hv = [s.deref(a) for a in args[1:5]]
        ex.oblige(s, 'call-pre', 'inner call: at least one mode slice, interfaces and basis fit the view',
                  z3.And(nv >= 1, Z(Qv.shape[0]) >= 1, Z(Qv.shape[2]) >= 1, Z(Ylv.shape[1]) == Z(Qv.shape[0]), Z(Yrv.shape[0]) == Z(Qv.shape[2]),
                         Z(Hv.shape[1]) == nv, Z(Hv.shape[0]) == Z(Ylv.shape[0]), Z(Yrv.shape[1]) == Z(Ylv.shape[0]),
                         Z(yv.shape[0]) == Z(Ylv.shape[0])), node)
        s.ghost['inner'] = dict(Q=Qv, Qbefore=base, y=yv, Yl=Ylv, Yr=Yrv, H=Hv, n_max=args[5], thr=args[6], lamb=kwargs['lamb'], u=kwargs['update_sol'])
        # effect: the inner levels write through the view - the leading nv slices of Q become SOME values, the rest is kept
        hnew = ex.fresh('Qinner', T.Core)
        s.assume(T.d0(hnew) == Z(Qv.shape[0]), T.d1(hnew) == nv, T.d2(hnew) == Z(Qv.shape[2]))
        after = VArr(base.shape, X.cpre(base.t, hnew), 'core')
        s.vars['Q'] = after
        ret = ex.fresh_int('n_inner')
        s.assume(ret >= 1, ret <= nv)
        s.ghost['inner']['ret'] = ret
        return ret

    ex = U.executor(fn, callees={'als_func._optimize_core': c_self}, axioms=AXF)
    ex.als = True
    ex.mode = 'ematch'
    st.vars.update(Q=Q, y_trn=y, Yl=Yl, Yr=Yr, Hk=Hk, n_max=n_max, thr_pow=thr, lamb=lamb, update_sol=True if with_u else NONE)
    pre = [r1 >= 1, n >= 1, r2 >= 1, m >= 1, rows(Ylt) == m, cols(Ylt) == r1, rows(Yrt) == r2, cols(Yrt) == m, rows(Ht) == m, cols(Ht) == n,
           rows(yt) == m, cols(yt) == 1, thr >= 0]
    res = U.run(ex, st, pre=pre)
    U.cover('precondition-satisfiable', U.pre, axioms=AXF)
    seen = set()
    for p, o in res:
        if o.kind != 'return':
            U.post('no-exception', p, False, axioms=AXF)
            continue
        calls = p.ghost.get('solver_calls', [])
        U.post('exactly-one-solver-call-per-level', p, z3.BoolVal(len(calls) == 1))
        if len(calls) != 1:
            continue
        c = calls[0]
        if not (X.is_mat(c['M']) and X.is_cvec(c['b']) and X.is_cvec(c['x'])):
            raise M.ContractMismatch('als_func._optimize_core: the solver is not called with a (matrix, vector) pair that has a denotation')
        xs = c['x'].t
        lamb_given = M.quick_unsat(list(p.pc) + [lamb.isnone])
        lamb_none = M.quick_unsat(list(p.pc) + [z3.Not(lamb.isnone)])
        if lamb_given and lamb_none:
            continue                  # contradictory path condition: an obligation of the body (reported above) is false on this path
        if lamb_given == lamb_none:
            raise M.ContractMismatch('als_func._optimize_core: a path that does not decide `lamb is None`')
        inner = p.ghost.get('inner')
        seen.add((lamb_given, inner is not None))
        Qw = inner['Qbefore'] if inner is not None else p.vars['Q']           # Q after the write of this level
        if not (isinstance(Qw, VArr) and Qw.tag == 'core' and Qw.t is not None):
            raise M.ContractMismatch('als_func._optimize_core: Q has no denotation after the write')
        y1 = madd(yt, smul(-1, mm(Ad, X.vec3(Qt)))) if (with_u and lamb_given) else yt
        if lamb_given:
            Mx, bx = X.ridge(Ad, lamb.val), mm(tr(Ad), y1)
            U.post('solver-gets-the-regularised-normal-matrix-of-the-three-factor-design-matrix', p, c['M'].t == Mx, axioms=AXF, mode='ematch')
            U.post('solver-gets-the-projected-right-hand-side', p, c['b'].t == bx, axioms=AXF, mode='ematch')
            U.post('only-temporaries-are-overwritten-by-the-solver', p, z3.BoolVal(c['M'] is not Q and c['b'] is not y))
        else:
            U.post('solver-gets-the-three-factor-design-matrix', p, c['M'].t == Ad, axioms=AXF, mode='ematch')
            U.post('solver-gets-the-training-values-and-must-not-overwrite-them', p, z3.And(c['b'].t == yt, z3.BoolVal(c['ow_b'] is False)), axioms=AXF, mode='ematch')
        if with_u:
            U.post('Q-becomes-Q-plus-the-solution-folded-in-the-same-C-order', p, X.vec3(Qw.t) == madd(X.vec3(Qt), xs), axioms=AXF, mode='ematch')
            if lamb_given:
                U.post('the-increment-satisfies-the-regularised-normal-equations-of-the-residual', p,
                       z3.Implies(lamb.val > 0, X.meq(mm(X.ridge(Ad, lamb.val), xs), mm(tr(Ad), y1))), axioms=AXF, mode='ematch')
        else:
            U.post('Q-becomes-the-solution-folded-in-the-same-C-order', p, X.vec3(Qw.t) == xs, axioms=AXF, mode='ematch')
            U.post('solver-model-values-are-the-tensor-model-values-at-the-samples', p,
                   mm(Ad, xs) == X.fpred(Ylt, Ht, Qw.t, tr(Yrt)), axioms=AXF, mode='ematch')
            if lamb_given:
                U.post('Q-satisfies-the-regularised-normal-equations', p,
                       z3.Implies(lamb.val > 0, X.meq(mm(X.ridge(Ad, lamb.val), X.vec3(Qw.t)), mm(tr(Ad), yt))), axioms=AXF, mode='ematch')
            else:
                U.post('Q-satisfies-the-normal-equations', p, X.meq(mm(tr(Ad), mm(Ad, X.vec3(Qw.t))), mm(tr(Ad), yt)), axioms=AXF, mode='ematch')
        U.post('Q-keeps-its-shape', p, z3.And(T.d0(Qw.t) == r1, T.d1(Qw.t) == n, T.d2(Qw.t) == r2), axioms=AXF, mode='ematch')
        # the truncation test
        top, whole = X.maxabsM(T.sl(Qw.t, n - 1)), X.maxabsC(Qw.t)
        cond = z3.And(z3.Not(n_max.isnone), n > 1, whole > 0, top < thr * whole)
        ret = Z(o.value) if M.is_num(o.value) else None
        if ret is None:
            U.post('returns-a-number', p, False)
            continue
        if inner is None:
            U.post('no-truncation-unless-the-top-coefficient-is-small-RELATIVE-to-the-largest-entry', p, z3.Not(cond), axioms=AXF)
            U.post('without-truncation-the-number-of-mode-slices-is-returned', p, ret == n, axioms=AXF)
        else:
            U.post('truncation-only-if-the-top-coefficient-is-small-RELATIVE-to-the-largest-entry', p, cond, axioms=AXF)
            U.post('the-result-of-the-inner-call-is-returned', p, ret == inner['ret'], axioms=AXF)
            U.post('the-inner-call-works-on-the-view-without-the-top-slice-and-the-basis-without-its-last-column', p,
                   z3.And(inner['Q'].t == X.ctrunc(Qw.t, n - 1), inner['H'].t == V.lcols(Ht, n - 1)), axioms=AXF, mode='ematch')
            U.post('the-inner-call-gets-the-same-interfaces-caps-and-flags', p,
                   z3.BoolVal(inner['Yl'] is Yl and inner['Yr'] is Yr and inner['n_max'] is n_max and inner['thr'] is thr
                              and inner['lamb'] is lamb and inner['u'] is st.vars['update_sol']))
            U.post('the-inner-call-gets-the-current-right-hand-side', p,
                   inner['y'].t == y1 if X.is_cvec(inner['y']) else False, axioms=AXF, mode='ematch')
            Qf = p.vars['Q']
            U.post('the-top-slice-keeps-the-value-of-this-level', p, T.sl(Qf.t, n - 1) == T.sl(Qw.t, n - 1), axioms=AXF, mode='ematch')
        U.post('returns-between-1-and-the-number-of-mode-slices', p, z3.And(ret >= 1, ret <= n), axioms=AXF)
        U.canary('canary-always-truncates', p, ret < n, axioms=AXF)
    U.post('both-solver-branches-with-and-without-truncation-reached', U.pre,
           z3.BoolVal(seen == {(True, True), (True, False), (False, True), (False, False)}))


for _u in (False, True):
    def _mk(u=_u):
        @unit(f'als_func._optimize_core.{"update" if u else "plain"}', props=('C07',))
        def u_(U):
            _func_core_unit(U, u)
    _mk()



# ----------------------------------------------------------------------------------------------
# als_func.als_func, head: the info dictionary (possibly the shared default, C10) is reset before anything is read from it, the
# reported rank is that of A0, and update_sol without a learning rate is rejected by the assert before info is touched.

def _is_func_head_end(stmt):
    return isinstance(stmt, _ast.Assign) and isinstance(stmt.targets[0], _ast.Name) and stmt.targets[0].id == 'X_trn'


def _als_func_head(U, with_u):
    fn = U.func('als_func', 'als_func')
    if not any(_is_func_head_end(s_) for s_ in fn.body):
        raise M.ContractMismatch('als_func(): the statement `X_trn = np.asanyarray(...)` that ends the head is gone')
    st = U.state()
    A0r, A0, d = S.tt_param(st, 'A0', z3.Int('d'))
    info = st.alloc(VRec({'stale': VOpaque('left over from an earlier call')}))
    lamb = S.opt_real('lamb')

    def c_erank(ex, s, a, kw, node):
        Ys = C._tt_of(s, a[0])
        ex.oblige(s, 'call-pre', 'erank: argument is a well-formed TT-tensor', z3.And(Ys.n == d, T.wf(Ys.arr, d)), node)
        return C.erank_f(Ys.arr, Ys.n)

    ex = U.executor(fn, callees={'props.erank': c_erank}, stop_at=_is_func_head_end)
    ex.asserts = True
    st.vars.update(X_trn=VOpaque('X_trn'), y_trn=VOpaque('y_trn'), A0=A0r, a=z3.Real('a'), b=z3.Real('b'), nswp=S.opt_int('nswp'), e=S.opt_real('e'),
                   info=info, X_vld=NONE, y_vld=NONE, e_vld=S.opt_real('e_vld'), fh=NONE, lamb=lamb, n_max=S.opt_int('n_max'),
                   thr_pow=z3.Real('thr_pow'), log=False, update_sol=True if with_u else NONE)
    res = U.run(ex, st, pre=[T.wf(A0, d)])
    U.cover('precondition-satisfiable', U.pre)
    kinds = set()
    for p, o in res:
        kinds.add((o.kind, o.exc))
        f = p.heap[info.oid].fields
        if o.kind == 'raise':
            U.raise_iff('rejects-only-update_sol-without-a-learning-rate', p, z3.And(z3.BoolVal(with_u), lamb.isnone))
            U.raise_iff('by-the-assertion-before-info-is-touched', p, z3.BoolVal(o.exc == 'AssertionError' and set(f) == {'stale'}))
        elif o.kind == 'stop':
            U.raise_iff('accepts-otherwise', p, z3.Not(z3.And(z3.BoolVal(with_u), lamb.isnone)))
            U.raise_iff('info-is-reset-before-anything-is-read', p, z3.BoolVal({'r', 'e', 'e_vld', 'nswp', 'stop'} <= set(f)))
            U.raise_iff('counters-start-at-their-documented-values', p,
                        z3.And(Z(f['e']) == -1, Z(f['e_vld']) == -1, Z(f['nswp']) == 0, z3.BoolVal(f['stop'] is NONE)) if {'e', 'e_vld', 'nswp', 'stop'} <= set(f) else False)
            U.raise_iff('reported-rank-is-that-of-the-initial-tensor', p, (f['r'] == C.erank_f(A0, d)) if 'r' in f else False)
        else:
            U.post('head-ends-at-the-conversion-of-X_trn', p, False)
    U.post('expected-paths-reached', U.pre, z3.BoolVal(kinds == ({('raise', 'AssertionError'), ('stop', None)} if with_u else {('stop', None)})))


@unit('als_func.als_func.head', props=('C07', 'C10'))
def u_als_func_head(U):
    _als_func_head(U, False)


@unit('als_func.als_func.head.update_sol', props=('C07', 'C10'))
def u_als_func_head_u(U):
    _als_func_head(U, True)



# ----------------------------------------------------------------------------------------------
# als_func.als_func, the fit itself: the code FROM the first `teneva._info_appr(...)` call on (pre-sweep, sweeps, final cut of the
# mode sizes), control + shape tier, for update_sol=None and without validation data.
#
# This is a contract of a program FRAGMENT: the state that the head of als_func() builds before that statement is described by the
# precondition below and is NOT verified here (only its info part is: unit als_func.als_func.head):
#   Y   working copy of A0, every core zero-padded in the mode direction to the width of its basis matrix: ranks of A0,
#       d1(Y[k]) = cols(H[k]) >= n[k];     n[k] = d1(A0[k]) current mode sizes (1 <= n[k] <= d1(Y[k]));
#   H   one basis matrix (m x cols) per dimension;  Yl[k] (m x r_k) / Yr[k] (r_{k+1} x m) interface matrices;
#   info = {r, e: -1, e_vld: -1, nswp: 0, stop: None}.
# Stated (C07): nswp = executed sweeps, documented stop reason consistent with _info_appr (no callback here; a reason satisfied
# before the first sweep still costs one sweep); sweep order left-to-right over cores 0..d-2 then right-to-left over d-1..1; each
# step calls _optimize_core on the VIEW of core k widened by one basis function (min(n[k] + 1, width)), with the interfaces and the
# basis columns of core k, stores the returned size in n[k] (1 <= n[k] <= width stays true) and rebuilds the next interface from
# the basis columns, the neighbouring interface and the leading n[k] slices of the updated core; all contraction shapes agree; the
# result is a NEW list whose core k has the ranks of A0[k] and n[k] mode slices - a well-formed tensor; the working list is never A0.
# NOT covered: the head (basis construction, padding), values (the zeroing `c[:, n_k:, :] = 0.` writes through list elements and
# is not modelled), validation data, update_sol, the first entry of each direction's loop is covered by the invariant (no peel).

def _func_sweeps_unit(U):
    import copy as _copy
    fn0 = U.func('als_func', 'als_func')
    starts = [k for k, s_ in enumerate(fn0.body) if isinstance(s_, _ast.Expr) and isinstance(s_.value, _ast.Call)
              and _ast.unparse(s_.value.func) == 'teneva._info_appr']
    if len(starts) != 1:
        raise M.ContractMismatch('als_func(): the first `teneva._info_appr(...)` statement that starts the fit is not where the contract expects it')
    fn = _copy.copy(fn0)
    fn.body = fn0.body[starts[0]:]
    st = U.state()
    A0r, A0, d = S.tt_param(st, 'A0', z3.Int('d'))
    m = z3.Int('m')
    Yarr = z3.Const('Y', T.TT)
    narr, Harr, Ylarr, Yrarr = z3.Const('n', X.IA), z3.Const('H', X.IA), z3.Const('Yl', X.IA), z3.Const('Yr', X.IA)
    Yref = st.alloc(VSeq(Yarr, d, M.mk_core, 'core'))
    nref = st.alloc(VSeq(narr, d, lambda t: t, 'int'))
    Href = st.alloc(VSeq(Harr, d, M._optarr_wrap, 'optarr'))
    Ylref = st.alloc(VSeq(Ylarr, d, M._optarr_wrap, 'optarr'))
    Yrref = st.alloc(VSeq(Yrarr, d, M._optarr_wrap, 'optarr'))
    nswp, e, e_vld, lamb, thr = S.opt_int('nswp'), S.opt_real('e'), S.opt_real('e_vld'), S.opt_real('lamb'), z3.Real('thr_pow')
    info = st.alloc(VRec({'r': C.erank_f(A0, d), 'e': z3.RealVal(-1), 'e_vld': z3.RealVal(-1), 'nswp': z3.IntVal(0), 'stop': NONE}))
    y_trn = VArr((m,), None, None)
    k_, t_ = z3.Int('k!fs'), z3.Int('t!fs')
    OR, OC = M.OROWS, M.OCOLS

    def q(body, pat):
        return z3.ForAll([k_], z3.Implies(z3.And(0 <= k_, k_ < d), body), patterns=[pat])

    def facts(Ya, na, Ha, Yla, Yra):
        return [('cores-keep-the-ranks-of-A0-and-the-width-of-their-basis',
                 q(z3.And(T.d0(Ya[k_]) == T.d0(A0[k_]), T.d2(Ya[k_]) == T.d2(A0[k_]), T.d1(Ya[k_]) == OC(Ha[k_])), Ya[k_])),
                ('mode-sizes-stay-between-1-and-the-width', q(z3.And(1 <= na[k_], na[k_] <= OC(Ha[k_])), na[k_])),
                ('basis-matrices-fit', q(z3.And(Ha[k_] != 0, OR(Ha[k_]) == m, OC(Ha[k_]) >= 1), Ha[k_])),
                ('left-interfaces-fit', q(z3.And(Yla[k_] != 0, OR(Yla[k_]) == m, OC(Yla[k_]) == T.d0(A0[k_])), Yla[k_])),
                ('right-interfaces-fit', q(z3.And(Yra[k_] != 0, OR(Yra[k_]) == T.d2(A0[k_]), OC(Yra[k_]) == m), Yra[k_]))]

    def lists(s):
        Y, n_, H, Yl, Yr = [s.deref(s.vars[x]) for x in ('Y', 'n', 'H', 'Yl', 'Yr')]
        if not (isinstance(Y, VSeq) and Y.tag == 'core' and isinstance(n_, VSeq) and n_.tag == 'int' and all(isinstance(v, VSeq) and v.tag == 'optarr' for v in (H, Yl, Yr))):
            raise M.ContractMismatch('als_func(): Y / n / H / Yl / Yr no longer have the list types of the contract')
        return Y, n_, H, Yl, Yr

    def fields(s):
        return s.heap[info.oid].fields

    def common(ex, s):
        Y, n_, H, Yl, Yr = lists(s)
        f = fields(s)
        stop = S.as_opt(f['stop'])
        return [('lists-keep-their-length', z3.And(Y.n == d, n_.n == d, H.n == d, Yl.n == d, Yr.n == d))] + facts(Y.arr, n_.arr, H.arr, Yl.arr, Yr.arr) + [
            ('basis-and-interface-lists-are-not-replaced', z3.And(H.arr == Harr, Yl.arr == Ylarr, Yr.arr == Yrarr)),
            ('working-list-is-not-A0', z3.BoolVal(s.vars['Y'].oid != A0r.oid and s.heap[A0r.oid].arr is A0)),
            ('sweep-counter', f['nswp'] == s.ghost['_j1']),
            ('nswp-not-yet-reached-while-running', z3.Implies(stop.isnone, z3.Or(nswp.isnone, f['nswp'] < nswp.val))),
            ('a-pending-reason-comes-from-before-the-first-sweep', z3.Or(stop.isnone, z3.And(s.ghost['_j1'] == 0, S.stop_is(f['stop'], 'nswp')))),
            ('a-pending-nswp-reason-is-justified', z3.Implies(S.stop_is(f['stop'], 'nswp'), z3.And(z3.Not(nswp.isnone), nswp.val <= 0))),
            ('no-validation-error-without-validation-data', f['e_vld'] == -1)]

    def c_core(ex, s, args, kwargs, node):
        """als_func._optimize_core by its contract (units als_func._optimize_core.*): 1 <= result <= mode slices of the view; it writes
        into the view only (contents are not followed here)."""
        if len(args) != 7 or set(kwargs) != {'lamb', 'update_sol'}:
            raise M.ContractMismatch('als_func(): _optimize_core is no longer called as (Q, y, Yl, Yr, Hk, n_max, thr_pow, lamb=, update_sol=)')
        Qv = s.deref(args[0])
        yv, Ylv, Yrv, Hv = [X._unopt(ex, s, a, node, '_optimize_core-argument') for a in args[1:5]]
        if not (isinstance(Qv, VArr) and Qv.ndim == 3 and all(isinstance(v, VArr) for v in (yv, Ylv, Yrv, Hv))):
            raise M.Unsupported('als_func._optimize_core: arguments are not arrays')
        nv = Z(Qv.shape[1])
        ex.oblige(s, 'call-pre', '_optimize_core: at least one mode slice, interfaces and basis fit the view',
                  z3.And(nv >= 1, Z(Qv.shape[0]) >= 1, Z(Qv.shape[2]) >= 1, Z(Ylv.shape[1]) == Z(Qv.shape[0]), Z(Yrv.shape[0]) == Z(Qv.shape[2]),
                         Z(Hv.shape[1]) == nv, Z(Hv.shape[0]) == Z(Ylv.shape[0]), Z(Yrv.shape[1]) == Z(Ylv.shape[0]),
                         Z(yv.shape[0]) == Z(Ylv.shape[0]), Z(Ylv.shape[0]) >= 1), node)
        ret = ex.fresh_int('n_new')
        s.assume(ret >= 1, ret <= nv)
        s.ghost['fc_calls'] = s.ghost.get('fc_calls', []) + [dict(Q=Qv, y=yv, Yl=args[2], Yr=args[3], H=Hv, n_max=args[5], thr=args[6],
                                                                  lamb=kwargs['lamb'], u=kwargs['update_sol'], ret=ret)]
        return ret

    tt = C._tt_of
    callees = {'props.erank': lambda ex, s, a, k, n_: C.erank_f(tt(s, a[0]).arr, tt(s, a[0]).n),
               'act_two.accuracy': lambda ex, s, a, k, n_: C.acc_f(tt(s, a[0]).arr, tt(s, a[0]).n, tt(s, a[1]).arr),
               'als_func._optimize_core': c_core}

    def havoc_hook(ex, h, pre_, j):
        Y, n_, H, Yl, Yr = lists(h)
        h.ghost['body0'] = dict(n=n_.arr, Y=Y.arr, n_fc=len(h.ghost.get('fc_calls', [])), n_ct=len(h.ghost.get('contracts', [])))

    def dir_hook(ex, h, pre_, j):
        havoc_hook(ex, h, pre_, j)
        lr = h.vars.get('lr')
        h.ghost['dirs'] = h.ghost.get('dirs', []) + [lr]
        h.ghost['n_iter_ltr' if lr == 1 else 'n_iter_rtl'] = h.ghost['_n']        # number of iterations of this half sweep

    def view_of_core(v, Yarr_, k):
        """v is Y[k][:, :w, :]: returns w (or None)."""
        if isinstance(v, VArr) and v.ndim == 3 and v.t is not None and z3.is_app(v.t) and v.t.decl().eq(X.ctrunc):
            return z3.And(v.t.arg(0) == Yarr_[k]), v.t.arg(1)
        return None, None

    def step_end(ex, s, o, j):
        if o.kind != 'normal':
            return
        lr = s.vars.get('lr')
        if lr not in (1, -1):
            raise M.ContractMismatch('als_func(): the direction variable lr is not the literal 1 / -1')
        ltr = lr == 1
        dr = 'ltr' if ltr else 'rtl'
        k = j if ltr else d - 1 - j
        b0 = s.ghost['body0']
        fcs, cts = s.ghost.get('fc_calls', [])[b0['n_fc']:], s.ghost.get('contracts', [])[b0['n_ct']:]
        ob = lambda lbl, g: ex.oblige(s, 'post', f'{dr}: {lbl}', g, None, assume=False)
        ob('one-core-update-and-one-interface-update-per-step', z3.BoolVal(len(fcs) == 1 and len(cts) == 1))
        if len(fcs) != 1 or len(cts) != 1:
            return
        Y, n_, H, Yl, Yr = lists(s)
        c = fcs[0]
        is_view, w = view_of_core(c['Q'], b0['Y'], k)
        width = OC(H.arr[k])
        ob('the-core-of-the-step-is-updated-through-a-view-widened-by-one-basis-function',
           z3.And(is_view, w == z3.If(b0['n'][k] + 1 <= width, b0['n'][k] + 1, width)) if is_view is not None else False)
        ob('the-interfaces-of-core-k-are-used', z3.And(_code(c['Yl']) == Yl.arr[k], _code(c['Yr']) == Yr.arr[k]))
        ob('the-width-of-the-basis-is-the-cap-of-the-dynamic-search', Z(c['n_max']) == width if M.is_num(c['n_max']) else False)
        ob('data-threshold-regularisation-and-update-flag-are-passed-through',
           z3.BoolVal(c['y'] is y_trn and c['thr'] is thr and c['lamb'] is lamb and c['u'] is NONE))
        ob('the-returned-size-is-stored-for-core-k-only',
           z3.And(n_.arr[k] == c['ret'], z3.ForAll([t_], z3.Implies(t_ != k, n_.arr[t_] == b0['n'][t_]), patterns=[n_.arr[t_]])))
        ob('the-list-of-cores-is-not-rebound', Y.arr == b0['Y'])
        ev = cts[0]
        want = 'jr,jk,krl->jl' if ltr else 'jr,irk,kj->ij'
        ok = ev['spec'].replace(' ', '') == want and len(ev['raw']) == 3 and ev['outraw'] is not None
        ob('the-interface-contraction-is-the-documented-one-written-in-place', z3.BoolVal(ok))
        if not ok:
            return
        core_op = ev['ops'][2] if ltr else ev['ops'][1]
        if_op = ev['raw'][1] if ltr else ev['raw'][2]
        is_v2, w2 = view_of_core(core_op, Y.arr, k)
        ob('the-next-interface-is-built-from-the-interface-of-core-k-and-the-leading-n[k]-slices-of-the-updated-core',
           z3.And(is_v2, w2 == n_.arr[k], _code(if_op) == (Yl if ltr else Yr).arr[k],
                  _code(ev['outraw']) == (Yl.arr[k + 1] if ltr else Yr.arr[k - 1])) if is_v2 is not None else False)

    def pre_end(ex, s, o, j):
        if o.kind != 'normal':
            return
        k = d - 1 - j
        Y, n_, H, Yl, Yr = lists(s)
        cts = s.ghost.get('contracts', [])[s.ghost['body0']['n_ct']:]
        ok = len(cts) == 1 and cts[0]['spec'].replace(' ', '') == 'ik,rkq,qi->ri' and len(cts[0]['raw']) == 3 and cts[0]['outraw'] is not None
        ex.oblige(s, 'post', 'pre: one-documented-interface-contraction-per-step', z3.BoolVal(ok), None, assume=False)
        if ok:
            is_v, w = view_of_core(cts[0]['ops'][1], Y.arr, k)
            ex.oblige(s, 'post', 'pre: right-interface-k-1-is-built-from-right-interface-k-and-the-leading-n[k]-slices-of-core-k',
                      z3.And(is_v, w == n_.arr[k], _code(cts[0]['raw'][2]) == Yr.arr[k], _code(cts[0]['outraw']) == Yr.arr[k - 1])
                      if is_v is not None else False, None, assume=False)

    loops = {0: {'inv': lambda ex, s, j: [], 'havoc_hook': havoc_hook, 'body_end': pre_end},
             1: {'inv': lambda ex, s, j: common(ex, s), 'havoc_hook': havoc_hook},
             3: {'inv': lambda ex, s, j: common(ex, s), 'havoc_hook': dir_hook, 'body_end': step_end},
             4: {'inv': lambda ex, s, j: [], 'havoc_hook': havoc_hook}, 5: {'inv': lambda ex, s, j: [], 'havoc_hook': havoc_hook}}
    ex = U.executor(fn, loops=loops, callees=callees, axioms=T.axioms('shape', 'als3'))
    if ex.nloops != 6:
        raise M.ContractMismatch(f'als_func(): expected 6 loops from the first _info_appr call on, found {ex.nloops}')
    ex.als = True
    ex.mode = 'ematch'
    AXS = ex.axioms
    st.vars.update(X_trn=VOpaque('deleted'), y_trn=y_trn, A0=A0r, a=z3.Real('a'), b=z3.Real('b'), nswp=nswp, e=e, info=info, X_vld=NONE, y_vld=NONE,
                   e_vld=e_vld, fh=VOpaque('fh'), lamb=lamb, n_max=S.opt_int('n_max'), thr_pow=thr, log=False, update_sol=NONE,
                   _time=z3.Real('_time'), m=m, d=d, n=nref, Y=Yref, is_cheb=z3.Bool('is_cheb'), Yl=Ylref, Yr=Yrref, H=Href)
    pre = [T.wf(A0, d), m >= 1] + [g for _, g in facts(Yarr, narr, Harr, Ylarr, Yrarr)] + \
          [z3.ForAll([k_], z3.Implies(z3.And(0 <= k_, k_ < d), narr[k_] == T.d1(A0[k_])), patterns=[narr[k_]])]
    res = U.run(ex, st, pre=pre)
    U.cover('precondition-satisfiable', U.pre, axioms=AXS)
    nret = 0
    for p, o in res:
        if o.kind != 'return':
            U.post('no-exception', p, False, axioms=AXS)
            continue
        nret += 1
        f = fields(p)
        Ys = p.deref(o.value)
        ok = isinstance(o.value, VRef) and isinstance(Ys, VSeq) and Ys.tag == 'core'
        U.post('returns-a-new-list-of-cores-not-A0', p, z3.BoolVal(ok and o.value.oid not in (A0r.oid, Yref.oid) and p.heap[A0r.oid].arr is A0))
        if not ok:
            continue
        n_ = p.deref(p.vars['n'])
        jj = p.ghost['_j1']
        U.post('result-core-k-has-the-ranks-of-A0-and-n[k]-mode-slices', p,
               z3.And(Ys.n == d, q(z3.And(T.d0(Ys.arr[k_]) == T.d0(A0[k_]), T.d2(Ys.arr[k_]) == T.d2(A0[k_]), T.d1(Ys.arr[k_]) == n_.arr[k_],
                                          n_.arr[k_] >= 1), Ys.arr[k_])), axioms=AXS, mode='ematch')
        U.post('result-is-a-well-formed-TT-tensor', p, T.wf(Ys.arr, d), axioms=AXS, mode='ematch')
        U.post('exactly-one-documented-stop-reason', p, S.stop_in(f['stop'], ('nswp', 'e', 'e_vld')), axioms=AXS)
        U.post('info-nswp-is-the-number-of-executed-sweeps', p, z3.And(f['nswp'] == jj + 1, f['nswp'] >= 1), axioms=AXS)
        U.post('stop-e-only-if-reported-value-within-threshold', p,
               z3.Implies(S.stop_is(f['stop'], 'e'), z3.And(z3.Not(e.isnone), f['e'] >= 0, f['e'] <= e.val)), axioms=AXS)
        U.post('stop-e_vld-impossible-without-validation-data', p, z3.Not(S.stop_is(f['stop'], 'e_vld')), axioms=AXS)
        U.post('stop-nswp-only-if-requested-and-reached', p,
               z3.Implies(S.stop_is(f['stop'], 'nswp'), z3.And(z3.Not(nswp.isnone), f['nswp'] >= nswp.val)), axioms=AXS)
        U.post('stop-nswp-after-exactly-nswp-sweeps', p,
               z3.Implies(z3.And(S.stop_is(f['stop'], 'nswp'), nswp.val >= 1), f['nswp'] == nswp.val), axioms=AXS)
        Yold, Ywork = p.deref(p.vars['Yold']), p.heap[Yref.oid]
        # (info['r'] / info['e'] are computed BEFORE the final cut of the mode sizes: they describe the zero-padded working tensor)
        U.post('reported-rank-and-convergence-are-those-of-the-padded-working-tensor', p,
               z3.And(f['r'] == C.erank_f(Ywork.arr, d), f['e'] == C.acc_f(Ywork.arr, d, Yold.arr)), axioms=AXS)
        dirs = p.ghost.get('dirs', [])
        U.post('a-sweep-goes-left-to-right-then-right-to-left-over-d-1-cores-each', p,
               z3.And(z3.BoolVal(dirs[-2:] == [1, -1]), p.ghost.get('n_iter_ltr', z3.IntVal(-1)) == d - 1,
                      p.ghost.get('n_iter_rtl', z3.IntVal(-1)) == d - 1, p.ghost['_j0'] == d - 1), axioms=AXS)
        U.canary('canary-always-stops-by-nswp', p, S.stop_is(f['stop'], 'nswp'), axioms=AXS)
    U.post('a-return-site-is-reached', U.pre, z3.BoolVal(nret >= 1))


@unit('als_func.als_func.sweeps', props=('C07', 'C11'))
def u_als_func_sweeps(U):
    _func_sweeps_unit(U)


# ==============================================================================================
# Hand-made mutants (MUT_BASE=/tmp/base tools/mut.sh als.py '<sed>' <units>) and the NAMED obligation that reports each.
#
# als._lstsq.*
#   s/AtA = A.T @ A$/AtA = A @ A.T/                          -> call-pre elementwise-shapes-agree, post solver-gets-the-regularised-normal-matrix
#   s/Aty = AW.T @ y/Aty = A.T @ y/                           -> post solver-gets-the-projected-right-hand-side (+ canary-weights-ignored becomes provable)
#   s/AtA + lamb \* np.identity/AtA + np.identity/            -> post solver-gets-the-regularised-normal-matrix, solution-satisfies-the-regularised-normal-equations
#   s/y = y - A@update_sol/y = y + A@update_sol/              -> post solver-gets-the-(projected-)right-hand-side (units -u, wu)
#   s/if not overwrite_a:/if overwrite_a:/                    -> post A-itself-is-overwritten-iff-overwrite_a (refuted)
#   s/            y = y \* w/            pass/                 -> post solver-gets-the-scaled-right-hand-side, only-temporaries-are-overwritten
#   s/AW = w\[:, None\] \* A/AW = A/                          -> post solver-gets-the-regularised-normal-matrix (units w-, wu)
#   quiet (equivalent): s/y = y \* w/y = w * y/  (had is commutative)
# als._optimize_core.values.*
#   swap of the two np.newaxis positions in lhs / rhs          -> post design-matrix-rows-are-kron-of-left-and-right-interface-rows-in-C-order,
#                                                                 solver-model-values-are-the-tensor-model-values-at-the-samples   (no shape obligation sees it)
#   s/w=w\[idx\] if w is not None/w=w if w is not None/       -> call-pre _lstsq: one weight per row, post weights-are-those-of-the-samples-of-the-slice
#   s/= sol.reshape(Q\[:, k, :\].shape)/= sol.reshape(Q[:, k, :].T.shape).T/   -> post slice-k-is-the-solution-folded-in-the-same-C-order
#   s/_lstsq(A, b, lamb=lamb,/_lstsq(A, b, lamb=None,/        -> post regularisation-is-passed-through, slice-k-satisfies-the-regularised-normal-equations-of-its-samples
#   s/Q\[:, k, :\] += sol/Q[:, k, :] = sol/                   -> post slice-k-is-the-old-slice-plus-the-solution-folded-in-the-same-C-order
#   s/Q\[:, k, :\] = sol.reshape/Q[:, 0, :] = sol.reshape/    -> post the-written-slice-is-slice-k, no-other-slice-changes-in-this-step, inv-keep visited-slices-without-a-sample-are-untouched
#   s/^    Q = Q.copy()$/    Q = Q/                            -> post works-on-a-copy-of-the-core (refuted)
#   undecided (equivalent): s/b = y_trn\[idx\]/b = y_trn[idx] * 1/  -> Unsupported (no denotation)
# als.als.const.*
#   'nswp': 0 dropped from info.update                         -> call-pre _info_appr: info['nswp'] is set
#   info.pop('rearrange', None) -> pass                        -> inv-init loop2.info-holds-exactly-the-documented-keys-no-stale-ones
#   Y = teneva.copy(Y0) -> Y = Y0                              -> inv-init loop2.result-list-is-a-copy
#   ltr contract(..., out=Yl[k+1]) -> out=Yl[k]                -> call-pre contract-out-has-the-result-shape, post ltr: the-next-interface-is-built-from-...
#   ltr contract(..., Y[k][:, i, :], ...) -> Yold[k][:, i, :]  -> post ltr: the-next-interface-is-built-from-the-interface-of-core-k-and-the-new-core-k
#   coverage loop range(d) -> range(d-1)                       -> raise-iff accepts-only-covered-slices-or-allowed-skipping
#   info['nswp'] += 1 -> += 2                                  -> inv-keep loop2.sweep-counter, post info-nswp-is-the-number-of-executed-sweeps
#   rtl range(d-1, 0 if r is None else 1, -1) -> range(d-1, 1, -1)   -> post the-pre-sweep-and-each-half-sweep-visit-d-1-cores
#   Yl = [np.ones((m, Y[k].shape[0])) ...] -> shape[2]         -> inv-init loop2.left-interfaces-fit
#   rtl contract(..., Yr[k], out=Yr[k-1]) -> Yr[k-1], out=Yr[k-1]   -> call-pre contract-index-k-dimensions-agree, post rtl: the-next-interface-is-built-from-...
# als.als.adaptive.control.* / als.als.validate.adaptive
#   r_max = min(...) -> max(...)                               -> post ltr: the-rank-cap-of-the-step-is-min(r, bond + r_add)-hence-at-most-r
#   idx_cache = dict(i1=idx_cache['i2']) -> dict(i2=...)       -> inv-init loop3.the-index-table-cache-carries-the-table-of-the-shared-core
#   ltr step: Yr[k+1] -> Yr[k]                                 -> post ltr: the-outer-interfaces-of-the-pair-are-used
#   ltr range(0, d-1 if r is None else d-2, +1) -> range(0, d-1, +1)   -> post each-half-sweep-visits-the-d-2-neighbouring-pairs
#   Yl[k+1] = contract(..., Y[k][:, i, :]) -> Y[k+1][:, i, :]  -> post ltr: the-interface-next-to-the-pair-is-rebuilt-from-the-outer-interface-and-the-new-core
#   quiet (equivalent): orthogonalize(Y, 0, use_stab) -> orthogonalize(Y0, 0, use_stab)
# als._optimize_core_adaptive.shapes.*
#   shape = Q1.shape[0], Q2.shape[2] -> Q2.shape[1]            -> call-pre reshape-preserves-size, block-assignment-shape-matches
#   matrix_skeleton(Qs, e, r, -> (Qs, e, r+1,                  -> post new-bond-at-least-1-and-within-the-cap, relative-truncation-with-the-caps-e-and-r-...
#   give_to='r' if ltr else 'l' -> swapped                     -> post relative-truncation-with-the-caps-e-and-r-orthogonal-factor-on-the-side-of-the-sweep (refuted)
#   _lstsq(A, b, lamb=lamb, -> lamb=None                       -> post regularisation-and-weights-reach-the-block-solve
#   w=w[idx] if ... -> w=w if ...                              -> call-pre _lstsq: one weight per row
#   undecided: swapped shapeQ1 / shapeQ2 in the final reshapes -> Unsupported (reshape pattern); cache['i2'] = ... -> cache['i1'] = ... -> Unsupported (after key-present[i2])
#   Q = np.zeros((Q1.shape[0], ... -> np.empty(...  (the pinned-tree defect)   -> post blocks-of-pairs-without-a-sample-are-zero-the-merged-core-is-zero-initialised (refuted)
#   Q[:, k1, k2, :] = sol.reshape(shape) -> Q[:, k2, k1, :]   -> safety mode-index-in-range, post the-written-block-is-the-block-of-the-pair
# als_func._optimize_core.*   (tools/mut.sh als_func.py ...)
#   contract('li,ik,ij->ikjl', ...) -> 'li,ik,ij->ijkl'       -> post solver-gets-the-(regularised-normal-matrix-of-the-)three-factor-design-matrix
#   np.abs(Q[:, -1, :]).max() / np.abs(Q).max() < thr_pow -> np.abs(Q[:, -1, :]).max() < thr_pow   (absolute instead of relative test)
#                                                              -> post (no-)truncation-...-RELATIVE-to-the-largest-entry
#   inner call on Q[:, :-1, :] -> Q[:, :-2, :]                 -> call-pre inner call: at least one mode slice, interfaces and basis fit the view
#   AtA + lamb*np.identity(...) -> AtA + np.identity(...)      -> post solver-gets-the-regularised-normal-matrix-..., Q-satisfies-the-regularised-normal-equations
#   Q[...] = sol.reshape(Q.shape) -> Q += sol.reshape(Q.shape) -> post Q-becomes-the-solution-folded-in-the-same-C-order
#   if n_k > 1 and ... -> if n_k > 0 and ...                   -> call-pre inner call: at least one mode slice, ...
#   y_trn = y_trn - A@(Q.reshape(-1)) -> +                     -> post solver-gets-the-projected-right-hand-side (unit update)
# als_func.als_func.head*
#   'nswp': 0 -> 'nswp': 1 in info.update                      -> raise-iff counters-start-at-their-documented-values (refuted)
#   assert lamb is not None -> assert lamb is None             -> raise-iff rejects-only-update_sol-without-a-learning-rate (refuted)
#   'stop': None dropped from info.update                      -> raise-iff info-is-reset-before-anything-is-read (refuted)
# als_func.als_func.sweeps
#   rng = ... if lr == 1 else ... -> if lr != 1                -> safety list-index-in-range, post ltr: the-core-of-the-step-is-updated-through-a-view-...
#   n_k = min(n[k] + 1, n_max_cur) -> n[k] + 2                 -> post ltr/rtl: the-core-of-the-step-is-updated-through-a-view-widened-by-one-basis-function
#   ltr contract(..., out=Yl[k+1]) -> out=Yl[k]                -> call-pre contract-out-has-the-result-shape, post ltr: the-next-interface-is-built-from-...
#   final cut [(c if n_k == c.shape[1] else c[:, :n_k, :].copy()) ...] -> [c ...]   -> post result-core-k-has-the-ranks-of-A0-and-n[k]-mode-slices
#   info['nswp'] += 1 -> += 0                                  -> inv-keep loop1.sweep-counter, post info-nswp-is-the-number-of-executed-sweeps
#   _optimize_core(..., n_max_cur, ...) -> n_max               -> post ltr/rtl: the-width-of-the-basis-is-the-cap-of-the-dynamic-search
#   range(0, d-1, +1) -> range(0, d-2, +1);  for lr in [1, -1] -> [-1, 1]   -> post a-sweep-goes-left-to-right-then-right-to-left-over-d-1-cores-each
