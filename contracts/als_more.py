"""Sidecar contracts for teneva/als.py and teneva/als_func.py beyond `als._optimize_core.slices` (C07; partly C10, C11).

Models / spec symbols: ttvc/mx_als.py (gate `ex.als = True`); interpretations for the spot check: lemmas/spotcheck_ext_als.py.
"""
import ast as _ast
import z3
from ttvc.units import unit
from ttvc.symex import VOpt, VStr, VRec, VSeq, VArr, VFunc, VTuple, VRef, VList, VOpaque, NONE, Z
from ttvc import models as M, theory as T
from ttvc import mx_als as X
from contracts import spec as S

mm, tr, madd, smul, eye, rows, cols = T.mm, T.tr, T.madd, T.smul, T.eye, T.rows, T.cols
AXL = T.axioms('shape', 'als_shape', 'lsq')


# ----------------------------------------------------------------------------------------------
# als._lstsq — which linear system is handed to scipy.linalg.lstsq (C07 mechanism "per-slice ridge normal equations")
#
# Postconditions (from C07: every core update is the regularised, optionally weighted least-squares minimiser):
#   lamb given:  the solver receives exactly  (A^T W A + lamb I,  A^T W y')  with W = diag(w) (I without weights) and
#                y' = y - A u for an update (u = update_sol), y otherwise; hence, for lamb > 0 (and, with weights, w >= 0 entrywise), the returned x satisfies
#                the regularised normal equations (A^T W A + lamb I) x = A^T W y'   (scipy is trusted for: a square invertible
#                system is solved exactly; A^T W A + lamb I is invertible: axioms 'lsq', spot-checked against scipy itself);
#   lamb None:   the solver receives (A, y') - with weights (diag(w) A, w * y'): note that the weights then enter the objective
#                SQUARED (sum_s (w_s r_s)^2), unlike the lamb branch (sum_s w_s r_s^2); the docstring of als() asks for lamb=None with
#                weights, C07 quantifies over lamb > 0 only - both are stated here as they are; x satisfies the normal equations
#                M^T M x = M^T b of what was handed over;
#   the 4-tuple of the solver is returned unchanged; x has one entry per column of A;
#   overwrite flags: only temporaries are handed over with overwrite_a / overwrite_b, except in the documented case
#                lamb None, w None: A itself iff overwrite_a, y itself iff there is no update.
# NOT covered: that the normal equations characterise the minimiser (convexity; mathematics, not code), floating point
# (A-REAL), the values of residues / rank / s.

def _lstsq_unit(U, with_w, with_u):
    fn = U.func('als', '_lstsq')
    ex = U.executor(fn, axioms=AXL)
    ex.als = True
    ex.mode = 'ematch'
    st = U.state()
    At, yt, wt, ut = z3.Const('A', T.Mat), z3.Const('y', T.Mat), z3.Const('w', T.Mat), z3.Const('u', T.Mat)
    A = M.mk_mat(At)
    y = X.cvec(yt)
    w = X.cvec(wt) if with_w else NONE
    u = X.cvec(ut) if with_u else NONE
    lamb = S.opt_real('lamb')
    ow = z3.Bool('overwrite_a')
    st.vars.update(A=A, y=y, lamb=lamb, w=w, overwrite_a=ow, update_sol=u)
    pre = [rows(At) >= 1, cols(At) >= 1, rows(yt) == rows(At), cols(yt) == 1]
    if with_w:
        pre += [rows(wt) == rows(At), cols(wt) == 1]
    if with_u:
        pre += [rows(ut) == cols(At), cols(ut) == 1]
    res = U.run(ex, st, pre=pre)
    U.cover('precondition-satisfiable', U.pre, axioms=AXL)
    y1 = madd(yt, smul(-1, mm(At, ut))) if with_u else yt            # the right-hand side after the update shift
    seen = set()
    for p, o in res:
        if o.kind != 'return':
            U.post('no-exception', p, False, axioms=AXL)
            continue
        calls = p.ghost.get('solver_calls', [])
        U.post('exactly-one-solver-call', p, z3.BoolVal(len(calls) == 1))
        if len(calls) != 1:
            continue
        c = calls[0]
        Mv, bv, xv = c['M'], c['b'], c['x']
        if not (X.is_mat(Mv) and X.is_cvec(bv) and X.is_cvec(xv)):
            raise M.ContractMismatch('_lstsq: the solver is not called with a (matrix, vector) pair that has a denotation')
        ret = o.value
        U.post('returns-the-solver-result-unchanged', p,
               z3.BoolVal(isinstance(ret, VTuple) and len(ret.items) == 4 and ret.items[0] is xv))
        U.post('solution-has-one-entry-per-column-of-A', p, z3.And(Z(xv.shape[0]) == cols(At), rows(xv.t) == cols(At), cols(xv.t) == 1),
               axioms=AXL, mode='ematch')
        U.post('solver-may-overwrite-its-arguments-as-requested', p, z3.BoolVal(c['ow_a'] is True and c['ow_b'] is True))
        # which branch is this path?  (decided by the path condition)
        lamb_given = M.quick_unsat(list(p.pc) + [lamb.isnone])
        lamb_none = M.quick_unsat(list(p.pc) + [z3.Not(lamb.isnone)])
        if lamb_given == lamb_none:
            raise M.ContractMismatch('_lstsq: a path that does not decide `lamb is None`')
        seen.add(lamb_given)
        a_is_param, b_is_param = Mv is A, bv is y
        if lamb_given:
            Mx = X.ridge(At, lamb.val, wt if with_w else None)
            bx = mm(tr(At), X.dscale(wt, y1)) if with_w else mm(tr(At), y1)
            U.post('solver-gets-the-regularised-normal-matrix', p, Mv.t == Mx, axioms=AXL, mode='ematch')
            U.post('solver-gets-the-projected-right-hand-side', p, bv.t == bx, axioms=AXL, mode='ematch')
            U.post('solution-satisfies-the-regularised-normal-equations', p,
                   z3.Implies(z3.And(lamb.val > 0, X.nonneg(wt)) if with_w else lamb.val > 0, X.meq(mm(Mx, xv.t), bx)), axioms=AXL, mode='ematch')
            U.post('only-temporaries-are-overwritten', p, z3.BoolVal(not a_is_param and not b_is_param))
            # vacuity guards: the unregularised equations / the unweighted right-hand side must not be derivable
            U.canary('canary-unregularised-equations', p,
                     z3.Implies(z3.And(lamb.val > 0, X.nonneg(wt)), X.meq(mm(mm(tr(At), At), xv.t), bx)), axioms=AXL)
            if with_w:
                U.canary('canary-weights-ignored', p, bv.t == mm(tr(At), y1), axioms=AXL)
        else:
            Mx = X.dscale(wt, At) if with_w else At
            bx = X.had(y1, wt) if with_w else y1
            U.post('solver-gets-the-row-scaled-design-matrix' if with_w else 'solver-gets-the-design-matrix', p, Mv.t == Mx,
                   axioms=AXL, mode='ematch')
            U.post('solver-gets-the-scaled-right-hand-side' if with_w else 'solver-gets-the-right-hand-side', p, bv.t == bx,
                   axioms=AXL, mode='ematch')
            U.post('solution-satisfies-the-normal-equations', p, X.meq(mm(tr(Mx), mm(Mx, xv.t)), mm(tr(Mx), bx)), axioms=AXL, mode='ematch')
            if with_w:
                U.post('only-temporaries-are-overwritten', p, z3.BoolVal(not a_is_param and not b_is_param))
            else:
                ow_true = M.quick_unsat(list(p.pc) + [z3.Not(ow)])
                ow_false = M.quick_unsat(list(p.pc) + [ow])
                if ow_true == ow_false:
                    raise M.ContractMismatch('_lstsq: a path that does not decide `overwrite_a`')
                U.post('A-itself-is-overwritten-iff-overwrite_a', p, z3.BoolVal(a_is_param == ow_true))
                U.post('y-itself-is-overwritten-iff-there-is-no-update', p, z3.BoolVal(b_is_param == (not with_u)))
            U.canary('canary-exact-solve-without-regularisation', p, X.meq(mm(Mx, xv.t), bx), axioms=AXL)
    U.post('both-branches-reached', U.pre, z3.BoolVal(seen == {True, False}))


for _w in (False, True):
    for _u in (False, True):
        def _mk(w=_w, u=_u):
            @unit(f'als._lstsq.{"w" if w else "-"}{"u" if u else "-"}', props=('C07',))
            def u_(U):
                _lstsq_unit(U, w, u)
        _mk()


# ----------------------------------------------------------------------------------------------
# call-site contract of als._lstsq(A, y, lamb=, w=, update_sol=) - exactly what the units als._lstsq.* prove

def lstsq_terms(At, yt, lamb, wt, ut):
    """(x, facts): the solution as a term and the proved facts about it.  lamb: VOpt / NONE / number; wt, ut: Mat terms or None."""
    y1 = madd(yt, smul(-1, mm(At, ut))) if ut is not None else yt
    lo = S.as_opt_num(lamb)
    lv = M.to_real(lo.val)
    Mr = X.ridge(At, lv, wt)
    br = mm(tr(At), X.dscale(wt, y1)) if wt is not None else mm(tr(At), y1)
    M0 = X.dscale(wt, At) if wt is not None else At
    b0 = X.had(y1, wt) if wt is not None else y1
    x = z3.If(lo.isnone, X.lsq(M0, b0), X.lsq(Mr, br))
    good = z3.And(lv > 0, X.nonneg(wt)) if wt is not None else lv > 0
    facts = [rows(x) == cols(At), cols(x) == 1,
             z3.Implies(z3.And(z3.Not(lo.isnone), good), X.meq(mm(Mr, x), br)),
             z3.Implies(lo.isnone, X.meq(mm(tr(M0), mm(M0, x)), mm(tr(M0), b0)))]
    return x, facts, dict(ridge=Mr, rhs=br, M0=M0, b0=b0, y1=y1, good=good, isnone=lo.isnone)


def call_lstsq(ex, st, args, kwargs, node):
    if len(args) != 2 or not set(kwargs) <= {'lamb', 'w', 'update_sol'}:
        raise M.Unsupported('_lstsq: only the call (A, y, lamb=, w=, update_sol=) has a call-site contract')
    A, y = st.deref(args[0]), st.deref(args[1])
    lamb, w, u = kwargs.get('lamb', 1e-2), st.deref(kwargs.get('w', NONE)), st.deref(kwargs.get('update_sol', NONE))
    if not (X.is_mat(A) and X.is_cvec(y) and (w is NONE or X.is_cvec(w)) and (u is NONE or X.is_cvec(u))):
        raise M.Unsupported('_lstsq: arguments without a denotation (matrix, 1-D arrays)')
    ex.oblige(st, 'call-pre', '_lstsq: non-empty design matrix with one row per entry of y',
              z3.And(Z(A.shape[0]) >= 1, Z(A.shape[1]) >= 1, Z(y.shape[0]) == Z(A.shape[0])), node)
    if w is not NONE:
        ex.oblige(st, 'call-pre', '_lstsq: one weight per row', Z(w.shape[0]) == Z(A.shape[0]), node)
    if u is not NONE:
        ex.oblige(st, 'call-pre', '_lstsq: update_sol has one entry per column', Z(u.shape[0]) == Z(A.shape[1]), node)
    x, facts, parts = lstsq_terms(A.t, y.t, lamb, None if w is NONE else w.t, None if u is NONE else u.t)
    xs = ex.fresh('xsol', T.Mat)
    st.assume(xs == x, *facts)
    xv = X.cvec(xs, A.shape[1])
    st.ghost['lstsq_calls'] = st.ghost.get('lstsq_calls', []) + [dict(A=A, y=y, lamb=lamb, w=w, u=u, x=xv, parts=parts)]
    return VTuple([xv, VOpaque('residues'), VOpaque('rank'), VOpaque('s')])


# ----------------------------------------------------------------------------------------------
# als._optimize_core - value tier (beyond `als._optimize_core.slices`): the least-squares problem of each slice and the layout of
# its solution.
#
# For every mode index k that is carried by at least one sample (idx = the positions of these samples, increasing):
#   * the design matrix handed to _lstsq is krrows(Yl[idx, :], Yr[:, idx]^T): row s is kron(Yl[idx_s, :], Yr[:, idx_s]) in C order,
#     the right-hand side is y_trn[idx], the weights are w[idx] (or None), lamb is passed through, update_sol is vecC(Q[:, k, :]);
#   * the slice is written back in the SAME C order: vecC(Q'[:, k, :]) = x (plain) / vecC(Q[:, k, :]) + x (update), so that the
#     solver's model values A x are the model values diag(Yl[idx] Q'[:, k, :] Yr[:, idx]) of the samples (axiom 'krvec');
#   * hence Q'[:, k, :] satisfies the regularised normal equations of its slice (lamb > 0; weights >= 0) - composition with the
#     contract of _lstsq;
#   * no other slice changes in this step; slices whose index no sample carries are never changed; the result is a copy.
# The interfaces are general matrices: the first core (Yl with one column) and the last core (Yr with one row) are instances
# (covers).  NOT covered: the values of the interface matrices themselves (als main loop), floating point.

AXO = T.axioms('shape', 'mulI', 'als_shape', 'lsq', 'krvec', 'cputsl')


def _optimize_core_unit(U, with_w, with_u):
    fn = U.func('als', '_optimize_core')
    st = U.state()
    Qt, Ylt, Yrt, yt, wt = z3.Const('Q', T.Core), z3.Const('Yl', T.Mat), z3.Const('Yr', T.Mat), z3.Const('y_trn', T.Mat), z3.Const('w', T.Mat)
    r1, n, r2 = T.d0(Qt), T.d1(Qt), T.d2(Qt)
    ms = z3.Int('ms')
    iarr = z3.Const('i', X.IA)
    Q = M.mk_core(Qt)
    ivec = VArr((ms,), iarr, 'ivec', 'i')
    Yl, Yr = VArr((ms, r1), Ylt, 'mat'), VArr((r2, ms), Yrt, 'mat')
    y = X.cvec(yt, ms)
    w = X.cvec(wt, ms) if with_w else NONE
    lamb = S.opt_real('lamb')
    s_, t_ = z3.Int('s!oc'), z3.Int('t!oc')

    def nosample(t):
        return z3.ForAll([s_], z3.Implies(z3.And(0 <= s_, s_ < ms), iarr[s_] != t), patterns=[iarr[s_]])

    def cur(s):
        Qc = s.vars['Q']
        if not (isinstance(Qc, VArr) and Qc.ndim == 3 and Qc.tag == 'core' and Qc.t is not None):
            raise M.ContractMismatch('_optimize_core: Q is no longer a core with a denotation')
        return Qc

    def inv(ex, s, j):
        Qc = cur(s)
        return [('core-shape-kept', z3.And(T.d0(Qc.t) == r1, T.d1(Qc.t) == n, T.d2(Qc.t) == r2,
                                           Z(Qc.shape[0]) == r1, Z(Qc.shape[1]) == n, Z(Qc.shape[2]) == r2)),
                ('slices-not-yet-visited-are-untouched',
                 z3.ForAll([t_], z3.Implies(z3.And(j <= t_, t_ < n), T.sl(Qc.t, t_) == T.sl(Qt, t_)), patterns=[T.sl(Qc.t, t_)])),
                ('visited-slices-without-a-sample-are-untouched',
                 z3.ForAll([t_], z3.Implies(z3.And(0 <= t_, t_ < j, nosample(t_)), T.sl(Qc.t, t_) == T.sl(Qt, t_)), patterns=[T.sl(Qc.t, t_)]))]

    def havoc_hook(ex, h, pre, j):
        h.vars['Q'].origin = getattr(pre.vars['Q'], 'origin', None)

    def body_end(ex, s, o, j):
        k = j
        calls, stores = s.ghost.get('lstsq_calls', []), s.ghost.get('slice_stores', [])
        if o.kind == 'continue' or (not calls and not stores):
            return                               # (that a slice is skipped only without samples: unit als._optimize_core.slices)
        if o.kind != 'normal':
            return
        ob = lambda lbl, g: ex.oblige(s, 'post', lbl, g, None, assume=False)
        ob('one-solve-and-one-slice-write-per-visited-slice', z3.BoolVal(len(calls) == 1 and len(stores) == 1))
        if len(calls) != 1 or len(stores) != 1:
            return
        c, w_ = calls[0], stores[0]
        idx = s.vars.get('idx')
        if not (isinstance(idx, VArr) and idx.tag == 'ivec' and idx.t is not None):
            raise M.ContractMismatch('_optimize_core: idx is no longer the integer vector of sample positions')
        L = Z(idx.shape[0])
        P, Rm = X.rowg(Ylt, idx.t, L), tr(X.colg(Yrt, idx.t, L))
        Ad = X.krrows(P, Rm)
        Qold, Qnew = w_['old'], cur(s)
        Xold, Xnew = T.sl(Qold.t, k), T.sl(Qnew.t, k)
        xs = c['x'].t
        ob('idx-are-the-sample-positions-of-slice-k',
           z3.ForAll([s_], z3.Implies(z3.And(0 <= s_, s_ < L), z3.And(0 <= idx.t[s_], idx.t[s_] < ms, iarr[idx.t[s_]] == k)),
                     patterns=[idx.t[s_]]))
        # (proved here and then available to the invariant: names the term idx[0], which e-matching needs to refute `no sample`)
        ex.oblige(s, 'post', 'a-written-slice-has-a-sample', z3.And(L > 0, 0 <= idx.t[0], idx.t[0] < ms, iarr[idx.t[0]] == k), None, assume=True)
        ob('design-matrix-rows-are-kron-of-left-and-right-interface-rows-in-C-order', c['A'].t == Ad)
        ob('right-hand-side-are-the-values-of-the-samples-of-the-slice', c['y'].t == X.rowg(yt, idx.t, L))
        ob('weights-are-those-of-the-samples-of-the-slice',
           (c['w'].t == X.rowg(wt, idx.t, L)) if (with_w and c['w'] is not NONE) else z3.BoolVal((c['w'] is NONE) == (not with_w)))
        ob('regularisation-is-passed-through', z3.BoolVal(c['lamb'] is lamb))
        ob('the-written-slice-is-slice-k', w_['j'] == k)
        ob('arrays-handed-to-_lstsq-are-temporaries', z3.BoolVal(all(c['A'] is not v and c['y'] is not v for v in (Yl, Yr, y))))
        if with_u:
            ob('update_sol-is-the-current-slice-flattened-in-C-order', (c['u'].t == X.vecC(Xold)) if c['u'] is not NONE else False)
            ob('slice-k-is-the-old-slice-plus-the-solution-folded-in-the-same-C-order', X.vecC(Xnew) == madd(X.vecC(Xold), xs))
            wk = X.rowg(wt, idx.t, L) if with_w else None
            good = z3.And(z3.Not(lamb.isnone), lamb.val > 0, X.nonneg(wt)) if with_w else z3.And(z3.Not(lamb.isnone), lamb.val > 0)
            resid = madd(X.rowg(yt, idx.t, L), smul(-1, mm(Ad, X.vecC(Xold))))
            ob('the-increment-satisfies-the-regularised-normal-equations-of-the-residual-of-its-samples',
               z3.Implies(good, X.meq(mm(X.ridge(Ad, lamb.val, wk), xs), mm(tr(Ad), X.dscale(wk, resid) if with_w else resid))))
        else:
            ob('no-update_sol-without-update', z3.BoolVal(c['u'] is NONE))
            ob('slice-k-is-the-solution-folded-in-the-same-C-order', X.vecC(Xnew) == xs)
            ob('solver-model-values-are-the-tensor-model-values-at-the-samples', mm(c['A'].t, xs) == X.dg(mm(mm(P, Xnew), tr(Rm))))
            wk = X.rowg(wt, idx.t, L) if with_w else None
            good = z3.And(z3.Not(lamb.isnone), lamb.val > 0, X.nonneg(wt)) if with_w else z3.And(z3.Not(lamb.isnone), lamb.val > 0)
            rhs = mm(tr(Ad), X.dscale(wk, X.rowg(yt, idx.t, L))) if with_w else mm(tr(Ad), X.rowg(yt, idx.t, L))
            ob('slice-k-satisfies-the-regularised-normal-equations-of-its-samples',
               z3.Implies(good, X.meq(mm(X.ridge(Ad, lamb.val, wk), X.vecC(Xnew)), rhs)))
        ob('no-other-slice-changes-in-this-step',
           z3.ForAll([t_], z3.Implies(t_ != k, T.sl(Qnew.t, t_) == T.sl(Qold.t, t_)), patterns=[T.sl(Qnew.t, t_)]))

    ex = U.executor(fn, loops={0: {'inv': inv, 'body_end': body_end, 'havoc_hook': havoc_hook}}, callees={'als._lstsq': call_lstsq}, axioms=AXO)
    ex.als = True
    ex.mode = 'ematch'
    st.vars.update(Q=Q, i=ivec, y_trn=y, Yl=Yl, Yr=Yr, lamb=lamb, w=w, update_sol=True if with_u else NONE)
    pre = [r1 >= 1, n >= 1, r2 >= 1, ms >= 0, rows(Ylt) == ms, cols(Ylt) == r1, rows(Yrt) == r2, cols(Yrt) == ms, rows(yt) == ms, cols(yt) == 1]
    if with_w:
        pre += [rows(wt) == ms, cols(wt) == 1]
    with X.own_slice_writes():
        res = U.run(ex, st, pre=pre)
    U.cover('precondition-satisfiable', U.pre, axioms=AXO)
    U.cover('first-core-reachable-left-interface-with-one-column', U.pre + [r1 == 1, ms >= 1], axioms=AXO)
    U.cover('last-core-reachable-right-interface-with-one-row', U.pre + [r2 == 1, ms >= 1], axioms=AXO)
    for p, o in res:
        if o.kind != 'return':
            U.post('no-exception', p, False, axioms=AXO)
            continue
        Qr = p.deref(o.value)
        ok = isinstance(Qr, VArr) and Qr.ndim == 3 and Qr.tag == 'core' and Qr.t is not None
        U.post('result-has-the-shape-of-the-core', p, z3.And(T.d0(Qr.t) == r1, T.d1(Qr.t) == n, T.d2(Qr.t) == r2) if ok else False,
               axioms=AXO, mode='ematch')
        U.post('slices-without-a-sample-are-unchanged', p,
               z3.ForAll([t_], z3.Implies(z3.And(0 <= t_, t_ < n, nosample(t_)), T.sl(Qr.t, t_) == T.sl(Qt, t_)), patterns=[T.sl(Qr.t, t_)])
               if ok else False, axioms=AXO, mode='ematch')
        org = getattr(Qr, 'origin', None)
        U.post('works-on-a-copy-of-the-core', p, z3.BoolVal(org is not None and org is not Q and getattr(org, 'copy_of', None) is Q))
        U.canary('canary-every-slice-unchanged', p, z3.ForAll([t_], T.sl(Qr.t, t_) == T.sl(Qt, t_)) if ok else False, axioms=AXO)


for _w in (False, True):
    for _u in (False, True):
        def _mk(w=_w, u=_u):
            @unit(f'als._optimize_core.values.{"w" if w else "-"}{"u" if u else "-"}', props=('C07',))
            def u_(U):
                _optimize_core_unit(U, w, u)
        _mk()
