"""Sidecar contracts for teneva/als.py and teneva/als_func.py beyond `als._optimize_core.slices` (C07; partly C10, C11).

Models / spec symbols: ttvc/mx_als.py (gate `ex.als = True`); interpretations for the spot check: lemmas/spotcheck_ext_als.py.
"""
import ast as _ast
import z3
from ttvc.units import unit
from ttvc.symex import VOpt, VStr, VRec, VSeq, VArr, VFunc, VTuple, VRef, VList, VOpaque, NONE, Z
from ttvc import models as M, theory as T
from ttvc import mx_als as X
from contracts import spec as S

mm, tr, madd, smul, eye, rows, cols = T.mm, T.tr, T.madd, T.smul, T.eye, T.rows, T.cols
AXL = T.axioms('shape', 'als_shape', 'lsq')


# ----------------------------------------------------------------------------------------------
# als._lstsq — which linear system is handed to scipy.linalg.lstsq (C07 mechanism "per-slice ridge normal equations")
#
# Postconditions (from C07: every core update is the regularised, optionally weighted least-squares minimiser):
#   lamb given:  the solver receives exactly  (A^T W A + lamb I,  A^T W y')  with W = diag(w) (I without weights) and
#                y' = y - A u for an update (u = update_sol), y otherwise; hence, for lamb > 0 (and w >= 0), the returned x satisfies
#                the regularised normal equations (A^T W A + lamb I) x = A^T W y'   (scipy is trusted for: a square invertible
#                system is solved exactly; A^T W A + lamb I is invertible: axioms 'lsq', spot-checked against scipy itself);
#   lamb None:   the solver receives (A, y') - with weights (diag(w) A, w * y'): note that the weights then enter the objective
#                SQUARED (sum_s (w_s r_s)^2), unlike the lamb branch (sum_s w_s r_s^2); the docstring of als() asks for lamb=None with
#                weights, C07 quantifies over lamb > 0 only - both are stated here as they are; x satisfies the normal equations
#                M^T M x = M^T b of what was handed over;
#   the 4-tuple of the solver is returned unchanged; x has one entry per column of A;
#   overwrite flags: only temporaries are handed over with overwrite_a / overwrite_b, except in the documented case
#                lamb None, w None: A itself iff overwrite_a, y itself iff there is no update.
# NOT covered: that the normal equations characterise the minimiser (convexity; mathematics, not code), floating point
# (A-REAL), the values of residues / rank / s.

def _lstsq_unit(U, with_w, with_u):
    fn = U.func('als', '_lstsq')
    ex = U.executor(fn, axioms=AXL)
    ex.als = True
    ex.mode = 'ematch'
    st = U.state()
    At, yt, wt, ut = z3.Const('A', T.Mat), z3.Const('y', T.Mat), z3.Const('w', T.Mat), z3.Const('u', T.Mat)
    A = M.mk_mat(At)
    y = X.cvec(yt)
    w = X.cvec(wt) if with_w else NONE
    u = X.cvec(ut) if with_u else NONE
    lamb = S.opt_real('lamb')
    ow = z3.Bool('overwrite_a')
    st.vars.update(A=A, y=y, lamb=lamb, w=w, overwrite_a=ow, update_sol=u)
    pre = [rows(At) >= 1, cols(At) >= 1, rows(yt) == rows(At), cols(yt) == 1]
    if with_w:
        pre += [rows(wt) == rows(At), cols(wt) == 1, X.nonneg(wt)]
    if with_u:
        pre += [rows(ut) == cols(At), cols(ut) == 1]
    res = U.run(ex, st, pre=pre)
    U.cover('precondition-satisfiable', U.pre, axioms=AXL)
    y1 = madd(yt, smul(-1, mm(At, ut))) if with_u else yt            # the right-hand side after the update shift
    seen = set()
    for p, o in res:
        if o.kind != 'return':
            U.post('no-exception', p, False, axioms=AXL)
            continue
        calls = p.ghost.get('solver_calls', [])
        U.post('exactly-one-solver-call', p, z3.BoolVal(len(calls) == 1))
        if len(calls) != 1:
            continue
        c = calls[0]
        Mv, bv, xv = c['M'], c['b'], c['x']
        if not (X.is_mat(Mv) and X.is_cvec(bv) and X.is_cvec(xv)):
            raise M.ContractMismatch('_lstsq: the solver is not called with a (matrix, vector) pair that has a denotation')
        ret = o.value
        U.post('returns-the-solver-result-unchanged', p,
               z3.BoolVal(isinstance(ret, VTuple) and len(ret.items) == 4 and ret.items[0] is xv))
        U.post('solution-has-one-entry-per-column-of-A', p, z3.And(Z(xv.shape[0]) == cols(At), rows(xv.t) == cols(At), cols(xv.t) == 1),
               axioms=AXL, mode='ematch')
        U.post('solver-may-overwrite-its-arguments-as-requested', p, z3.BoolVal(c['ow_a'] is True and c['ow_b'] is True))
        # which branch is this path?  (decided by the path condition)
        lamb_given = M.quick_unsat(list(p.pc) + [lamb.isnone])
        lamb_none = M.quick_unsat(list(p.pc) + [z3.Not(lamb.isnone)])
        if lamb_given == lamb_none:
            raise M.ContractMismatch('_lstsq: a path that does not decide `lamb is None`')
        seen.add(lamb_given)
        a_is_param, b_is_param = Mv is A, bv is y
        if lamb_given:
            Mx = X.ridge(At, lamb.val, wt if with_w else None)
            bx = mm(tr(At), X.dscale(wt, y1)) if with_w else mm(tr(At), y1)
            U.post('solver-gets-the-regularised-normal-matrix', p, Mv.t == Mx, axioms=AXL, mode='ematch')
            U.post('solver-gets-the-projected-right-hand-side', p, bv.t == bx, axioms=AXL, mode='ematch')
            U.post('solution-satisfies-the-regularised-normal-equations', p,
                   z3.Implies(lamb.val > 0, X.meq(mm(Mx, xv.t), bx)), axioms=AXL, mode='ematch')
            U.post('only-temporaries-are-overwritten', p, z3.BoolVal(not a_is_param and not b_is_param))
            # vacuity guards: the unregularised equations / the unweighted right-hand side must not be derivable
            U.canary('canary-unregularised-equations', p, z3.Implies(lamb.val > 0, X.meq(mm(mm(tr(At), At), xv.t), bx)), axioms=AXL)
            if with_w:
                U.canary('canary-weights-ignored', p, bv.t == mm(tr(At), y1), axioms=AXL)
        else:
            Mx = X.dscale(wt, At) if with_w else At
            bx = X.had(y1, wt) if with_w else y1
            U.post('solver-gets-the-row-scaled-design-matrix' if with_w else 'solver-gets-the-design-matrix', p, Mv.t == Mx,
                   axioms=AXL, mode='ematch')
            U.post('solver-gets-the-scaled-right-hand-side' if with_w else 'solver-gets-the-right-hand-side', p, bv.t == bx,
                   axioms=AXL, mode='ematch')
            U.post('solution-satisfies-the-normal-equations', p, X.meq(mm(tr(Mx), mm(Mx, xv.t)), mm(tr(Mx), bx)), axioms=AXL, mode='ematch')
            if with_w:
                U.post('only-temporaries-are-overwritten', p, z3.BoolVal(not a_is_param and not b_is_param))
            else:
                ow_true = M.quick_unsat(list(p.pc) + [z3.Not(ow)])
                ow_false = M.quick_unsat(list(p.pc) + [ow])
                if ow_true == ow_false:
                    raise M.ContractMismatch('_lstsq: a path that does not decide `overwrite_a`')
                U.post('A-itself-is-overwritten-iff-overwrite_a', p, z3.BoolVal(a_is_param == ow_true))
                U.post('y-itself-is-overwritten-iff-there-is-no-update', p, z3.BoolVal(b_is_param == (not with_u)))
            U.canary('canary-exact-solve-without-regularisation', p, X.meq(mm(Mx, xv.t), bx), axioms=AXL)
    U.post('both-branches-reached', U.pre, z3.BoolVal(seen == {True, False}))


for _w in (False, True):
    for _u in (False, True):
        def _mk(w=_w, u=_u):
            @unit(f'als._lstsq.{"w" if w else "-"}{"u" if u else "-"}', props=('C07',))
            def u_(U):
                _lstsq_unit(U, w, u)
        _mk()
