"""The algebra axioms of ttvc/theory.py that are purely algebraic, proved in Lean 4 + Mathlib (lemmas/TTAlg.lean).
Thorough tier only (Mathlib takes up to a minute to load on a cold cache); in the quick tier these axioms are listed as
assumed in the evidence."""
import os, re, subprocess, time
from ttvc.units import unit

ROOT = os.path.dirname(os.path.dirname(os.path.abspath(__file__)))


@unit('lemmas.TTAlg', props=('C01', 'C04', 'C19'))
def u_lean(U):
    if U.tier != 'thorough':
        U.add_meta(models_used=['QUICK TIER: the algebra axioms proved in lemmas/TTAlg.lean are assumed (checked in the thorough tier)'])
        return
    path = os.path.join(ROOT, 'lemmas', 'TTAlg.lean')
    src = open(path).read()
    names = re.findall(r'^theorem\s+(\w+)', src, re.M)
    t0 = time.time()
    p = subprocess.run(['lean', path], capture_output=True, text=True, timeout=900)
    secs = time.time() - t0
    out = p.stdout + p.stderr
    bad_lines = {int(m.group(1)) for m in re.finditer(r'TTAlg\.lean:(\d+):\d+: error', out)}
    starts = [(m.start(), m.group(1)) for m in re.finditer(r'^theorem\s+(\w+)', src, re.M)]
    line_of = lambda pos: src.count('\n', 0, pos) + 1
    spans = [(line_of(a), line_of(starts[i + 1][0]) - 1 if i + 1 < len(starts) else src.count('\n') + 1, nm) for i, (a, nm) in enumerate(starts)]
    if 'sorry' in src or 'admit' in src or re.search(r'^\s*axiom\s', src, re.M):
        U.direct('lean', 'no-sorry-no-axiom', 'failed', 'lemmas/TTAlg.lean contains sorry / admit / axiom', path, backend='lean4+mathlib')
    for lo, hi, nm in spans:
        ok = p.returncode == 0 and not any(lo <= b <= hi for b in bad_lines)
        U.direct('lean', nm, 'proved' if ok else 'failed', '' if ok else out[-400:], f'lemmas/TTAlg.lean:{lo}', backend='lean4+mathlib',
                 seconds=secs / max(1, len(spans)))
    U.direct('cover', 'lean-file-has-theorems', 'ok' if names else 'vacuous', '', path, backend='lean4+mathlib')


@unit('lemmas.spotcheck', props=tuple(f'C{k:02d}' for k in range(1, 21)))
def u_spot(U):
    """Every axiom of ttvc/theory.py and of the extension modules ttvc/mx_*.py evaluated in the standard model (real NumPy on
    random small instances).  A falsified axiom makes every proof that uses it worthless, so it is reported as a failed vacuity
    guard (the check becomes undecided).  Runs as a child interpreter so that it can use a process pool."""
    import json, os, subprocess, sys
    root = os.path.dirname(os.path.dirname(os.path.abspath(__file__)))
    env = dict(os.environ, PYTHONPATH=os.pathsep.join([root, os.path.join(root, '.deps')]))
    # The spot check is a function of the theory / model sources and of NumPy alone (not of /repo).  All twenty checks contain it, and
    # twenty checks started at the same time would run twenty process pools: they serialise on a lock file, and a result computed
    # from byte-identical sources less than 15 minutes ago is reused (said so in the evidence).  The cache lives in the untracked
    # directory .scratch; a fresh checkout has none.
    import fcntl, glob, hashlib, time
    import numpy
    h = hashlib.sha256(numpy.__version__.encode())
    for f in sorted(glob.glob(os.path.join(root, 'ttvc', '*.py')) + glob.glob(os.path.join(root, 'lemmas', 'spotcheck*.py'))):
        h.update(open(f, 'rb').read())
    key = h.hexdigest()[:20]
    scratch = os.path.join(root, '.scratch')
    os.makedirs(scratch, exist_ok=True)
    cache = os.path.join(scratch, f'spotcheck_{key}.json')
    reused, res, err = '', None, ''
    with open(os.path.join(scratch, 'spotcheck.lock'), 'w') as lock:
        t_wait = time.time()
        while True:
            try:
                fcntl.flock(lock, fcntl.LOCK_EX | fcntl.LOCK_NB)
                break
            except OSError:
                if time.time() - t_wait > 150:
                    break                                  # do not wait for ever: compute without the lock
                time.sleep(0.5)
        try:
            if os.path.exists(cache) and time.time() - os.path.getmtime(cache) < 900:
                try:
                    res = json.load(open(cache))
                    reused = f' (result of a run on byte-identical theory sources {int(time.time() - os.path.getmtime(cache))} s ago reused, key {key})'
                except Exception:
                    res = None
            if res is None:
                out = subprocess.run([sys.executable, '-B', os.path.join(root, 'lemmas', 'spotcheck.py'), '--json'], capture_output=True,
                                     text=True, env=env, timeout=600)
                try:
                    res = json.loads(out.stdout.strip().splitlines()[-1])
                    tmp = cache + f'.{os.getpid()}'
                    json.dump(res, open(tmp, 'w'))
                    os.replace(tmp, cache)
                except Exception:
                    err = (out.stderr or out.stdout)[-400:]
        finally:
            try:
                fcntl.flock(lock, fcntl.LOCK_UN)
            except OSError:
                pass
    if res is None:
        U.direct('cover', 'axioms-hold-in-the-standard-model', 'vacuous', 'spot check did not run: ' + err,
                 'lemmas/spotcheck.py', backend='numpy-spotcheck')
        return
    bad = [r for r in res if r[1] == 'FALSIFIED']
    unex = [r for r in res if r[1] in ('unexercised', 'skipped')]
    U.direct('cover', 'axioms-hold-in-the-standard-model', 'ok' if not bad else 'vacuous',
             f'{len(res) - len(bad) - len(unex)} axioms exercised and true, {len(unex)} not exercised' + reused if not bad else
             'FALSIFIED in the standard model: ' + '; '.join(f'{r[0]} {r[2][:200]}' for r in bad), 'ttvc/theory.py', backend='numpy-spotcheck')
    U.add_meta(models_used=[f'standard-model spot check of {len(res)} theory axioms on random small instances (bounded)' + reused])
