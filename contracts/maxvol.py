"""Sidecar contracts for teneva/maxvol.py and utils._maxvol (C08): argument validation, index validity, stopping
criteria and the number of returned rows.  The values of B (A = B A[I], B[I] = identity) are covered by the bounded suite."""
import z3
from ttvc.units import unit
from ttvc.symex import VOpt, VStr, VRec, VSeq, VArr, VFunc, VTuple, VRef, VList, NONE, Z
from ttvc import models as M, theory as T, lin as L
from contracts import spec as S

_i = z3.Int('i!mv')


def valid_rows(I, n, upto=None):
    hi = Z(I.shape[0]) if upto is None else upto
    return z3.ForAll([_i], z3.Implies(z3.And(0 <= _i, _i < hi), z3.And(I.t[_i] >= 0, I.t[_i] < n)), patterns=[I.t[_i]])


@unit('maxvol.maxvol', props=('C08',))
def u_maxvol(U):
    fn = U.func('maxvol', 'maxvol')
    st = U.state()
    A, a = S.mat_param('A')
    n, r = T.rows(a), T.cols(a)
    e, k = z3.Real('e'), z3.Int('k')

    def inv(ex, s, j):
        B, I = s.vars['B'], s.vars['I']
        ok = isinstance(B, VArr) and B.ndim == 2 and B.t is not None and isinstance(I, VArr) and I.tag == 'ivec'
        if not ok:
            return [('B-is-a-matrix-and-I-an-index-vector', z3.BoolVal(False))]
        return [('B-shape', z3.And(Z(B.shape[0]) == n, Z(B.shape[1]) == r)), ('I-length', Z(I.shape[0]) == r),
                ('row-numbers-valid', valid_rows(I, n))]

    def body_end(ex_, s_, o_, j_):
        if o_.kind == 'break':
            B, i, j = s_.ghost['argmax_entry']
            x, y = z3.Ints('x y')
            absv = lambda t: z3.If(t >= 0, t, -t)
            ex_.oblige(s_, 'post', 'leaving-by-break-means-max|B|<=e',
                       z3.Implies(z3.And(0 <= x, x < n, 0 <= y, y < r), absv(T.ent(B.t, x, y)) <= e), None, assume=False)
            ex_.oblige(s_, 'post', 'tested-entry-is-the-current-B', z3.BoolVal(s_.vars['B'] is B), None, assume=False)

    ex = U.executor(fn, loops={0: {'inv': inv, 'body_end': body_end}}, axioms=T.axioms('shape'), lenient=True)
    st.vars.update(A=A, e=e, k=k)
    res = U.run(ex, st, pre=[n >= 1, r >= 1, e >= 1, k >= 0])
    U.cover('precondition-satisfiable', U.pre)
    for p, o in res:
        if o.kind == 'raise':
            U.raise_iff('rejects-only-wide-or-square-input', p, n <= r)
            U.raise_iff('raises-ValueError', p, o.exc == 'ValueError')
            continue
        U.raise_iff('accepts-only-tall-input', p, n > r)
        I, B = [p.deref(x) for x in o.value.items]
        U.post('r-row-numbers', p, Z(I.shape[0]) == r if isinstance(I, VArr) and I.ndim == 1 else False)
        U.post('row-numbers-valid', p, valid_rows(I, n) if isinstance(I, VArr) and I.tag == 'ivec' else False)
        U.post('B-has-the-shape-of-A', p, z3.And(Z(B.shape[0]) == n, Z(B.shape[1]) == r) if isinstance(B, VArr) and B.ndim == 2 else False)
    U.canary('canary-never-rejects', U.pre, n > r)


def call_maxvol(ex, st, args, kwargs, node):
    A = st.deref(args[0])
    if not (isinstance(A, VArr) and A.ndim == 2):
        raise M.Unsupported('maxvol of a non-matrix')
    n, r = A.shape
    ex.oblige(st, 'call-pre', 'maxvol: tall matrix', Z(n) > Z(r), node)
    if len(args) > 1:
        ex.oblige(st, 'call-pre', 'maxvol: e >= 1', Z(ex.need_num(st, args[1], node)) >= 1, node)
    I = L.fresh_ivec(ex, st, r, 0, n, 'I0')
    return VTuple([I, L.fresh_mat(ex, st, n, r, 'B0')])


M.CALLEES['maxvol.maxvol'] = call_maxvol


def _rect_unit(U, dr_max_none):
    fn = U.func('maxvol', 'maxvol_rect')
    st = U.state()
    A, a = S.mat_param('A')
    n, r = T.rows(a), T.cols(a)
    e, e0, k0 = z3.Real('e'), z3.Real('e0'), z3.Int('k0')
    dr_min, dr_max = z3.Int('dr_min'), z3.Int('dr_max')
    r_min = r + dr_min
    r_max0 = n if dr_max_none else r + dr_max
    r_max = z3.If(r_max0 <= n, r_max0, n)

    def inv(ex, s, j):
        B, I = s.vars['B'], s.vars['I']
        ok = isinstance(B, VArr) and B.ndim == 2 and isinstance(I, VArr) and I.tag == 'ivec'
        if not ok:
            return [('B-is-a-matrix-and-I-an-index-vector', z3.BoolVal(False))]
        return [('B-has-one-column-per-selected-row', z3.And(Z(B.shape[0]) == n, Z(B.shape[1]) == r + j)),
                ('I-has-room-for-r_max-rows', Z(I.shape[0]) == r_max),
                ('selected-row-numbers-valid', valid_rows(I, n, r + j)),
                ('work-vectors', z3.And(Z(s.vars['F'].shape[0]) == n, Z(s.vars['S'].shape[0]) == n))]

    def body_end(ex_, s_, o_, j_):
        if o_.kind == 'break':
            ex_.oblige(s_, 'post', 'stops-early-only-at-or-above-the-minimum-number-of-rows', r + j_ >= r_min, None, assume=False)

    ex = U.executor(fn, loops={0: {'inv': inv, 'body_end': body_end}}, axioms=T.axioms('shape'), lenient=True)
    st.vars.update(A=A, e=e, dr_min=dr_min, dr_max=NONE if dr_max_none else dr_max, e0=e0, k0=k0)
    res = U.run(ex, st, pre=[n >= 1, r >= 1, e >= 1, e0 >= 1, k0 >= 0, n > r])
    U.cover('precondition-satisfiable', U.pre)
    bad = z3.Or(r_min < r, r_min > r_max, r_max > n)
    for p, o in res:
        if o.kind == 'raise':
            U.raise_iff('rejects-only-inconsistent-limits', p, bad)
            U.raise_iff('raises-ValueError', p, o.exc == 'ValueError')
            continue
        U.raise_iff('accepts-only-consistent-limits', p, z3.Not(bad))
        I, B = [p.deref(x) for x in o.value.items]
        okI = isinstance(I, VArr) and I.ndim == 1
        okB = isinstance(B, VArr) and B.ndim == 2
        nI = Z(I.shape[0]) if okI else z3.IntVal(-1)
        U.post('number-of-rows-between-r+dr_min-and-min(n,r+dr_max)', p, z3.And(nI >= r_min, nI <= r_max, nI <= n))
        U.post('B-has-one-column-per-returned-row', p, z3.And(Z(B.shape[0]) == n, Z(B.shape[1]) == nI) if okB else False)
        U.post('row-numbers-valid', p, valid_rows(I, n) if okI and I.tag == 'ivec' else False)
    U.canary('canary-never-rejects', U.pre, z3.Not(bad))


@unit('maxvol.maxvol_rect', props=('C08',))
def u_rect(U):
    _rect_unit(U, False)


@unit('maxvol.maxvol_rect.no_upper_limit', props=('C08',))
def u_rect_none(U):
    _rect_unit(U, True)


def call_maxvol_rect(ex, st, args, kwargs, node):
    A = st.deref(args[0])
    if not (isinstance(A, VArr) and A.ndim == 2):
        raise M.Unsupported('maxvol_rect of a non-matrix')
    n, r = Z(A.shape[0]), Z(A.shape[1])
    dr_min = Z(ex.need_num(st, args[2], node)) if len(args) > 2 else z3.IntVal(0)
    dr_max = args[3] if len(args) > 3 else kwargs.get('dr_max', NONE)
    if dr_max is NONE:
        r_max = n
    else:
        r_max = r + Z(ex.need_num(st, dr_max, node))
        r_max = z3.If(r_max <= n, r_max, n)
    # precondition = "does not raise" (proved by the units maxvol.maxvol_rect*): consistent limits and a tall matrix
    ex.oblige(st, 'call-pre', 'maxvol_rect: consistent limits (0 <= dr_min, r + dr_min <= min(n, r + dr_max)) and tall matrix',
              z3.And(dr_min >= 0, r + dr_min <= r_max, n > r), node)
    nI = ex.fresh_int('nrows')
    st.assume(nI >= r + dr_min, nI <= r_max)
    return VTuple([L.fresh_ivec(ex, st, nI, 0, n, 'Irect'), L.fresh_mat(ex, st, n, nI, 'Brect')])


M.CALLEES['maxvol.maxvol_rect'] = call_maxvol_rect


@unit('utils._maxvol', props=('C08', 'C05', 'C06'))
def u_dispatch(U):
    """Dispatch between the trivial case (n <= r), the square variant (no rows may be added) and the rectangular one; the
    requested numbers of added rows are clipped so that the callee's limits are always consistent (never raises)."""
    fn = U.func('utils', '_maxvol')
    ex = U.executor(fn, axioms=T.axioms('shape'), lenient=True)
    st = U.state()
    A, a = S.mat_param('A')
    n, r = T.rows(a), T.cols(a)
    dr_min, dr_max = z3.Ints('dr_min dr_max')
    st.vars.update(A=A, tau=z3.Real('tau'), dr_min=dr_min, dr_max=dr_max, tau0=z3.Real('tau0'), k0=z3.Int('k0'))
    res = U.run(ex, st, pre=[n >= 1, r >= 1, dr_min >= 0, dr_max >= dr_min, st.vars['tau'] >= 1, st.vars['tau0'] >= 1, st.vars['k0'] >= 0])
    U.cover('precondition-satisfiable', U.pre)
    for p, o in res:
        if o.kind != 'return':
            U.post('never-raises-for-consistent-requests', p, False)
            continue
        I, B = [p.deref(x) for x in o.value.items]
        nI = Z(I.shape[0])
        cap = z3.If(n - r < dr_max, n - r, dr_max)
        U.post('trivial-case-returns-all-rows', p, z3.Implies(n <= r, z3.And(nI == n, Z(B.shape[0]) == n, Z(B.shape[1]) == n)))
        U.post('number-of-rows-between-r+dr_min-and-r+dr_max-clipped-to-n', p,
               z3.Implies(n > r, z3.And(nI >= r + z3.If(dr_min < cap, dr_min, cap), nI <= r + cap, nI <= n)))
        U.post('coefficient-matrix-has-one-column-per-row-number', p, z3.And(Z(B.shape[0]) == n, Z(B.shape[1]) == nI))
        U.post('row-numbers-valid', p, valid_rows(I, n) if I.tag == 'ivec' and I.t is not None else False)
    U.canary('canary-always-trivial', U.pre, n <= r)


def call_maxvol_dispatch(ex, st, args, kwargs, node):
    """Call-site contract of utils._maxvol(A, tau, dr_min, dr_max, tau0, k0) — the postcondition proved by the unit
    utils._maxvol: never raises for 0 <= dr_min <= dr_max; the number nI of returned row numbers is n for n <= r and lies
    between r + min(dr_min, cap) and r + cap (cap = min(dr_max, n - r)) otherwise; B is n x nI; row numbers are valid."""
    A = st.deref(args[0])
    if not (isinstance(A, VArr) and A.ndim == 2):
        raise M.Unsupported('_maxvol of a non-matrix')
    n, r = Z(A.shape[0]), Z(A.shape[1])
    dr_min = Z(ex.need_num(st, args[2], node)) if len(args) > 2 else z3.IntVal(0)
    dr_max = Z(ex.need_num(st, args[3], node)) if len(args) > 3 else z3.IntVal(0)
    ex.oblige(st, 'call-pre', '_maxvol: non-empty matrix and consistent requests (0 <= dr_min <= dr_max)',
              z3.And(n >= 1, r >= 1, dr_min >= 0, dr_max >= dr_min), node)
    nI = ex.fresh_int('nrows')
    cap = z3.If(n - r < dr_max, n - r, dr_max)
    st.assume(z3.Implies(n <= r, nI == n),
              z3.Implies(n > r, z3.And(nI >= r + z3.If(dr_min < cap, dr_min, cap), nI <= r + cap, nI <= n)))
    return VTuple([L.fresh_ivec(ex, st, nI, 0, n, 'Imv'), L.fresh_mat(ex, st, n, nI, 'Bmv')])


M.CALLEES['utils._maxvol'] = call_maxvol_dispatch
