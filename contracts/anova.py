"""Sidecar contracts for teneva/anova.py (C13): the rank-r "sum of univariate terms" core pattern of ANOVA.cores_1."""
import z3
from ttvc.units import unit
from ttvc.symex import VOpt, VStr, VRec, VSeq, VArr, VFunc, VTuple, VRef, VList, VSym, NONE, Z
from ttvc import models as M, theory as T, vec as V, rnd as R
from contracts import spec as S

AXC = T.axioms('shape', 'centry')
IA = z3.ArraySort(z3.IntSort(), z3.IntSort())
RA = z3.ArraySort(z3.IntSort(), z3.RealSort())
RAA = z3.ArraySort(z3.IntSort(), RA)


@unit('anova.ANOVA.cores_1', props=('C13',))
def u_cores_1(U):
    """ANOVA.cores_1(r, noise): d cores of shape (1,n_0,r), (r,n_k,r), (r,n_{d-1},1) whose designated entries are exactly the
    pattern  [1, f1_0] / [[1, f1_k],[0... 1]] / [f1_{d-1}+f0, 1]^T  of the additive model and whose every other entry is
    noise * (a normal draw), hence 0 for noise = 0 - this is the representation whose chain evaluates to f0 + sum_k f1_k(i_k).
    The fitted tables (f0, f1) are not modified."""
    fn = U.func('anova', 'ANOVA.cores_1')
    st = U.state()
    d, r = z3.Int('d'), z3.Int('r')
    noise, f0 = z3.Real('noise'), z3.Real('f0')
    shapes, F1 = z3.Const('shapes', IA), z3.Const('f1', RAA)
    f1_arr = st.alloc(VSeq(F1, d, lambda t: V.RVec(z3.Int('len!f1'), t), tag='rvecs'))
    # the k-th table has one entry per observed index of mode k
    f1_seq = VSeq(F1, d, None, tag='rvecs')
    selfrec = st.alloc(VRec({'rand': R.VGen('seed'), 'shapes': VArr((d,), shapes, 'ivec', 'i'), 'f1_arr': None, 'f0': f0, 'd': d}))
    t = z3.Int('t!a')

    class F1Seq(VSeq):
        pass
    f1ref = st.alloc(VSeq(F1, d, None, tag='rvecs'))
    st.heap[f1ref.oid].wrap = lambda tt: V.RVec(shapes[_index_of(tt)], tt)
    st.heap[selfrec.oid].fields['f1_arr'] = f1ref

    a_, m_, b_ = z3.Ints('a m b')

    def pattern(G, k):
        """entries of core k: designated slots, everything else is noise * draw (zero when noise = 0)"""
        e = T.centry(G, a_, m_, b_)
        first = z3.And(z3.Implies(z3.And(a_ == 0, b_ == 0), e == 1), z3.Implies(z3.And(a_ == 0, b_ == 1), e == F1[k][m_]))
        mid = z3.And(z3.Implies(z3.And(a_ == 0, b_ == 0), e == 1), z3.Implies(z3.And(a_ == 1, b_ == 1), e == 1),
                     z3.Implies(z3.And(a_ == 0, b_ == 1), e == F1[k][m_]))
        last = z3.And(z3.Implies(z3.And(a_ == 0, b_ == 0), e == F1[k][m_] + f0), z3.Implies(z3.And(a_ == 1, b_ == 0), e == 1))
        desig = z3.If(k == 0, z3.And(a_ == 0, b_ <= 1), z3.If(k == d - 1, z3.And(a_ <= 1, b_ == 0),
                                                              z3.Or(z3.And(a_ == 0, b_ <= 1), z3.And(a_ == 1, b_ == 1))))
        rng_ok = z3.And(0 <= a_, a_ < T.d0(G), 0 <= m_, m_ < T.d1(G), 0 <= b_, b_ < T.d2(G))
        return z3.Implies(rng_ok, z3.And(z3.If(k == 0, first, z3.If(k == d - 1, last, mid)),
                                         z3.Implies(z3.And(z3.Not(desig), noise == 0), e == 0)))

    def dims(G, k):
        return z3.And(T.d0(G) == z3.If(k == 0, 1, r), T.d1(G) == shapes[k], T.d2(G) == z3.If(k == d - 1, 1, r))

    def inv(ex, s, j):
        Cs = s.deref(s.vars['cores'])
        kq = z3.Int('k!q')
        return [('one-core-per-processed-mode', Cs.n == j + 1),
                ('shapes-so-far', z3.ForAll([kq], z3.Implies(z3.And(0 <= kq, kq <= j), dims(Cs.arr[kq], kq)), patterns=[Cs.arr[kq]])),
                ('pattern-so-far', z3.ForAll([kq, a_, m_, b_], z3.Implies(z3.And(0 <= kq, kq <= j), pattern(Cs.arr[kq], kq)),
                                             patterns=[T.centry(Cs.arr[kq], a_, m_, b_)]))]

    ex = U.executor(fn, loops={0: {'inv': inv}}, axioms=AXC, type_hints={'cores': 'tt'})
    ex.mode = 'ematch'
    st.vars.update(self=selfrec, r=r, noise=noise)
    pre = [d >= 3, r >= 2, noise >= 0, z3.ForAll([t], z3.Implies(z3.And(0 <= t, t < d), shapes[t] >= 1), patterns=[shapes[t]])]
    res = U.run(ex, st, pre=pre)
    U.cover('precondition-satisfiable', U.pre, axioms=AXC)
    kk = z3.Int('kk')
    for p, o in res:
        if o.kind != 'return':
            U.post('no-exception', p, False, axioms=AXC, mode='ematch')
            continue
        Cs = p.deref(o.value)
        U.post('d-cores', p, Cs.n == d, axioms=AXC, mode='ematch')
        U.post('core-shapes-(1,n,r)-(r,n,r)-(r,n,1)', p, z3.Implies(z3.And(0 <= kk, kk < d), dims(Cs.arr[kk], kk)), axioms=AXC, mode='ematch')
        U.post('designated-entries-are-the-additive-model-pattern-and-the-rest-is-noise', p,
               z3.Implies(z3.And(0 <= kk, kk < d), pattern(Cs.arr[kk], kk)), axioms=AXC, mode='ematch')
        U.post('fitted-tables-untouched', p, z3.BoolVal(p.heap[f1ref.oid].arr is F1 and p.heap[selfrec.oid].fields['f0'] is f0))
        U.canary('canary-all-entries-zero', p, z3.Implies(z3.And(0 <= kk, kk < d, 0 <= m_, m_ < shapes[kk]), T.centry(Cs.arr[kk], 0, m_, 0) == 0),
                 axioms=AXC)


def _index_of(term):
    """index k of the select term F1[k]"""
    return term.arg(1)


# ----------------------------------------------------------------------------------------------
# order-2 tables: one table per unordered pair of modes, stored in the order (0,1), (0,2), .., (0,d-1), (1,2), .. .
# `pair_num_to_num` (used by calc_2 / sample) and the running counter of cores_2 (and of build_2, same nested loops) must agree:
#     2 * number(i1, i2) = i1 * (2d - 3 - i1) + 2 * (i2 - 1)        for 0 <= i1 < i2 < d

def pair_number_twice(d, i1, i2):
    return i1 * (2 * d - 3 - i1) + 2 * (i2 - 1)


@unit('anova.ANOVA.pair_num_to_num', props=('C13',))
def u_pair_num(U):
    fn = U.func('anova', 'ANOVA.pair_num_to_num')
    ex = U.executor(fn)
    ex.asserts = True               # `assert x1 != x2` is part of the contract here
    ex.nl_exact = True              # products of two symbolic integers stay exact (polynomial identity, discharged quantifier-free)
    st = U.state()
    d, x1, x2 = z3.Ints('d x1 x2')
    selfrec = st.alloc(VRec({'d': d}))
    st.vars.update(self=selfrec, x1=x1, x2=x2)
    res = U.run(ex, st, pre=[d >= 2, 0 <= x1, x1 < d, 0 <= x2, x2 < d])
    U.cover('precondition-satisfiable', U.pre)
    lo, hi = z3.If(x1 < x2, x1, x2), z3.If(x1 < x2, x2, x1)
    for p, o in res:
        if o.kind == 'raise':
            U.raise_iff('rejects-only-equal-modes', p, x1 == x2)
            continue
        U.raise_iff('accepts-only-different-modes', p, x1 != x2)
        ok = M.is_num(o.value) and M.is_intsort(Z(o.value))
        U.post('returns-an-integer', p, z3.BoolVal(ok))
        if ok:
            v = Z(o.value)
            # x1 (2d - 3 - x1) is even: case split on the parity of the smaller mode number (h = lo div 2), so that the floor
            # division by 2 is exact; the split itself is the first obligation
            h = z3.Int('h!half')
            U.post('parity-split-is-exhaustive', list(p.pc) + [h == lo / 2], z3.Or(lo == 2 * h, lo == 2 * h + 1), qf=True)
            for par in (0, 1):
                U.post(f'position-of-the-unordered-pair-in-the-lexicographic-enumeration[{"odd" if par else "even"}-first-mode]',
                       list(p.pc) + [lo == 2 * h + par], 2 * v == pair_number_twice(d, lo, hi), qf=True)
            U.post('within-the-number-of-pairs', list(p.pc), z3.And(v >= 0, 2 * v < d * (d - 1)), qf=True)
    U.canary('canary-always-rejects', U.pre, x1 == x2)


TCODE = z3.Function('tcode', z3.IntSort(), z3.IntSort())        # which fitted table a reshaped matrix came from


def _cores_2_unit(U, only_near):
    """cores_2(r, only_near): the k-th table handed to _second_order_2_tt is paired with the modes (i1, i2) it was fitted for,
    i.e. it is the table stored at position pair_num_to_num(i1, i2) (unit anova.ANOVA.pair_num_to_num), and it is reshaped to
    (n_i1, n_i2).  Contents of the tables and of _second_order_2_tt are left to the bounded suite."""
    fn = U.func('anova', 'ANOVA.cores_2')
    st = U.state()
    d, r = z3.Int('d'), z3.Int('r')
    shapes = z3.Const('shapes', IA)
    F2 = z3.Const('f2', IA)                                               # f2_arr[k] is the table with code F2[k]
    f2ref = st.alloc(VSeq(F2, z3.Int('npairs'), lambda t: _Table((M.OROWS(t),), None, None, 'f', code=t), tag='tables'))
    selfrec = st.alloc(VRec({'shapes': VArr((d,), shapes, 'ivec', 'i'), 'f2_arr': f2ref, 'd': d}))
    used_pairs = []

    def mats_kind(ex, s):
        seq = VSeq(ex.fresh('mats', IA), z3.IntVal(0), lambda t: _Table((M.OROWS(t), M.OCOLS(t)), None, None, 'f', code=TCODE(t)), tag='mats')

        def unwrap(ex_, s_, v, node):
            v = s_.deref(v)
            if not (isinstance(v, _Table) and v.ndim == 2):
                raise M.ContractMismatch('cores_2(): what is appended to mats is not a reshaped order-2 table')
            c = ex_.fresh_int('mat')
            s_.assume(TCODE(c) == v.code, M.OROWS(c) == Z(v.shape[0]), M.OCOLS(c) == Z(v.shape[1]))
            return c
        seq.unwrap = unwrap
        return s.alloc(seq)

    def cores_kind(ex, s):
        seq = VSeq(ex.fresh('c2', IA), z3.IntVal(0), lambda t: M.VOpaque('tt'), tag='tts')
        seq.unwrap = lambda ex_, s_, v, node: ex_.fresh_int('tt')
        return s.alloc(seq)

    def c_second(ex, s, a, kw, node):
        mat, i1, i2 = s.deref(a[0]), Z(ex.need_num(s, a[1], node)), Z(ex.need_num(s, a[2], node))
        if not isinstance(mat, _Table) or mat.ndim != 2:
            raise M.ContractMismatch('cores_2(): the matrix handed to _second_order_2_tt is not a reshaped order-2 table')
        ex.oblige(s, 'call-pre', '_second_order_2_tt: modes in range and ordered', z3.And(0 <= i1, i1 < i2, i2 < d), node)
        ex.oblige(s, 'call-pre', '_second_order_2_tt: one row per index of the first mode, one column per index of the second',
                  z3.And(Z(mat.shape[0]) == shapes[i1], Z(mat.shape[1]) == shapes[i2]), node)
        want = ex.fresh_int('pos')
        s.assume(2 * want == pair_number_twice(d, i1, i2))                 # definition of the storage position of the pair
        ex.oblige(s, 'post', 'table-is-the-one-fitted-for-this-pair-of-modes', mat.code == F2[want], node, assume=False)
        used_pairs.append((i1, i2))
        return s.alloc(VSeq(ex.fresh('C2', T.TT), d, M.mk_core, 'core'))

    ms, ks = z3.Int('m!q'), z3.Int('k!q')
    # the enumeration of the pairs (i1 < i2) in storage order, defined by its successor rule (a recursive definition over the
    # position; the multi-pattern mentions both positions, so instantiation creates no new terms)
    E1, E2 = z3.Function('pair_first', z3.IntSort(), z3.IntSort()), z3.Function('pair_second', z3.IntSort(), z3.IntSort())
    ENUM = [E1(0) == 0, E2(0) == 1,
            z3.ForAll([ms, ks], z3.Implies(z3.And(ms >= 0, ks == ms + 1),
                                           z3.And(E1(ks) == z3.If(E2(ms) + 1 < d, E1(ms), E1(ms) + 1),
                                                  E2(ks) == z3.If(E2(ms) + 1 < d, E2(ms) + 1, E1(ms) + 2))),
                      patterns=[z3.MultiPattern(E1(ms), E1(ks)), z3.MultiPattern(E2(ms), E2(ks)), z3.MultiPattern(E1(ms), E2(ks)),
                                z3.MultiPattern(E2(ms), E1(ks))])]

    def mats_facts(s, upto):
        """mats[m] for m < upto is the table stored at position m, reshaped to the mode sizes of the m-th pair."""
        mseq = s.deref(s.vars['mats'])
        return [('one-matrix-per-processed-pair', mseq.n == upto),
                ('matrix-m-is-table-m', z3.ForAll([ms], z3.Implies(z3.And(0 <= ms, ms < upto), TCODE(mseq.arr[ms]) == F2[ms]), patterns=[mseq.arr[ms]])),
                ('matrix-m-has-the-mode-sizes-of-the-m-th-pair',
                 z3.ForAll([ms], z3.Implies(z3.And(0 <= ms, ms < upto),
                                            z3.And(M.OROWS(mseq.arr[ms]) == shapes[E1(ms)], M.OCOLS(mseq.arr[ms]) == shapes[E2(ms)])),
                           patterns=[mseq.arr[ms]]))]

    def inv_outer(first):
        def f(ex, s, j):                  # j = i1: all pairs with a smaller first mode are done
            num = Z(s.vars['num'])
            out = [('counter-is-the-number-of-pairs-with-smaller-first-mode', 2 * num == j * (2 * d - 1 - j)), ('counter-non-negative', num >= 0),
                   ('next-pair-in-storage-order-is-(i1,i1+1)', z3.And(E1(num) == j, E2(num) == j + 1))]
            out += mats_facts(s, num) if first else [(l + '(kept)', g) for l, g in mats_facts(s, s.deref(s.vars['mats']).n)][1:]
            if not first:
                out.append(('all-matrices-built', 2 * s.deref(s.vars['mats']).n == d * (d - 1)))
            return out
        return f

    def inv_inner(first):
        def f(ex, s, j):                  # i2 = i1 + 1 + j
            num, i1 = Z(s.vars['num']), Z(s.vars['i1'])
            nxt = z3.If(i1 + 1 + j < d, z3.And(E1(num) == i1, E2(num) == i1 + 1 + j), z3.And(E1(num) == i1 + 1, E2(num) == i1 + 2))
            out = [('counter-is-the-position-of-the-current-pair', 2 * num == i1 * (2 * d - 1 - i1) + 2 * j), ('first-mode-in-range', z3.And(0 <= i1, i1 < d - 1)),
                   ('counter-non-negative', num >= 0), ('current-pair-is-the-one-at-the-counter-position', nxt)]
            out += mats_facts(s, num) if first else [(l + '(kept)', g) for l, g in mats_facts(s, s.deref(s.vars['mats']).n)][1:]
            if not first:
                out.append(('all-matrices-built', 2 * s.deref(s.vars['mats']).n == d * (d - 1)))
            return out
        return f

    loops = {0: {'inv': inv_outer(True)}, 1: {'inv': inv_inner(True)}, 2: {'inv': inv_outer(False)}, 3: {'inv': inv_inner(False)}}
    ex = U.executor(fn, loops=loops, callees={'anova._second_order_2_tt': c_second}, axioms=ENUM, type_hints={'mats': mats_kind, 'cores': cores_kind})
    ex.nl_exact = True
    st.vars.update(self=selfrec, r=r, only_near=only_near)
    t = z3.Int('t!c2')
    pre = [d >= 2, r >= 1, st.heap[f2ref.oid].n * 2 == d * (d - 1),
           z3.ForAll([t], z3.Implies(z3.And(0 <= t, t < d), shapes[t] >= 1), patterns=[shapes[t]])]
    res = U.run(ex, st, pre=pre)
    U.cover('precondition-satisfiable', U.pre)
    for p, o in res:
        if o.kind != 'return':
            U.post('no-exception', p, False)
    U.post('every-table-goes-through-_second_order_2_tt', U.pre, z3.BoolVal(len(used_pairs) >= 1))


class _Table(VArr):
    def __init__(self, shape, t=None, tag=None, dtype='f', note='', code=None):
        super().__init__(shape, t, tag, dtype, note)
        self.code = code


@unit('anova.ANOVA.cores_2.pairing', props=('C13',))
def u_cores_2(U):
    _cores_2_unit(U, False)


_orig_method = M.method


def _method(ex, st, recv, name, args, kwargs, node):
    r = st.deref(recv)
    if isinstance(r, _Table) and name == 'reshape':
        shp = st.deref(args[0]) if len(args) == 1 else VTuple(list(args))
        if isinstance(shp, (VTuple, VList)) and len(shp.items) == 2 and isinstance(kwargs.get('order', VStr('C')), VStr) \
                and kwargs.get('order', VStr('C')).concrete() == 'C':
            M.used('table.reshape((n1, n2), order="C") -> n1 x n2 matrix of the same table (row-major: entry [x1, x2] = table[x1 * n2 + x2])')
            return _Table((shp.items[0], shp.items[1]), None, None, 'f', code=r.code)
        raise M.Unsupported(f'reshape of an order-2 table at line {node.lineno}')
    return _orig_method(ex, st, recv, name, args, kwargs, node)


M.method = _method
