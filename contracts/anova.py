"""Sidecar contracts for teneva/anova.py (C13): the rank-r "sum of univariate terms" core pattern of ANOVA.cores_1."""
import z3
from ttvc.units import unit
from ttvc.symex import VOpt, VStr, VRec, VSeq, VArr, VFunc, VTuple, VRef, VList, VSym, NONE, Z
from ttvc import models as M, theory as T, vec as V, rnd as R
from contracts import spec as S

AXC = T.axioms('shape', 'centry')
IA = z3.ArraySort(z3.IntSort(), z3.IntSort())
RA = z3.ArraySort(z3.IntSort(), z3.RealSort())
RAA = z3.ArraySort(z3.IntSort(), RA)


@unit('anova.ANOVA.cores_1', props=('C13',))
def u_cores_1(U):
    """ANOVA.cores_1(r, noise): d cores of shape (1,n_0,r), (r,n_k,r), (r,n_{d-1},1) whose designated entries are exactly the
    pattern  [1, f1_0] / [[1, f1_k],[0... 1]] / [f1_{d-1}+f0, 1]^T  of the additive model and whose every other entry is
    noise * (a normal draw), hence 0 for noise = 0 - this is the representation whose chain evaluates to f0 + sum_k f1_k(i_k).
    The fitted tables (f0, f1) are not modified."""
    fn = U.func('anova', 'ANOVA.cores_1')
    st = U.state()
    d, r = z3.Int('d'), z3.Int('r')
    noise, f0 = z3.Real('noise'), z3.Real('f0')
    shapes, F1 = z3.Const('shapes', IA), z3.Const('f1', RAA)
    f1_arr = st.alloc(VSeq(F1, d, lambda t: V.RVec(z3.Int('len!f1'), t), tag='rvecs'))
    # the k-th table has one entry per observed index of mode k
    f1_seq = VSeq(F1, d, None, tag='rvecs')
    selfrec = st.alloc(VRec({'rand': R.VGen('seed'), 'shapes': VArr((d,), shapes, 'ivec', 'i'), 'f1_arr': None, 'f0': f0, 'd': d}))
    t = z3.Int('t!a')

    class F1Seq(VSeq):
        pass
    f1ref = st.alloc(VSeq(F1, d, None, tag='rvecs'))
    st.heap[f1ref.oid].wrap = lambda tt: V.RVec(shapes[_index_of(tt)], tt)
    st.heap[selfrec.oid].fields['f1_arr'] = f1ref

    a_, m_, b_ = z3.Ints('a m b')

    def pattern(G, k):
        """entries of core k: designated slots, everything else is noise * draw (zero when noise = 0)"""
        e = T.centry(G, a_, m_, b_)
        first = z3.And(z3.Implies(z3.And(a_ == 0, b_ == 0), e == 1), z3.Implies(z3.And(a_ == 0, b_ == 1), e == F1[k][m_]))
        mid = z3.And(z3.Implies(z3.And(a_ == 0, b_ == 0), e == 1), z3.Implies(z3.And(a_ == 1, b_ == 1), e == 1),
                     z3.Implies(z3.And(a_ == 0, b_ == 1), e == F1[k][m_]))
        last = z3.And(z3.Implies(z3.And(a_ == 0, b_ == 0), e == F1[k][m_] + f0), z3.Implies(z3.And(a_ == 1, b_ == 0), e == 1))
        desig = z3.If(k == 0, z3.And(a_ == 0, b_ <= 1), z3.If(k == d - 1, z3.And(a_ <= 1, b_ == 0),
                                                              z3.Or(z3.And(a_ == 0, b_ <= 1), z3.And(a_ == 1, b_ == 1))))
        rng_ok = z3.And(0 <= a_, a_ < T.d0(G), 0 <= m_, m_ < T.d1(G), 0 <= b_, b_ < T.d2(G))
        return z3.Implies(rng_ok, z3.And(z3.If(k == 0, first, z3.If(k == d - 1, last, mid)),
                                         z3.Implies(z3.And(z3.Not(desig), noise == 0), e == 0)))

    def dims(G, k):
        return z3.And(T.d0(G) == z3.If(k == 0, 1, r), T.d1(G) == shapes[k], T.d2(G) == z3.If(k == d - 1, 1, r))

    def inv(ex, s, j):
        Cs = s.deref(s.vars['cores'])
        kq = z3.Int('k!q')
        return [('one-core-per-processed-mode', Cs.n == j + 1),
                ('shapes-so-far', z3.ForAll([kq], z3.Implies(z3.And(0 <= kq, kq <= j), dims(Cs.arr[kq], kq)), patterns=[Cs.arr[kq]])),
                ('pattern-so-far', z3.ForAll([kq, a_, m_, b_], z3.Implies(z3.And(0 <= kq, kq <= j), pattern(Cs.arr[kq], kq)),
                                             patterns=[T.centry(Cs.arr[kq], a_, m_, b_)]))]

    ex = U.executor(fn, loops={0: {'inv': inv}}, axioms=AXC, type_hints={'cores': 'tt'})
    ex.mode = 'ematch'
    st.vars.update(self=selfrec, r=r, noise=noise)
    pre = [d >= 3, r >= 2, noise >= 0, z3.ForAll([t], z3.Implies(z3.And(0 <= t, t < d), shapes[t] >= 1), patterns=[shapes[t]])]
    res = U.run(ex, st, pre=pre)
    U.cover('precondition-satisfiable', U.pre, axioms=AXC)
    kk = z3.Int('kk')
    for p, o in res:
        if o.kind != 'return':
            U.post('no-exception', p, False, axioms=AXC, mode='ematch')
            continue
        Cs = p.deref(o.value)
        U.post('d-cores', p, Cs.n == d, axioms=AXC, mode='ematch')
        U.post('core-shapes-(1,n,r)-(r,n,r)-(r,n,1)', p, z3.Implies(z3.And(0 <= kk, kk < d), dims(Cs.arr[kk], kk)), axioms=AXC, mode='ematch')
        U.post('designated-entries-are-the-additive-model-pattern-and-the-rest-is-noise', p,
               z3.Implies(z3.And(0 <= kk, kk < d), pattern(Cs.arr[kk], kk)), axioms=AXC, mode='ematch')
        U.post('fitted-tables-untouched', p, z3.BoolVal(p.heap[f1ref.oid].arr is F1 and p.heap[selfrec.oid].fields['f0'] is f0))
        U.canary('canary-all-entries-zero', p, z3.Implies(z3.And(0 <= kk, kk < d, 0 <= m_, m_ < shapes[kk]), T.centry(Cs.arr[kk], 0, m_, 0) == 0),
                 axioms=AXC)


def _index_of(term):
    """index k of the select term F1[k]"""
    return term.arg(1)
