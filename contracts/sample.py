"""Sidecar contracts for teneva/sample.py (C14)."""
import z3
from ttvc.units import unit
from ttvc.symex import VOpt, VStr, VRec, VSeq, VArr, VFunc, VTuple, VRef, VList, VSym, NONE, Z
from ttvc import models as M, theory as T, rnd as R
from contracts import spec as S

IA = z3.ArraySort(z3.IntSort(), z3.IntSort())


@unit('sample.sample_lhs.counts', props=('C14', 'C20'))
def u_lhs(U):
    """C14: Latin-hypercube sampling uses every index of a mode either floor(m/n) or ceil(m/n) times; the result is an
    integer array of shape (m, d) inside the bounds; every draw goes through the seeded generator (C10)."""
    fn = U.func('sample', 'sample_lhs')
    st = U.state()
    d, m = z3.Ints('d m')
    narr = z3.Const('n', IA)
    n = VArr((d,), narr, 'ivec', 'i')
    v = z3.Int('v')

    def body_end(ex_, s, o, j):
        cols = s.ghost.get('columns', [])
        if len(cols) != 1:
            raise M.ContractMismatch('sample_lhs: one mode does not fill exactly one column (as seen by the store model of ttvc/rnd.py)')
        col, vec = cols[0]
        k = narr[j]
        fd = [q for (a, b, q) in s.ghost.get('floordiv', [])]
        ex_.oblige(s, 'post', 'mode-i-fills-column-i', col == j, None, assume=False)
        if len(fd) != 1:
            ex_.oblige(s, 'post', 'one-floor-division-m//n', False, None, assume=False)
            return
        q = fd[0]                              # q = floor(m / k) by the defining inequalities of //
        ex_.oblige(s, 'post', 'every-index-of-the-mode-is-used-floor(m/n)-or-ceil(m/n)-times',
                   z3.Implies(z3.And(0 <= v, v < k), z3.And(R.cnt(vec.t, v) >= q, R.cnt(vec.t, v) <= q + z3.If(m == k * q, 0, 1))),
                   None, assume=False)
        ex_.oblige(s, 'post', 'only-indices-inside-the-mode-bounds-are-used',
                   z3.Implies(z3.Or(v < 0, v >= k), R.cnt(vec.t, v) == 0), None, assume=False)

    def inv(ex_, s, j):
        I = s.vars['I']
        return [('result-shape', z3.And(Z(I.shape[0]) == m, Z(I.shape[1]) == d) if isinstance(I, VArr) and I.ndim == 2 else z3.BoolVal(False))]

    ex = U.executor(fn, loops={0: {'inv': inv, 'body_end': body_end}}, lenient=True)
    st.vars.update(n=n, m=m, seed=z3.Int('seed'))
    t = z3.Int('t')
    res = U.run(ex, st, pre=[d >= 1, m >= 1, z3.ForAll([t], z3.Implies(z3.And(0 <= t, t < d), narr[t] >= 1), patterns=[narr[t]])])
    U.cover('precondition-satisfiable', U.pre)
    for p, o in res:
        if o.kind != 'return':
            U.post('no-exception', p, False)
            continue
        I = p.deref(o.value)
        U.post('integer-array-of-shape-(m,d)', p,
               z3.And(Z(I.shape[0]) == m, Z(I.shape[1]) == d, z3.BoolVal(I.dtype == 'i')) if isinstance(I, VArr) and I.ndim == 2 else False)
