"""Strengthened T1 contracts whose statements depend on the LAYOUT of arrays (which entry goes where):

  func.func_diff_matrix.recursion.m{1,2,3}   (C12)  entry-level recursion of the Chebyshev differentiation matrices: a ROW scaling by
                                                    the previous diagonal (broadcasting along rows versus columns)
  core.core_tt_to_qtt.*                      (C17)  see part 2

The existing units of the two functions (contracts/func_more.py: func.func_diff_matrix.shapes.m*, contracts/qtt.py:
core.core_tt_to_qtt.shapes) stay as they are; the units here are ADDITIONAL cases for the same functions (model module ttvc/mx_layout.py).
"""
import z3
from ttvc.units import unit
from ttvc.symex import VOpt, VStr, VRec, VSeq, VArr, VFunc, VTuple, VRef, VList, NONE, Z
from ttvc import models as M, theory as T
from ttvc import mx_layout as X
from contracts import spec as S


# ----------------------------------------------------------------------------------------------
# 1. func.func_diff_matrix (kind='cheb'), ENTRY level, derivative orders m = 1, 2, 3
#
# Property C12: "the differentiation matrices return its exact derivatives at the nodes".  The mechanism named by the property is the
# recursion for the spectral differentiation matrices of order l = 1, 2, ... on the reference interval (Welfert 1997),
#       U_0 = I,
#       U_l[j, k] = l * Z[j, k] * ( C[j, k] * U_{l-1}[j, j]  -  U_{l-1}[j, k] )          for j != k,
#       U_l[j, j] = - sum_{k != j} U_l[j, k]                                              ("negative sum trick": constants have derivative 0),
# with Z[j, k] = 1 / (x_j - x_k) off the diagonal, Z[j, j] = 0, and C[j, k] = c_j / c_k the ratio of the barycentric weights; the l-th
# returned matrix is U_l * (2 / (b - a))^l.  The point of the recursion is that entry (j, k) is scaled by the DIAGONAL ENTRY OF ITS ROW j.
#
# Covered (for all a < b, all n >= 2, entrywise for ALL 0 <= j, k < n):  the three clauses above for the matrices the function returns, where
# Z and C are the two n x n arrays the code has built before the loop (their entries stay abstract: f_Z(j, k), f_C(j, k); Z has the zero
# diagonal the code stores into it), and "sum" is the abstract row sum of the model (np.sum(A, axis=1) paired with its summand A: the
# clause proved is "the diagonal is minus the row sum (axis 1) of the matrix whose entries are l Z (C U_{l-1}[j, j] - U_{l-1}[j, k])", whose
# own diagonal is 0).  NOT covered: the entries of Z and C themselves (node differences via the sine product formula with the flipping
# trick, the Toeplitz sign pattern with halved / doubled borders) and therefore exactness on polynomials as such - bounded suite C12;
# kind='sin'; symbolic m.

def _diff_rec_unit(U, m):
    fn = U.func('func', 'func_diff_matrix')
    ex = U.executor(fn, callees=dict(X.ENTRY_CALLEES))
    ex.functt = True
    ex.functt_shapes = True              # everything before the loop runs in the shape tier of ttvc/mx_func.py
    ex.layout_ent = True
    ex.layout_abstract = {'Z', 'C'}
    st = U.state()
    a, b = z3.Reals('a b')
    n = z3.Int('n')
    st.vars.update(a=a, b=b, n=n, m=m, kind=VStr('cheb'))
    res = U.run(ex, st, pre=[a < b, n >= 2])
    U.cover('precondition-satisfiable', U.pre)
    j, k = z3.Ints('j k')
    for p, o in res:
        if o.kind != 'return':
            U.post('no-exception', p, False)
            continue
        R = p.deref(o.value)
        mats = [R] if m == 1 else ([p.deref(x) for x in R.items] if isinstance(R, VList) else None)
        # Z / C as the code left them: entry-level if the code stored into / combined them at entry level, else "some n x n array"
        Zm, Cm = [v if isinstance(v, X.EArr) else (X.abstract_entries(ex, v, nm) if isinstance(v, VArr) and v.ndim == 2 and v.t is None else None)
                  for nm, v in (('Z', p.vars.get('Z')), ('C', p.vars.get('C')))]
        if mats is None or len(mats) != m or not all(X.is_e(x, 2) and getattr(x, 'scaled_by', None) is not None for x in mats) \
                or not X.is_e(Zm, 2) or not X.is_e(Cm, 2):
            raise M.ContractMismatch('func_diff_matrix: the returned matrices / Z / C do not have the entry-level form of the contract '
                                     '(<reference matrix> * <number>, Z with a stored diagonal, C used in the recursion)')
        sums = p.ghost.get('esums', [])
        if len(sums) != m:
            raise M.ContractMismatch('func_diff_matrix: expected one np.sum per derivative order')
        hyp = [h for h in p.pc]
        rng = [0 <= j, j < n, 0 <= k, k < n]
        U.post('Z-has-a-zero-diagonal', hyp + rng, Zm.ent(j, j) == 0, qf=True)
        prev = lambda r, c: z3.If(r == c, z3.RealVal(1), z3.RealVal(0))       # U_0 = I
        for l in range(1, m + 1):
            Ul, sc = mats[l - 1].scaled_by
            if not X.is_e(Ul, 2):
                raise M.ContractMismatch('func_diff_matrix: the unscaled matrix has no entry-level denotation')
            rec = lambda r, c, prev=prev, l=l: l * Zm.ent(r, c) * (Cm.ent(r, c) * prev(r, r) - prev(r, c))
            U.post(f'order-{l}: off-diagonal-entry-(j,k)-is-l*Z[j,k]*(C[j,k]*U_prev[j,j]-U_prev[j,k]) (row scaling by the previous DIAGONAL ENTRY OF ROW j)',
                   hyp + rng + [j != k], Ul.ent(j, k) == rec(j, k), qf=True)
            s = sums[l - 1]
            summand = (lambda r, c, s=s: s['A'].ent(r, c)) if s['axis'] == 1 else (lambda r, c, s=s: s['A'].ent(c, r))     # fn(r) = sum_c summand(r, c)
            U.post(f'order-{l}: diagonal-is-minus-the-ROW-sum-of-the-off-diagonal-part',
                   hyp + rng, z3.And(Ul.ent(j, j) == -s['fn'](j), summand(j, k) == rec(j, k), summand(j, j) == 0), qf=True)
            U.post(f'order-{l}: returned-matrix-is-the-reference-matrix-times-one-number', hyp + rng, mats[l - 1].ent(j, k) == Ul.ent(j, k) * sc, qf=True)
            U.canary(f'canary-order-{l}-off-diagonal-entries-vanish', hyp + rng + [j != k], Ul.ent(j, k) == 0, qf=True)
            if l >= 2:
                U.canary(f'canary-order-{l}-COLUMN-scaling (previous diagonal entry of column k)', hyp + rng + [j != k],
                         Ul.ent(j, k) == l * Zm.ent(j, k) * (Cm.ent(j, k) * prev(k, k) - prev(j, k)), qf=True)
            prev = (lambda r, c, Ul=Ul: Ul.ent(r, c))
        if m >= 2:
            U.post('every-order-continues-from-the-UNSCALED-matrix-of-the-previous-order', p,
                   z3.BoolVal(len({id(x.scaled_by[0]) for x in mats}) == m))


for _m in (1, 2, 3):
    def _mk_rec(m=_m):
        @unit(f'func.func_diff_matrix.recursion.m{m}', props=('C12',))
        def u(U):
            _diff_rec_unit(U, m)
    _mk_rec()


# ----------------------------------------------------------------------------------------------
# 2. core.core_tt_to_qtt, VALUE level (C17): "the entry of the QTT-tensor at the binary expansion of a multi-index equals the entry
#    of the original tensor at that multi-index", per TT-core and as a statement about mode slices:
#
#        for every digit string a in {0,1}^q:     G[:, sum_b a[b] 2^b, :]  =  Q_0[:, a[0], :] @ Q_1[:, a[1], :] @ ... @ Q_{q-1}[:, a[q-1], :]
#
#    for G of shape (r1, 2^q, r2) and [Q_0, .., Q_{q-1}] = core_tt_to_qtt(G, e, r), for ALL q >= 1, r1, r2 >= 1, e >= 0, r >= 0 - in the
#    case where every truncated factorisation performed during the call is EXACT (U @ V = A: no singular value is discarded).  The
#    accuracy clause for discarded singular values is left to the bounded suite (the contract of matrix_svd says nothing about U @ V).
#    The exactness hypothesis is the ghost Boolean EXACT: the call-site contract of matrix_svd used here adds  EXACT -> U @ V = A  to
#    the proved contract of svd.matrix_svd (a definition of the ghost, never an inconsistency: EXACT = False satisfies it) and every
#    statement below reads  EXACT -> ...
#
#    How it is proved.  The loop peels the HIGHEST remaining digit off the row index of the left factor: with B_l the left factor that
#    still carries the l lowest digits (r1 * 2^l rows, row index a + r1*(low digits); ghost sequence BB, B_q = first left factor),
#        halving step (loop invariant, by e-matching over the layout theory of ttvc/mx_layout.py):
#            upper / lower half of B_l   =   B_{l-1} @ (slice 0 / 1 of the core made in that step)          [hstack + C-order fold of V]
#        last core:    row block s (rows a + r1*s) of B_1 = slice s of the last core                         [FORTRAN-order fold of B_1]
#        first step:   row block i of unfL(G) = G[:, i, :], unfL(G) = B_q @ V0, V0 is multiplied into the core of the highest digit
#    and then, for the list that is returned (reversed), by induction on l:  row block (value of the l lowest digits) of B_l =
#    Q_0[a_0] @ .. @ Q_{l-1}[a_{l-1}]  (lemma C below; lemma B bounds the value of the digits; one instance of "a row block of a row
#    block" per step).  NOT covered: e > 0 / a binding rank cap (inexact factorisations); q = 0.

from ttvc import mx_core as XC
from ttvc import mx_qtt as XQ
from contracts.qtt import lemma_log2_of_pow2, log2_int
from contracts.svd import call_matrix_svd

EXACT = z3.Bool('EXACT')
MS = z3.ArraySort(z3.IntSort(), T.Mat)
AXV = T.axioms('shape', 'mulI', 'pow2', 'mulpow2', 'sub', 'unfold', 'layout')
AXL = T.axioms('shape', 'mulI', 'pow2', 'unfold', 'pval', 'chain2')
l_ = z3.Int('l!v')


def call_svd_exact(ex, st, args, kwargs, node):
    """matrix_svd(A, e, r): the contract proved by svd.matrix_svd (shapes, rank bounds) plus the DEFINITION of the ghost EXACT
    (if EXACT then this factorisation is exact: U @ V = A)."""
    A = st.deref(args[0])
    out = call_matrix_svd(ex, st, args, kwargs, node)
    Um, Vm = [st.deref(x) for x in out.items]
    if not (X.is_mat(A) and X.is_mat(Um) and X.is_mat(Vm)):
        raise M.ContractMismatch('core_tt_to_qtt: matrix_svd is called on a value without a matrix denotation')
    st.assume(z3.Implies(EXACT, T.mm(Um.t, Vm.t) == A.t))
    return out


def call_einsum_rec(ex, st, args, kwargs, node):
    """np.einsum as in the model table; the operands of the core-times-matrix pattern are remembered (proof hint)."""
    out = M.FUNCS['np.einsum'](ex, st, args, kwargs, node)
    ops = [st.deref(x) for x in args[1:]]
    if len(ops) == 2 and X.is_core(ops[0]) and X.is_mat(ops[1]) and X.is_core(out):
        st.ghost['lay_einsum'] = st.ghost.get('lay_einsum', []) + [(ops[0].t, ops[1].t)]
    return out


def _upd(ex, st, arr, idx, val):
    """The ghost sequence `arr` with element idx replaced by val: a fresh constant with its pointwise definition (e-matching sees the
    elements of the old sequence; a Store term would hide them inside the array theory)."""
    new = ex.fresh('BB', MS)
    st.assume(z3.ForAll([l_], new[l_] == z3.If(l_ == idx, val, arr[l_]), patterns=[new[l_]]))
    return new


def _rel(BB, core, l, half):
    """Halving step at level l: the two halves of B_l are B_{l-1} times the two slices of the core of digit l-1."""
    return z3.Implies(EXACT, z3.And([T.rowblk(BB[l], s, half(l)) == T.mm(BB[l - 1], T.sl(core, s)) for s in (0, 1)]))


@unit('core.core_tt_to_qtt.values', props=('C17',))
def u_tt_to_qtt_values(U):
    fn = U.func('core', 'core_tt_to_qtt')
    q0 = z3.Int('q')
    Gv, G = S.core_param('G')
    e, r = z3.Real('e'), z3.Real('r')
    r1, n, r2 = T.d0(G), T.d1(G), T.d2(G)
    st = U.state()
    half = lambda l: T.mul_canon(r1, T.pow2(l - 1))
    BB0 = z3.Const('BB!free', MS)

    def inv(ex, s, j):
        A, V0, Yr = s.vars.get('A'), s.vars.get('V0'), s.vars.get('Y')
        Ys = s.deref(Yr) if isinstance(Yr, VRef) else None
        if not (X.is_mat(A) and X.is_mat(V0) and isinstance(Ys, VSeq) and Ys.tag == 'core' and getattr(Ys, 'unwrap', None) is not None):
            raise M.ContractMismatch('core_tt_to_qtt: A / V0 / Y no longer have the (denoted) types of the contract')
        if 'BB' not in s.ghost:                       # loop entry: the ghost sequence starts with the first left factor at level q
            s.assume(BB0[q0] == A.t)                  # (definition of a fresh ghost symbol; its other elements are arbitrary)
            s.ghost['BB'] = BB0
        BB, Y, lev, c = s.ghost['BB'], Ys.arr, q0 - j, Z(A.shape[1])
        return [('length', Ys.n == j),
                ('current-left-factor-is-B_level', A.t == BB[lev]),
                ('rows-of-A-halve', Z(A.shape[0]) == 2 * half(lev)),
                ('bond-positive', c >= 1),
                ('bond-is-the-left-rank-of-the-last-core', z3.If(j == 0, c == Z(V0.shape[0]), z3.And(T.d0(Y[j - 1]) == c, T.d2(Y[0]) == Z(V0.shape[0])))),
                ('first-left-factor-times-V0-is-the-Fortran-unfolding-of-G', z3.And(z3.Implies(EXACT, T.mm(BB[q0], V0.t) == T.unfL(G)),
                                                                                   T.cols(BB[q0]) == Z(V0.shape[0]))),
                ('halving-steps-so-far: the halves of B_l are B_(l-1) times the two slices of the core of digit l-1',
                 z3.ForAll([l_], z3.Implies(z3.And(lev < l_, l_ <= q0), _rel(BB, Y[q0 - l_], l_, half)), patterns=[BB[l_]])),
                ('bonds-so-far: the factor with l digits has as many columns as the core of digit l has rows',
                 z3.ForAll([l_], z3.Implies(z3.And(lev <= l_, l_ < q0), T.cols(BB[l_]) == T.d0(Y[q0 - l_ - 1])), patterns=[BB[l_]]))]

    def hook(ex, h, pre, j):
        h.ghost['BB'] = ex.fresh('BB', MS)

    def body_end(ex_, s_, o_, j_):
        A = s_.vars.get('A')
        if o_.kind in ('normal', 'continue') and X.is_mat(A):
            s_.ghost['BB'] = _upd(ex_, s_, s_.ghost['BB'], q0 - j_ - 1, A.t)

    ex = U.executor(fn, loops={0: {'inv': inv, 'havoc_hook': hook, 'body_end': body_end}}, axioms=AXV, type_hints={'Y': X.strict_cores('Y')},
                    callees={'svd.matrix_svd': call_svd_exact, 'utils._reshape': X.lay_reshape, 'np.einsum': call_einsum_rec})
    ex.qtt = True                      # list reversal and the core-times-matrix einsum of ttvc/mx_qtt.py
    ex.layout = True
    ex.mode = 'ematch'
    st.vars.update(G=Gv, e=e, r=r)
    lem = lemma_log2_of_pow2(U, n, q0)
    res = U.run(ex, st, pre=[r1 >= 1, r2 >= 1, q0 >= 1, n == T.pow2(q0), e >= 0, r >= 0, lem])
    U.cover('precondition-satisfiable', U.pre, axioms=AXV)
    a = z3.Const('a', T.IDX)
    b_, m_ = z3.Ints('b!v m!v')
    for p, o in res:
        if o.kind != 'return':
            U.post('no-exception', p, False, axioms=AXV, mode='ematch')
            continue
        if not z3.eq(Z(p.vars['d']), log2_int(n)):
            raise M.ContractMismatch('core_tt_to_qtt: d is no longer int(np.log2(n))')
        Rs = p.deref(o.value)
        ein = p.ghost.get('lay_einsum', [])
        if not (isinstance(Rs, VSeq) and Rs.tag == 'core') or 'BB' not in p.ghost or len(ein) > 1:
            raise M.ContractMismatch('core_tt_to_qtt: the result is not a list of denoted cores / more than one core-times-matrix product')
        Q, BB = Rs.arr, p.ghost['BB']
        BBf = z3.Const('BBf', MS)                 # B_1 .. B_{q-1} as recorded, B_q := unfL(G) (= first left factor times V0)
        hyp = list(p.pc) + [z3.ForAll([l_], BBf[l_] == z3.If(l_ == q0, T.unfL(G), BB[l_]), patterns=[BBf[l_]])]
        U.post('q-cores', hyp, Rs.n == q0, axioms=AXV, mode='ematch')
        F2 = z3.And([T.rowblk(BBf[1], s, r1) == T.sl(Q[0], s) for s in (0, 1)])
        F3 = z3.ForAll([l_], z3.Implies(z3.And(2 <= l_, l_ <= q0),
                                        z3.And([T.rowblk(BBf[l_], s, half(l_)) == T.mm(BBf[l_ - 1], T.sl(Q[l_ - 1], s)) for s in (0, 1)])), patterns=[BBf[l_]])
        F5 = z3.ForAll([l_], z3.Implies(z3.And(1 <= l_, l_ < q0), T.cols(BBf[l_]) == T.d0(Q[l_])), patterns=[BBf[l_]])
        F4 = BBf[q0] == T.unfL(G)
        hints = [XC.assoc(BB[q0 - 1], T.sl(Yold0, s), V0t) for (Yold0, V0t) in ein for s in (0, 1)]
        U.post('lowest-digit: row block s (rows a + r1*s) of the last left factor is slice s of the FIRST returned core (Fortran-order fold)',
               hyp + [EXACT], F2, axioms=AXV, mode='ematch')
        U.post('digit l-1: the halves of the factor with l digits are the factor with l-1 digits times the slices of returned core l-1 (2 <= l <= q)',
               hyp + [EXACT], F3, axioms=AXV, mode='ematch', extra=hints)
        U.post('bonds: the factor with l digits has as many columns as returned core l has rows (1 <= l < q)', hyp, F5, axioms=AXV, mode='ematch')
        U.post('level q: row block i of the Fortran unfolding of G is the mode slice G[:, i, :]', hyp, F4, axioms=AXV, mode='ematch')
        U.lemmas.append('associativity of the matrix product (instances given as hints; lemmas/TTAlg.lean ax_assoc, spot-checked as group mmassoc)')
        # ---- the induction over the digits, in the minimal context of the facts proved above
        binary = z3.ForAll([b_], z3.Implies(z3.And(0 <= b_, b_ < q0), z3.Or(a[b_] == 0, a[b_] == 1)), patterns=[a[b_]])
        ctx = [q0 >= 1, r1 >= 1, n == T.pow2(q0), binary, F2, F3, F4, F5]
        Pb = lambda t: z3.And(0 <= X.pval(a, t), X.pval(a, t) < T.pow2(t))
        U.lemma('B: 0 <= value of the m lowest digits < 2^m.base', ctx, Pb(z3.IntVal(0)), axioms=AXL, mode='ematch', kind='lemma-base')
        U.lemma('B: 0 <= value of the m lowest digits < 2^m.step', ctx + [0 <= m_, m_ < q0, Pb(m_)], Pb(m_ + 1), axioms=AXL, mode='ematch', kind='lemma-step')
        LB = z3.ForAll([m_], z3.Implies(z3.And(0 <= m_, m_ <= q0), Pb(m_)), patterns=[X.pval(a, m_)])
        Pc = lambda l: T.rowblk(BBf[l], X.pval(a, l), r1) == T.chain(Q, a, l - 1)
        U.lemma('C: row block (value of the l lowest digits) of the factor with l digits = Q_0[a_0] @ .. @ Q_(l-1)[a_(l-1)].base', ctx, Pc(z3.IntVal(1)),
                axioms=AXL, mode='ematch', kind='lemma-base', extra=[X.pval(a, 0) == 0])
        step_hints = [X.rowblk2(BBf[m_ + 1], t, X.pval(a, m_), T.pow2(m_), r1, half(m_ + 1)) for t in (0, 1)]
        U.lemma('C: row block (value of the l lowest digits) of the factor with l digits = Q_0[a_0] @ .. @ Q_(l-1)[a_(l-1)].step',
                ctx + [1 <= m_, m_ < q0, Pc(m_), LB], Pc(m_ + 1), axioms=AXL, mode='ematch', kind='lemma-step', extra=step_hints)
        LC = z3.ForAll([m_], z3.Implies(z3.And(1 <= m_, m_ <= q0), Pc(m_)), patterns=[X.pval(a, m_)])
        U.lemmas.append('a row block of a row block is a row block (instances given as hints; spot-checked as group rowblk2)')
        U.post('entry-at-the-binary-expansion: G[:, sum_b a_b 2^b, :] = Q_0[:, a_0, :] @ ... @ Q_(q-1)[:, a_(q-1), :] for all digit strings a (exact factorisations)',
               ctx + [LB, LC], T.sl(G, X.pval(a, q0)) == T.chain(Q, a, q0 - 1), axioms=AXL, mode='ematch')
        # ---- the same index in the vocabulary of the index maps: grid.ind_qtt_to_tt returns hval(digits, 0, q) (Horner form, contracts/qtt.py);
        # for binary digits hval(a, 0, m) = pval(a, m) (the lemma pair C1 / C2 of grid.ind_maps.round_trip, with pval as the sum)
        hval = XQ.hval
        AXH = T.axioms('pow2', 'hval', 'pval')
        k_, n_ = z3.Ints('k!v n!v')
        ctxh = [binary, 0 <= n_, n_ < q0]
        Hh = lambda t: hval(a, t, n_ + 1) == hval(a, t, n_) + z3.If(a[n_] == 1, T.pow2(n_ - t), 0)
        U.lemma('H1: one more digit adds digit*2^(n-k) to the Horner value from k on.base', ctxh, Hh(n_), axioms=AXH, mode='ematch', kind='lemma-base',
                extra=[hval(a, n_ + 1, n_ + 1) == 0])
        U.lemma('H1: one more digit adds digit*2^(n-k) to the Horner value from k on.step', ctxh + [0 <= k_, k_ < n_, Hh(k_ + 1)], Hh(k_), axioms=AXH,
                mode='ematch', kind='lemma-step')
        U.lemma('H2: Horner value of the m lowest digits = sum_b a_b 2^b.base', [binary], X.pval(a, 0) == hval(a, 0, 0), axioms=AXH, mode='ematch', kind='lemma-base')
        U.lemma('H2: Horner value of the m lowest digits = sum_b a_b 2^b.step', ctxh + [Hh(z3.IntVal(0)), X.pval(a, n_) == hval(a, 0, n_)],
                X.pval(a, n_ + 1) == hval(a, 0, n_ + 1), axioms=AXH, mode='ematch', kind='lemma-step')
        U.post('entry-at-the-binary-expansion, index written as in the contract of ind_qtt_to_tt: G[:, hval(a, 0, q), :] = Q_0[:, a_0, :] @ ... @ Q_(q-1)[:, a_(q-1), :]',
               ctx + [z3.ForAll([m_], z3.Implies(z3.And(0 <= m_, m_ <= q0), X.pval(a, m_) == hval(a, 0, m_)), patterns=[X.pval(a, m_)]),
                      T.sl(G, X.pval(a, q0)) == T.chain(Q, a, q0 - 1)],
               T.sl(G, hval(a, 0, q0)) == T.chain(Q, a, q0 - 1), axioms=AXL, mode='ematch')
        U.canary('canary-Horner-lemma-context-is-contradictory', ctxh + [Hh(z3.IntVal(0)), X.pval(a, n_) == hval(a, 0, n_), n_ >= 1], False, axioms=AXH)
        U.canary('canary-exactness-hypothesis-is-contradictory', hyp + [EXACT], False, axioms=AXV)
        U.canary('canary-induction-context-is-contradictory', ctx + [LB, LC, q0 >= 2], False, axioms=AXL)
        U.canary('canary-every-digit-string-gives-slice-0', ctx + [LB, LC], T.sl(G, 0) == T.chain(Q, a, q0 - 1), axioms=AXL)


# ----------------------------------------------------------------------------------------------
# Seeded changes (seeded/<id>/patch.diff applied to a scratch copy of /tmp/base) and hand-made mutants
# (MUT_BASE=/tmp/base tools/mut.sh <file> '<sed>' <unit>) with the NAMED obligation that reports each.
#
# func.py / func.func_diff_matrix.recursion.m{1,2,3}            (line 109: D = (i+1) * Z * (C * np.tile(np.diag(D), (n, 1)).T - D))
#   seeded C12-6  (np.tile(np.diag(D), (n, 1)).T -> np.diag(D))   post order-2 / order-3: off-diagonal-entry-(j,k)-is-l*Z[j,k]*(C[j,k]*U_prev[j,j]-U_prev[j,k]) (m2, m3: refuted,
#                                                                  counter-model n = 2, j != k), order-l: diagonal-is-minus-the-ROW-sum-of-the-off-diagonal-part (refuted);
#                                                                  m1 stays proved (the first-order matrix is unchanged: the previous diagonal is constant)
#   s/(n, 1)).T - D)/(n, 1)) - D)/                  (.T dropped)   the same two obligations, orders >= 2 (refuted)
#   s/D = (i+1) \* Z \*/D = i * Z */                               post order-1.. off-diagonal-entry-..., diagonal-is-minus-... (all m; refuted)
#   s/(n, 1)).T - D)/(n, 1)).T + D)/                               post order-2.. off-diagonal-entry-... (refuted)
#   s/-np.sum(D, axis=1)/-np.sum(D, axis=0)/                       post order-l: diagonal-is-minus-the-ROW-sum-of-the-off-diagonal-part (refuted)
#   s/-np.sum(D, axis=1)/np.sum(D, axis=1)/                        the same (refuted)
#   s/D = (i+1) \* Z \*/D = (i+1) * Z.T */                         post order-l: off-diagonal-entry-... (refuted)
#   s/D_list.append(D \* l)/D = D * l; D_list.append(D)/           post order-2..: off-diagonal-entry-... (the recursion continues from the SCALED matrix; refuted)
#   s/np.tile(np.diag(D), (n, 1)).T - D/np.tile(np.diag(D), (n, 1)).T - D.T/     post order-2..: off-diagonal-entry-... (refuted)
#   s/np.tile(np.diag(D), (n, 1)).T - D/np.tile(np.diag(Z), (n, 1)).T - D/       post order-1..: off-diagonal-entry-... (refuted)
#   s/^        Z\[range(n), range(n)\] = 0.$/        pass/         post Z-has-a-zero-diagonal, order-l: diagonal-is-minus-... (refuted)
#   s/D = (i+1) \* Z \* (C \* np.tile/D = (i+1) * Z * (np.tile/   post order-1..: off-diagonal-entry-... (refuted)
#   s/^        D = np.eye(n)$/        D = np.ones((n, n))/         post order-1: off-diagonal-entry-... (refuted)
#   Equivalent restructurings stay proved: (i+1) * (Z * (..)), Z * (tile.T * C - D) * (i+1), -np.sum(D.T, axis=0), np.sum(D, 1), l * D,
#   W = Z; .. * W * ..;  or end undecided (Unsupported): np.diag(D)[:, None], np.diag(D).reshape(-1, 1) tiled, D.sum(axis=1), np.identity(n).
#
# core.py / core.core_tt_to_qtt.values
#   seeded C17-5  (138: _reshape(A, (r1, 2, -1)) gets order='C')   post lowest-digit: row block s (rows a + r1*s) of the last left factor is slice s of the FIRST
#                                                                  returned core (Fortran-order fold) (failed)
#   138s/(r1, 2, -1)/(2, r1, -1)/                                  the same (failed)
#   136s/order='C'/order='F'/                                      inv-keep loop0.halving-steps-so-far (failed)
#   134s/\[A\[:As\], A\[As:\]\]/[A[As:], A[:As]]/                  inv-keep loop0.halving-steps-so-far (failed: the digit is inverted)
#   127s/(-1, r2))/(-1, r2), order='C')/                           inv-init loop0.first-left-factor-times-V0-is-the-Fortran-unfolding-of-G (failed)
#   141s/Y\[::-1\]/Y/                                              post lowest-digit.., digit l-1.., bonds.. (failed)
#   139s/Y\[0\] = np.einsum('ijk,kl', Y\[0\], V0)/Y[-1] = np.einsum('ijk,kl', Y[-1], V0)/    call-pre einsum-contracted-dimensions-agree, post lowest-digit.., digit l-1.. (failed)
#   139s/^/#/                       (V0 is dropped)                post lowest-digit.., digit l-1.. (failed)
#   Undecided here (Unsupported: the row slices are no longer the two halves) and reported by core.core_tt_to_qtt.shapes: 132s/\/\/ 2/\/\/ 4/, 131s/range(d-1)/range(d-2)/.
#   Equivalent restructurings stay proved: np.concatenate([..], axis=1), range(1, d), explicit order='F', len(A) // 2, reversing first and multiplying V0 into
#   Y[-1];  or end undecided (Unsupported / ContractMismatch): A[0:As] / A[As:2*As], list(reversed(Y)), an explicit third reshape dimension, np.reshape(..),
#   einsum with an explicit output.
